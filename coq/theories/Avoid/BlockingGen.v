(* C03: the edge loop of Router::newBlockingShape (router.cpp), translated by cpp2v on every run (Gen/BlockingLoop.v:
   the `for (pt_i ...)` loop over the polygon's edges together with the declarations of the variables it assigns,
   `blocked` and `seenIntersectionAtEndpoint`), equals the hand model `blocked_by_new_shape` of Avoid/Blocking.v, hence
   `blocked_by_shape`, hence everything proved about it (blocked_char, blocked_complete, blocked_sound, blocked_exact).
   A change of the loop - e.g. the flag declared inside the loop body, so that it is reset for every edge - changes the
   generated term and breaks `newBlockingShape_loop_eq`.
   EdgeInf::firstBlocker (graph.cpp) walks the router's vertex list through pointers and is outside the translatable
   fragment: it is tied by correspondence (harness/c03_block.cpp against the extracted blocked_by_shape). *)
From Adapt Require Import Num.Qaux Geom.GeomSpec Geom.GeomSpecDec Gen.Geometry Gen.BlockingLoop Geom.GeomProofs
     Avoid.SegPolyModel Avoid.SegPoly Avoid.Blocking Avoid.BlockingComplete Avoid.BlockingSound.
Local Open Scope Q_scope.

Lemma combine_nth_seq {A} (d : A) : forall P Q : list A, length P = length Q ->
  combine P Q = map (fun k => (nth k P d, nth k Q d)) (seq 0 (length P)).
Proof.
  induction P as [|a P IH]; intros [|b Q] H; try discriminate; [reflexivity|].
  cbn [combine length seq map nth]. f_equal.
  rewrite <- seq_shift, map_map. cbn [nth]. apply IH. cbn in H. lia.
Qed.

(* the (poly[i], poly[i+1 mod n]) pair the loop body looks at *)
Definition edge_at (P : list pt) (i : Z) : pt * pt :=
  (znth pt0 P i, znth pt0 P (if Z.eqb i (zlen P - 1) then 0 else i + 1)%Z).

Lemma edge_at_next_edges P : map (edge_at P) (zseq 0 (zlen P)) = next_edges P.
Proof.
  destruct P as [|p0 r]; [reflexivity|].
  unfold next_edges. rewrite (combine_nth_seq pt0) by (rewrite app_length; cbn; lia).
  unfold zlen at 1. rewrite zseq_0, map_map. apply map_ext_in. intros k Hk. apply in_seq in Hk.
  cbn [length] in Hk. unfold edge_at. rewrite znth_of_nat. f_equal.
  unfold zlen. cbn [length].
  destruct (Z.eqb (Z.of_nat k) (Z.of_nat (S (length r)) - 1)) eqn:E.
  - apply Z.eqb_eq in E. assert (k = length r) by lia. subst k.
    rewrite app_nth2 by lia. rewrite Nat.sub_diag. reflexivity.
  - apply Z.eqb_neq in E. assert (k < length r)%nat by lia.
    replace (Z.of_nat k + 1)%Z with (Z.of_nat (S k)) by lia. rewrite znth_of_nat.
    cbn [nth]. rewrite app_nth1 by assumption. reflexivity.
Qed.

Section Loop.
  Variables (e1 e2 : pt) (P : list pt).
  (* the accumulator of the generated fold: (broke, (blocked, seenIntersectionAtEndpoint)) *)
  Let F := fun (st : bool * (bool * bool)) (i : Z) =>
    match st with
    | (true, _) => st
    | (false, (blocked_1, seen_1)) =>
        let pt_n : Z := (if Z.eqb i (zlen P - 1) then 0 else i + 1)%Z in
        let '(r, o) := segmentShapeIntersect e1 e2 (znth pt0 P i) (znth pt0 P pt_n) seen_1 in
        let seen_2 := o in
        if r then let blocked_2 := true in (true, (blocked_2, seen_2)) else (false, (blocked_1, seen_2))
    end.

  Lemma loop_broke l b s : fold_left F l (true, (b, s)) = (true, (b, s)).
  Proof. induction l; cbn; auto. Qed.

  Lemma loop_blocked l : forall seen,
    fst (snd (fold_left F l (false, (false, seen)))) = blocked_edges e1 e2 (map (edge_at P) l) seen.
  Proof.
    induction l as [|i l IH]; intro seen; [reflexivity|].
    cbn [fold_left map blocked_edges]. unfold edge_at at 1.
    assert (HF : F (false, (false, seen)) i =
                 let '(r, o) := segmentShapeIntersect e1 e2 (znth pt0 P i)
                                  (znth pt0 P (if Z.eqb i (zlen P - 1) then 0 else i + 1)%Z) seen in
                 if r then (true, (true, o)) else (false, (false, o))) by reflexivity.
    rewrite HF. clear HF.
    destruct (segmentShapeIntersect e1 e2 (znth pt0 P i) (znth pt0 P (if Z.eqb i (zlen P - 1) then 0 else i + 1)%Z) seen)
      as [r o].
    destruct r.
    - rewrite loop_broke. reflexivity.
    - apply IH.
  Qed.

  Lemma newBlockingShape_loop_unfold :
    newBlockingShape_edge_loop e1 e2 P = fst (snd (fold_left F (zseq 0 (zlen P)) (false, (false, false)))).
  Proof.
    unfold newBlockingShape_edge_loop. cbv zeta.
    match goal with |- context [fold_left ?f ?l ?s] => change f with F end.
    destruct (fold_left F (zseq 0 (zlen P)) (false, (false, false))) as [br [b s]]. reflexivity.
  Qed.
End Loop.

(* the translated loop IS the hand model *)
Theorem newBlockingShape_loop_eq e1 e2 P :
  newBlockingShape_edge_loop e1 e2 P = blocked_by_new_shape e1 e2 P.
Proof.
  rewrite newBlockingShape_loop_unfold, loop_blocked, edge_at_next_edges. reflexivity.
Qed.

Corollary newBlockingShape_loop_eq_shape e1 e2 P :
  newBlockingShape_edge_loop e1 e2 P = blocked_by_shape e1 e2 P.
Proof. rewrite newBlockingShape_loop_eq. apply blocked_order_irrelevant. Qed.

(* ---- the theorems of Blocking*.v restated over the generated loop *)
Theorem newBlockingShape_loop_char e1 e2 P :
  newBlockingShape_edge_loop e1 e2 P =
  existsb (crosses e1 e2) (poly_edges P) || (2 <=? touch_count e1 e2 (poly_edges P))%nat.
Proof.
  rewrite newBlockingShape_loop_eq_shape. unfold blocked_by_shape. rewrite blocked_char.
  rewrite Nat.add_0_r. reflexivity.
Qed.

Theorem newBlockingShape_loop_exact P e1 e2 :
  convex_ccw P = true -> distinct_pts P -> (exists q0, strictly_inside_all_edges P q0) ->
  inside_strict P e1 = false -> inside_strict P e2 = false ->
  (newBlockingShape_edge_loop e1 e2 P = false <->
   through_interior P e1 e2 = false \/
   (degenerate_chord P e1 e2 = true /\ (touch_count e1 e2 (poly_edges P) < 2)%nat)).
Proof. rewrite newBlockingShape_loop_eq_shape. apply blocked_exact. Qed.

(* the second touch blocks: a chord of the square with both ends on its border, on different sides, neither a vertex
   (the case a flag that is reset per edge lets through) *)
Example newBlockingShape_loop_second_touch :
  newBlockingShape_edge_loop (mkpt 0 4) (mkpt 10 1) sq10 = true /\
  touch_count (mkpt 0 4) (mkpt 10 1) (poly_edges sq10) = 2%nat /\
  existsb (crosses (mkpt 0 4) (mkpt 10 1)) (poly_edges sq10) = false /\
  through_interior sq10 (mkpt 0 4) (mkpt 10 1) = true.
Proof. repeat split; vm_compute; reflexivity. Qed.
(* one touch alone does not (a route may leave from a point on the border) *)
Example newBlockingShape_loop_one_touch : newBlockingShape_edge_loop (mkpt 5 0) (mkpt 5 (-7)) sq10 = false.
Proof. vm_compute. reflexivity. Qed.

(* ---- the Gen-free executable decider the correspondence runs against the real loops (extract/C03.v: BLK):
   spec_shapeBlocks of Geom/GeomSpecDec.v over the (prev, cur) edges; equal to the model, hence to the translated loop *)
Lemma touches_eq_spec e1 e2 s1 s2 : touches e1 e2 (s1, s2) = spec_touchesEdge e1 e2 s1 s2.
Proof.
  unfold touches, spec_touchesEdge, spec_vecDir.
  rewrite !Point_eq_spec, !pointOnLine_eq_spec, !vecDir_cross'. reflexivity.
Qed.

Lemma touch_filter_eq e1 e2 (es : list (pt * pt)) :
  filter (fun e => negb (crosses e1 e2 e) && touches e1 e2 e) es =
  filter (fun e => spec_touchesEdge e1 e2 (fst e) (snd e)) es.
Proof.
  apply filter_ext. intros [s1 s2]. rewrite touches_eq_spec. cbn [fst snd].
  destruct (crosses e1 e2 (s1, s2)) eqn:C; [|reflexivity].
  rewrite crosses_spec in C. cbn [fst snd] in C.
  rewrite (spec_cross_touch_exclusive _ _ _ _ C). reflexivity.
Qed.

Theorem blocked_by_shape_eq_spec e1 e2 P :
  blocked_by_shape e1 e2 P = spec_shapeBlocks e1 e2 (poly_edges P).
Proof.
  unfold blocked_by_shape. rewrite blocked_char, spec_shapeBlocks_closed, Nat.add_0_r.
  unfold touch_count, spec_touchCount. rewrite touch_filter_eq. f_equal.
  induction (poly_edges P) as [|e l IH]; [reflexivity|]. cbn [existsb]. rewrite IH, crosses_spec. reflexivity.
Qed.

Corollary newBlockingShape_loop_eq_spec e1 e2 P :
  newBlockingShape_edge_loop e1 e2 P = spec_shapeBlocks e1 e2 (poly_edges P).
Proof. rewrite newBlockingShape_loop_eq_shape. apply blocked_by_shape_eq_spec. Qed.
