(* Segment versus convex polygon, decided exactly over Q (C03/C04/C06; DESIGN 5.3).
   Polygons are vertex lists in libavoid's orientation (inPoly: inside = cross(prev,cur,q) >= 0 for every
   edge (prev,cur)); "strictly inside" = GeomSpec.strictly_inside_all_edges.
   Model file: definitions only, the proofs are in Avoid/SegPoly.v.  Nothing here depends on Gen/. *)
From Adapt Require Import Num.Qaux Geom.GeomSpec Geom.GeomSpecDec.
Local Open Scope Q_scope.

(* cross(a,b, u + t (v-u)) = edge_c0 + t * edge_c1 *)
Definition edge_c0 (e : pt * pt) (u : pt) : Q := cross (fst e) (snd e) u.
Definition edge_c1 (e : pt * pt) (u v : pt) : Q :=
  (px (snd e) - px (fst e)) * (py v - py u) - (px v - px u) * (py (snd e) - py (fst e)).

(* Is there t with lo < t < hi and 0 < c0 + t*c1 for every (c0,c1) of the list?  (Cyrus-Beck clipping) *)
Fixpoint clip (cs : list (Q * Q)) (lo hi : Q) : bool :=
  match cs with
  | [] => Qltb lo hi
  | (c0, c1) :: r =>
      if Qltb 0 c1 then clip r (Qmax' lo (- c0 / c1)) hi
      else if Qltb c1 0 then clip r lo (Qmin' hi (- c0 / c1))
      else Qltb 0 c0 && clip r lo hi
  end.

Definition seg_constraints (P : list pt) (u v : pt) : list (Q * Q) :=
  map (fun e => (edge_c0 e u, edge_c1 e u v)) (poly_edges P).

(* some point of the open segment uv is strictly inside P *)
Definition through_interior (P : list pt) (u v : pt) : bool := clip (seg_constraints P u v) 0 1.

Definition inside_strict (P : list pt) (q : pt) : bool :=
  forallb (fun e => Qltb 0 (cross (fst e) (snd e) q)) (poly_edges P).
Definition inside_closed (P : list pt) (q : pt) : bool :=
  forallb (fun e => Qleb 0 (cross (fst e) (snd e) q)) (poly_edges P).

(* no point of the closed segment uv is strictly inside P *)
Definition seg_clear (P : list pt) (u v : pt) : bool :=
  negb (through_interior P u v) && negb (inside_strict P u) && negb (inside_strict P v).

(* the shapes a connector s -> d has to avoid: all but those strictly containing s or d
   (Router::contains, adjustContainsWithAdd uses countBorder = false) *)
Definition obstacles (shapes : list (list pt)) (s d : pt) : list (list pt) :=
  filter (fun P => negb (inside_strict P s || inside_strict P d)) shapes.

Definition consecutive {A} (l : list A) : list (A * A) := combine l (tl l).

Definition segs_clear (obst : list (list pt)) (r : list pt) : bool :=
  forallb (fun ab => forallb (fun P => seg_clear P (fst ab) (snd ab)) obst) (consecutive r).

(* the verified route checker of C03: at least two points, starts at s, ends at d, no segment through an obstacle *)
Definition route_ok (shapes : list (list pt)) (s d : pt) (r : list pt) : bool :=
  (2 <=? length r)%nat && pt_eqb (hd s r) s && pt_eqb (last r d) d && segs_clear (obstacles shapes s d) r.

(* classifier of the known finding F-b: the segment runs through the interior of P, its endpoints are not strictly
   inside, and it properly crosses no edge of P - so it meets the boundary only at vertices of P and/or at its own
   endpoints *)
Definition degenerate_chord (P : list pt) (a b : pt) : bool :=
  through_interior P a b && negb (inside_strict P a) && negb (inside_strict P b) &&
  forallb (fun e => negb (spec_segmentIntersect a b (fst e) (snd e))) (poly_edges P).

(* diagnostics for the check: (segment index, shape index, is degenerate chord) of every offending pair *)
Definition offenders (shapes : list (list pt)) (r : list pt) : list (nat * nat * bool) :=
  flat_map (fun iab => let '(i, ab) := iab in
     flat_map (fun jP => let '(j, P) := jP in
        if seg_clear P (fst ab) (snd ab) then [] else [(i, j, degenerate_chord P (fst ab) (snd ab))])
       (combine (seq 0 (length shapes)) shapes))
    (combine (seq 0 (length r)) (consecutive r)).

(* strict convexity in libavoid's orientation: every other vertex is strictly on the inner side of every edge,
   except the edge's own endpoints (used by the generators' self-check and in non-vacuity examples) *)
Definition convex_ccw (P : list pt) : bool :=
  (3 <=? length P)%nat &&
  forallb (fun e => forallb (fun q => pt_eqb q (fst e) || pt_eqb q (snd e) || Qltb 0 (cross (fst e) (snd e) q)) P)
          (poly_edges P).
