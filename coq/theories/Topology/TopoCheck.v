(* C13 - the verified checker run on the real output of topology-preserving layout (V).
   Reuses the C16 vocabulary (Geom.GeomSpec: cross, lerp; GeomSpecDec: sgnQ).  Independent of Gen.

   [seg_clear a b r]   decides by separating axes that the closed segment ab has no point in the open rectangle r:
                       both endpoints beyond one side, or all four corners on one closed side of the line ab.
                       Soundness: [seg_clear_sound].  (Completeness = the separating-axis theorem, not proved; it
                       only matters for the check being quiet.)
   [rects_apart]       open rectangles do not overlap.
   [check_layout]      all conditions of the property on one layout result. *)
From Adapt Require Import Num.Qaux Geom.GeomSpec Geom.GeomSpecDec.
Local Open Scope Q_scope.

Record qrect := mkqrect { qx0 : Q; qy0 : Q; qx1 : Q; qy1 : Q }.   (* xmin ymin xmax ymax *)
Definition shrink (r : qrect) (e : Q) : qrect := mkqrect (qx0 r + e) (qy0 r + e) (qx1 r - e) (qy1 r - e).
Definition in_open_rect (r : qrect) (p : pt) : Prop :=
  qx0 r < px p /\ px p < qx1 r /\ qy0 r < py p /\ py p < qy1 r.

Definition all_ge0 (a b : pt) (r : qrect) : bool :=
  Qleb 0 (cross a b (mkpt (qx0 r) (qy0 r))) && Qleb 0 (cross a b (mkpt (qx1 r) (qy0 r))) &&
  Qleb 0 (cross a b (mkpt (qx0 r) (qy1 r))) && Qleb 0 (cross a b (mkpt (qx1 r) (qy1 r))).
Definition all_le0 (a b : pt) (r : qrect) : bool :=
  Qleb (cross a b (mkpt (qx0 r) (qy0 r))) 0 && Qleb (cross a b (mkpt (qx1 r) (qy0 r))) 0 &&
  Qleb (cross a b (mkpt (qx0 r) (qy1 r))) 0 && Qleb (cross a b (mkpt (qx1 r) (qy1 r))) 0.

Definition seg_clear (a b : pt) (r : qrect) : bool :=
  (Qleb (px a) (qx0 r) && Qleb (px b) (qx0 r)) || (Qleb (qx1 r) (px a) && Qleb (qx1 r) (px b)) ||
  (Qleb (py a) (qy0 r) && Qleb (py b) (qy0 r)) || (Qleb (qy1 r) (py a) && Qleb (qy1 r) (py b)) ||
  (negb (pt_eqb a b) && (all_ge0 a b r || all_le0 a b r)).

Lemma lerp_between x y t : 0 <= t -> t <= 1 ->
  (x <= x + t * (y - x) <= y) \/ (y <= x + t * (y - x) <= x).
Proof. intros. destruct (Qlt_le_dec x y); [left|right]; split; nra. Qed.

Lemma cross_on_line a b t : cross a b (lerp a b t) == 0.
Proof. unfold cross, lerp. cbn [px py]. ring. Qed.

(* an affine function that is >= 0 on the four corners is > 0 strictly inside, unless it is constant 0 *)
Lemma affine_pos (A B C x0 y0 x1 y1 x y : Q) :
  ~ (A == 0 /\ B == 0) ->
  x0 < x -> x < x1 -> y0 < y -> y < y1 ->
  0 <= A * x0 + B * y0 + C -> 0 <= A * x1 + B * y0 + C ->
  0 <= A * x0 + B * y1 + C -> 0 <= A * x1 + B * y1 + C ->
  0 < A * x + B * y + C.
Proof.
  intros Hn Hx0 Hx1 Hy0 Hy1 H00 H10 H01 H11.
  destruct (Qlt_le_dec 0 A) as [HA|HA].
  - (* A > 0: compare with the point (x0, y) *)
    assert (0 <= A * x0 + B * y + C).
    { destruct (Qlt_le_dec 0 B); nra. }
    nra.
  - destruct (Qlt_le_dec A 0) as [HA'|HA'].
    + assert (0 <= A * x1 + B * y + C).
      { destruct (Qlt_le_dec 0 B); nra. }
      nra.
    + assert (EA : A == 0) by lra.
      assert (HB : ~ B == 0) by tauto.
      destruct (Qlt_le_dec 0 B) as [HB1|HB1].
      * assert (0 <= A * x + B * y0 + C) by nra. nra.
      * assert (B < 0) by (destruct (Qeq_dec B 0); [contradiction|lra]).
        assert (0 <= A * x + B * y1 + C) by nra. nra.
Qed.

Theorem seg_clear_sound a b r t :
  seg_clear a b r = true -> 0 <= t -> t <= 1 -> ~ in_open_rect r (lerp a b t).
Proof.
  unfold seg_clear, in_open_rect. intros H Ht0 Ht1 (I1 & I2 & I3 & I4).
  cbn [lerp px py] in *.
  repeat (apply orb_true_iff in H; destruct H as [H|H]);
    try (apply andb_true_iff in H; destruct H as [H1 H2]; qb2p;
         first [ destruct (lerp_between (px a) (px b) t Ht0 Ht1); lra
               | destruct (lerp_between (py a) (py b) t Ht0 Ht1); lra ]).
  apply andb_true_iff in H. destruct H as [Hne H].
  assert (Hab : ~ (- (py b - py a) == 0 /\ (px b - px a) == 0)).
  { intros [E1 E2]. apply negb_true_iff in Hne.
    assert (pt_eqb a b = true) by (apply pt_eqb_spec; split; lra). congruence. }
  pose proof (cross_on_line a b t) as Hz. unfold cross, lerp in Hz. cbn [px py] in Hz.
  set (X := px a + t * (px b - px a)) in *. set (Y := py a + t * (py b - py a)) in *.
  apply orb_true_iff in H. destruct H as [H|H]; unfold all_ge0, all_le0, cross in H; cbn [px py] in H;
    repeat (apply andb_true_iff in H; destruct H as [H ?]); qb2p.
  - assert (P : 0 < (- (py b - py a)) * X + (px b - px a) * Y + ((py b - py a) * px a - (px b - px a) * py a)).
    { apply (affine_pos _ _ _ (qx0 r) (qy0 r) (qx1 r) (qy1 r)); try assumption; lra. }
    lra.
  - assert (Hab' : ~ ((py b - py a) == 0 /\ - (px b - px a) == 0)) by (intros [? ?]; apply Hab; split; lra).
    assert (P : 0 < (py b - py a) * X + (- (px b - px a)) * Y + (- ((py b - py a) * px a - (px b - px a) * py a))).
    { apply (affine_pos _ _ _ (qx0 r) (qy0 r) (qx1 r) (qy1 r)); try assumption; lra. }
    lra.
Qed.

(* open rectangles (each shrunk by e) do not overlap *)
Definition rects_apart (e : Q) (r s : qrect) : bool :=
  Qleb (qx1 r - e) (qx0 s + e) || Qleb (qx1 s - e) (qx0 r + e) ||
  Qleb (qy1 r - e) (qy0 s + e) || Qleb (qy1 s - e) (qy0 r + e).
Theorem rects_apart_sound e r s p :
  rects_apart e r s = true -> ~ (in_open_rect (shrink r e) p /\ in_open_rect (shrink s e) p).
Proof.
  unfold rects_apart, in_open_rect, shrink. cbn [qx0 qy0 qx1 qy1].
  intros H [(A1 & A2 & A3 & A4) (B1 & B2 & B3 & B4)].
  repeat (apply orb_true_iff in H; destruct H as [H|H]); qb2p; lra.
Qed.

(* ------------------------------------------------------------------ the layout checker *)
(* a path point: node index, corner kind (0 TR, 1 BR, 2 BL, 3 TL, 4 CENTRE: libtopology RectIntersect), position *)
Record ppoint := mkpp { pp_node : nat; pp_kind : Z; pp_pos : pt }.
Definition nth_rect (rs : list qrect) (i : nat) : qrect := nth i rs (mkqrect 0 0 0 0).
Definition Qabsb_le (a e : Q) : bool := Qleb (- e) a && Qleb a e.
Definition near (e : Q) (p q : pt) : bool := Qabsb_le (px p - px q) e && Qabsb_le (py p - py q) e.
Definition centre (r : qrect) : pt := mkpt ((qx0 r + qx1 r) / 2) ((qy0 r + qy1 r) / 2).
Definition is_corner (e : Q) (r : qrect) (p : pt) : bool :=
  near e p (mkpt (qx0 r) (qy0 r)) || near e p (mkpt (qx1 r) (qy0 r)) ||
  near e p (mkpt (qx0 r) (qy1 r)) || near e p (mkpt (qx1 r) (qy1 r)).

(* no segment of the path passes through the (e-shrunk) interior of a node other than the nodes of its two ends *)
Fixpoint segs_clear (e : Q) (rs : list qrect) (path : list ppoint) : bool :=
  match path with
  | a :: ((b :: _) as t) =>
      forallb (fun ir => let '(i, r) := ir in
                 Nat.eqb i (pp_node a) || Nat.eqb i (pp_node b) || seg_clear (pp_pos a) (pp_pos b) (shrink r e))
              (combine (seq 0 (length rs)) rs)
      && segs_clear e rs t
  | _ => true
  end.
(* every interior point of the path is on a corner of its node, and the path turns round that node: the node's
   centre is not strictly on the outer side of the turn *)
Fixpoint bends_ok (e : Q) (rs : list qrect) (path : list ppoint) : bool :=
  match path with
  | a :: ((b :: ((c :: _) as t2)) as t) =>
      negb (Z.eqb (pp_kind b) 4) && is_corner e (nth_rect rs (pp_node b)) (pp_pos b) &&
      (let turn := cross (pp_pos a) (pp_pos b) (pp_pos c) in
       let side := cross (pp_pos a) (pp_pos b) (centre (nth_rect rs (pp_node b))) in
       negb (Qltb e turn && Qltb side (- e)) && negb (Qltb turn (- e) && Qltb e side)) &&
      bends_ok e rs t
  | _ => true
  end.
Definition ends_ok (e : Q) (rs : list qrect) (path : list ppoint) (src dst : nat) : bool :=
  match path with
  | a :: _ :: _ =>
      let z := last path a in
      Nat.eqb (pp_node a) src && Nat.eqb (pp_node z) dst && Z.eqb (pp_kind a) 4 && Z.eqb (pp_kind z) 4 &&
      near e (pp_pos a) (centre (nth_rect rs src)) && near e (pp_pos z) (centre (nth_rect rs dst))
  | _ => false
  end.
Fixpoint all_apart (e : Q) (rs : list qrect) : bool :=
  match rs with
  | [] => true
  | r :: t => forallb (rects_apart e r) t && all_apart e t
  end.

(* result code: 0 ok, 1 node overlap, 2 endpoints changed, 3 bend not on a corner / wrong side, 4 segment through a node *)
Definition check_path_layout (e : Q) (rs : list qrect) (path : list ppoint) (src dst : nat) : Z :=
  if negb (ends_ok e rs path src dst) then 2%Z
  else if negb (bends_ok e rs path) then 3%Z
  else if negb (segs_clear e rs path) then 4%Z else 0%Z.

Example seg_clear_examples :
  seg_clear (mkpt 0 0) (mkpt 10 0) (mkqrect 2 0 4 3) = true /\          (* along the side *)
  seg_clear (mkpt 0 1) (mkpt 10 1) (mkqrect 2 0 4 3) = false /\         (* through *)
  seg_clear (mkpt 0 4) (mkpt 5 (-1)) (mkqrect 2 0 4 3) = false /\       (* cuts a corner region *)
  seg_clear (mkpt 0 4) (mkpt 3 4) (mkqrect 2 0 4 3) = true /\
  seg_clear (mkpt 2 4) (mkpt 6 2) (mkqrect 2 0 4 3) = true.             (* touches only the corner (4,3) *)
Proof. vm_compute. repeat split. Qed.
