(* C13 - data of a libtopology TriConstraint as seen by slack()/maxSafeAlpha(): the parameters p, g, leftOf and the six
   positions it reads through its Node pointers: u1 = u->initialPos(scanDim), u2 = u->finalPos(), etc.
   No proofs here (model file): Gen/Tri.v imports it. *)
From Adapt Require Import Num.Qaux.
Local Open Scope Q_scope.

Record tri := mktri {
  tc_p : Q; tc_g : Q; tc_leftOf : bool;
  tc_u1 : Q; tc_u2 : Q; tc_v1 : Q; tc_v2 : Q; tc_w1 : Q; tc_w2 : Q }.
Definition tri0 : tri := mktri 0 0 false 0 0 0 0 0 0.

(* ---------------------------------------------------------------------------------------------------------------
   Hand model of the min-alpha move of TopologyConstraints::solve() (topology_constraints.cpp:330-384).
   nodes: (initial position = rect centre in the scan dimension, final position = var->finalPosition after the VPSC
   solve); a triangle constraint names its three nodes by index.  The functions that evaluate a constraint are
   parameters here (the proofs instantiate them with the generated TriConstraint::maxSafeAlpha). *)
Record npos := mknpos { n_init : Q; n_final : Q }.
Definition npos0 : npos := mknpos 0 0.
Record tcon := mktcon { c_u : nat; c_v : nat; c_w : nat; c_p : Q; c_g : Q; c_left : bool }.

Definition getn (nodes : list npos) (i : nat) : npos := nth i nodes npos0.
Definition tri_of (nodes : list npos) (c : tcon) : tri :=
  mktri (c_p c) (c_g c) (c_left c)
        (n_init (getn nodes (c_u c))) (n_final (getn nodes (c_u c)))
        (n_init (getn nodes (c_v c))) (n_final (getn nodes (c_v c)))
        (n_init (getn nodes (c_w c))) (n_final (getn nodes (c_w c))).

(* Node::posOnLine *)
Definition pos_on_line (n : npos) (alpha : Q) : Q := n_init n + alpha * (n_final n - n_init n).

Section Move.
  Variable msa : tri -> Q.          (* TriConstraint::maxSafeAlpha *)
  (* double minTAlpha=1; for each t: tAlpha = maxSafeAlpha(); if (tAlpha < minTAlpha) minTAlpha = tAlpha; *)
  Definition min_step (nodes : list npos) (a : Q) (c : tcon) : Q :=
    let m := msa (tri_of nodes c) in if Qltb m a then m else a.
  Definition min_alpha (nodes : list npos) (cs : list tcon) : Q := fold_left (min_step nodes) cs 1.
  (* if (minTAlpha > 0) every node: rect->moveCentreD(dim, posOnLine(dim, minTAlpha)) *)
  Definition move_nodes (nodes : list npos) (alpha : Q) : list npos :=
    if Qgtb alpha 0 then map (fun n => mknpos (pos_on_line n alpha) (n_final n)) nodes else nodes.
  Definition solve_move (nodes : list npos) (cs : list tcon) : list npos :=
    move_nodes nodes (min_alpha nodes cs).
  (* several layout steps: before each step the VPSC solve produces new final positions (arbitrary here) *)
  Definition set_finals (nodes : list npos) (fs : list Q) : list npos :=
    map (fun nf => mknpos (n_init (fst nf)) (snd nf)) (combine nodes fs).
  Fixpoint run_steps (nodes : list npos) (cs : list tcon) (finals : list (list Q)) : list npos :=
    match finals with
    | [] => nodes
    | fs :: rest => run_steps (solve_move (set_finals nodes fs) cs) cs rest
    end.
End Move.
