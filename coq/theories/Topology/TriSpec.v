(* C13 - hand-written specification of TriConstraint::slack / maxSafeAlpha (independent of Gen: it still builds and
   extracts when topology_constraints.cpp changes) and the decider of the step-rule property that the check runs on the
   IMPLEMENTATION's maxSafeAlpha values. *)
From Adapt Require Import Num.Qaux Topology.TriModel.
Local Open Scope Q_scope.

Definition spec_slack (t : tri) (ux vx wx : Q) : Q :=
  let rhs := ux + tc_p t * (vx - ux) + tc_g t in if tc_leftOf t then rhs - wx else wx - rhs.
Definition spec_si (t : tri) : Q := spec_slack t (tc_u1 t) (tc_v1 t) (tc_w1 t).
Definition spec_sf (t : tri) : Q := spec_slack t (tc_u2 t) (tc_v2 t) (tc_w2 t).
(* slack at the position interpolated by a *)
Definition spec_slack_at (t : tri) (a : Q) : Q := spec_si t + a * (spec_sf t - spec_si t).
(* the largest safe step: 1 if the final position is feasible, else the zero of the affine slack; the two special
   branches of the code: equal slacks -> 1, negative quotient -> the (negative) final slack *)
Definition spec_msa (t : tri) : Q :=
  if Qgeb (spec_sf t) 0 then 1
  else if Qeqb (spec_si t - spec_sf t) 0 then 1
  else let q := spec_si t / (spec_si t - spec_sf t) in if Qltb q 0 then spec_sf t else q.

(* the property of one constraint and one step size m (tol = tolerance for the rounding of the division in binary64):
   from a feasible start, m = 1 if the target is feasible, otherwise 0 <= m < 1 and the constraint is tight at m *)
Definition msa_ok_dec (t : tri) (m tol : Q) : bool :=
  if Qltb (spec_si t) 0 then true
  else if Qgeb (spec_sf t) 0 then Qeqb m 1
  else Qleb 0 m && Qltb m 1 && Qleb (- tol) (spec_slack_at t m) && Qleb (spec_slack_at t m) tol.

Theorem msa_ok_dec_sound t m :
  msa_ok_dec t m 0 = true -> 0 <= spec_si t ->
  (forall a, 0 <= a -> a <= m -> 0 <= spec_slack_at t a) /\ (spec_sf t < 0 -> spec_slack_at t m == 0).
Proof.
  unfold msa_ok_dec, spec_slack_at. intros H Hi.
  destruct (Qltb (spec_si t) 0) eqn:E0; qb2p; [lra|].
  destruct (Qgeb (spec_sf t) 0) eqn:E1; qb2p.
  - split; [|intro; lra]. intros a Ha Ham. nra.
  - repeat (apply andb_true_iff in H; destruct H as [H ?]). qb2p.
    split; [|intro; lra]. intros a Ha Ham. nra.
Qed.

Example msa_ok_dec_nonvacuous :
  let t := mktri (1#2) 0 false (-2) 2 (-2) 2 0 0 in
  spec_si t == 2 /\ spec_sf t == -2 /\ spec_msa t == 1#2 /\ msa_ok_dec t (1#2) 0 = true /\ msa_ok_dec t 1 0 = false.
Proof. vm_compute. repeat split; intro; discriminate. Qed.
