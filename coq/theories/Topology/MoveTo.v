(* C13 - loop level: the solve loop of ColaTopologyAddon::moveTo (model: Topology/MoveToModel.v) instantiated with the GENERATED
   TriConstraint::maxSafeAlpha (Gen/Tri.v).  Statement that seeded change C13-6 breaks:

     for every iteration budget N, also when the budget is exhausted, the coordinates returned by moveTo are exactly the positions of the
     LAST state produced by a safe step (alpha = min maxSafeAlpha), hence satisfy every topology constraint of that state;

   the variant that moves the rectangles on to var->finalPosition after the loop is a no-op when the loop ended because solve() was not
   interrupted (that is why no test notices it) and is REFUTED when the budget ran out.

   Premise about what the model does not compute (oracle): the constraint set installed by the topology event of an interrupted solve()
   holds at the moved positions - exactly what COLA_ASSERT(assertFeasible()) at the end of TopologyConstraints::solve() checks.  The
   VPSC results (final positions) of the iterations are arbitrary. *)
From Coq Require Import Lia.
From Adapt Require Import Num.Qaux Topology.TriModel Topology.TriSpec Gen.Tri Topology.Tri Topology.MoveToModel.
Local Open Scope Q_scope.

Definition sstep := solve1 maxSafeAlpha.
(* every constraint of the state's constraint set is non-violated at the state's positions *)
Definition inv (s : mstate) : Prop := forall c, In c (ms_cs s) -> holds (ms_nodes s) c.
(* every rectangle is at its variable's final position *)
Definition at_final (s : mstate) : Prop := forall n, In n (ms_nodes s) -> n_init n == n_final n.

(* admissible oracle answer for the solve() that starts in state s *)
Definition orc_ok_at (s : mstate) (o : list Q * list tcon) : Prop :=
  length (fst o) = length (ms_nodes s) /\
  (snd (sstep s o) = true -> forall c, In c (snd o) -> holds (ms_nodes (fst (sstep s o))) c).
(* ... for k consecutive iterations, the first being iteration number i *)
Fixpoint orc_ok (k i : nat) (s : mstate) (orc : oracle) : Prop :=
  match k with
  | O => True
  | S k' => orc_ok_at s (orc i) /\ orc_ok k' (S i) (fst (sstep s (orc i))) orc
  end.

(* ------------------------------------------------------------------ one solve() *)
Lemma sstep_nodes s o : ms_nodes (fst (sstep s o)) = step (set_finals (ms_nodes s) (fst o)) (ms_cs s).
Proof. reflexivity. Qed.
Lemma sstep_cs s o : ms_cs (fst (sstep s o)) = if snd (sstep s o) then snd o else ms_cs s.
Proof. reflexivity. Qed.
Lemma sstep_intr s o : snd (sstep s o) = Qltb (alpha_star (set_finals (ms_nodes s) (fst o)) (ms_cs s)) 1.
Proof. reflexivity. Qed.

(* the step of one solve() is safe for the constraints it started with (C13_step) *)
Lemma sstep_safe s o :
  length (fst o) = length (ms_nodes s) -> inv s ->
  forall c, In c (ms_cs s) -> holds (ms_nodes (fst (sstep s o))) c.
Proof.
  intros Hl Hi c Hc. rewrite sstep_nodes. apply C13_step; [|exact Hc].
  intros c' Hc'. apply holds_set_finals; [exact Hl|apply Hi; exact Hc'].
Qed.

Lemma sstep_inv s o : inv s -> orc_ok_at s o -> inv (fst (sstep s o)).
Proof.
  intros Hi [Hl Ho] c Hc. rewrite sstep_cs in Hc. destruct (snd (sstep s o)) eqn:E.
  - apply Ho; [reflexivity|exact Hc].
  - apply sstep_safe; assumption.
Qed.

(* a solve() that is not interrupted used alpha = 1: every rectangle is at its final position afterwards *)
Lemma sstep_at_final s o : snd (sstep s o) = false -> at_final (fst (sstep s o)).
Proof.
  intros E n Hn. rewrite sstep_intr in E. rewrite sstep_nodes in Hn.
  unfold step, solve_move, move_nodes in Hn. fold (alpha_star (set_finals (ms_nodes s) (fst o)) (ms_cs s)) in Hn.
  pose proof (alpha_star_le_1 (set_finals (ms_nodes s) (fst o)) (ms_cs s)) as H1.
  set (a := alpha_star (set_finals (ms_nodes s) (fst o)) (ms_cs s)) in *.
  qb2p.
  destruct (Qgtb a 0) eqn:E0; qb2p; [|lra].
  apply in_map_iff in Hn. destruct Hn as (n0 & <- & _).
  cbn [n_init n_final]. unfold pos_on_line.
  assert (Ha : a == 1) by lra. rewrite Ha. ring.
Qed.

(* ------------------------------------------------------------------ the loop *)
Lemma mt_loop_spec : forall b i s orc,
  (1 <= snd (fst (mt_loop maxSafeAlpha b i s orc)) <= Nat.max 1 b)%nat /\
  fst (fst (mt_loop maxSafeAlpha b i s orc)) = mt_iter maxSafeAlpha (snd (fst (mt_loop maxSafeAlpha b i s orc))) i s orc /\
  (snd (mt_loop maxSafeAlpha b i s orc) = true -> snd (fst (mt_loop maxSafeAlpha b i s orc)) = Nat.max 1 b) /\
  (snd (mt_loop maxSafeAlpha b i s orc) = false -> at_final (fst (fst (mt_loop maxSafeAlpha b i s orc)))) /\
  (inv s -> orc_ok (snd (fst (mt_loop maxSafeAlpha b i s orc))) i s orc -> inv (fst (fst (mt_loop maxSafeAlpha b i s orc)))).
Proof.
  induction b as [|b IH]; intros i s orc.
  - cbn [mt_loop fst snd mt_iter orc_ok]. fold (sstep s (orc i)).
    split; [cbn; lia|]. split; [reflexivity|]. split; [intros _; reflexivity|].
    split; [apply sstep_at_final|]. intros Hi [Ho _]. apply sstep_inv; assumption.
  - cbn [mt_loop]. fold (sstep s (orc i)).
    destruct (snd (sstep s (orc i)) && negb (Nat.eqb b 0)) eqn:E.
    + apply andb_true_iff in E. destruct E as [E1 E2].
      apply negb_true_iff, Nat.eqb_neq in E2.
      specialize (IH (S i) (fst (sstep s (orc i))) orc).
      destruct (mt_loop maxSafeAlpha b (S i) (fst (sstep s (orc i))) orc) as [[s' k] f].
      cbn [fst snd] in *. destruct IH as (Hk & Hs & Hf & Ha & Hv).
      split; [lia|]. split; [exact Hs|]. split; [intro F; specialize (Hf F); lia|].
      split; [exact Ha|].
      intros Hi [Ho Hr]. apply Hv; [apply sstep_inv; assumption|exact Hr].
    + cbn [fst snd mt_iter orc_ok].
      split; [lia|]. split; [reflexivity|]. split.
      * intro F. rewrite F in E. cbn in E. apply negb_false_iff, Nat.eqb_eq in E. subst b. reflexivity.
      * split; [apply sstep_at_final|]. intros Hi [Ho _]. apply sstep_inv; assumption.
Qed.

(* THE loop-level statement: for every budget N - whether the loop ends because solve() is no longer interrupted or because the
   budget is exhausted - moveTo returns exactly the rectangle centres of the state reached by k safe steps (1 <= k <= max 1 N),
   leaves the rectangles there, and that state satisfies every constraint of its constraint set. *)
Theorem moveTo_positions_are_last_safe_state N s orc :
  inv s -> orc_ok (mt_iters maxSafeAlpha N s orc) 0 s orc ->
  let k := mt_iters maxSafeAlpha N s orc in
  let s' := mt_iter maxSafeAlpha k 0 s orc in
  (1 <= k <= Nat.max 1 N)%nat /\
  moveTo maxSafeAlpha N s orc = (map n_init (ms_nodes s'), s') /\
  (forall c, In c (ms_cs s') -> holds (ms_nodes s') c) /\
  (mt_intr maxSafeAlpha N s orc = true -> k = Nat.max 1 N) /\
  (mt_intr maxSafeAlpha N s orc = false -> at_final s').
Proof.
  intros Hi Ho k s'. destruct (mt_loop_spec N 0%nat s orc) as (Hk & Hs & Hf & Ha & Hv).
  unfold moveTo, centres, mt_state, mt_intr. subst s' k. unfold mt_iters in *.
  rewrite <- Hs. split; [exact Hk|]. split; [reflexivity|]. split; [apply Hv; assumption|].
  split; assumption.
Qed.

(* every state of the loop is produced from its predecessor by a step that is safe for the predecessor's constraints *)
Lemma mt_iter_snoc : forall j i s orc,
  mt_iter maxSafeAlpha (S j) i s orc = fst (sstep (mt_iter maxSafeAlpha j i s orc) (orc (i + j)%nat)).
Proof.
  induction j as [|j IH]; intros i s orc.
  - cbn [mt_iter]. rewrite Nat.add_0_r. reflexivity.
  - change (mt_iter maxSafeAlpha (S (S j)) i s orc) with (mt_iter maxSafeAlpha (S j) (S i) (fst (sstep s (orc i))) orc).
    rewrite IH. cbn [mt_iter]. replace (S i + j)%nat with (i + S j)%nat by lia. reflexivity.
Qed.
Lemma mt_iter_inv : forall k i s orc, inv s -> orc_ok k i s orc ->
  forall j, (j <= k)%nat ->
  inv (mt_iter maxSafeAlpha j i s orc) /\ ((j < k)%nat -> orc_ok_at (mt_iter maxSafeAlpha j i s orc) (orc (i + j)%nat)).
Proof.
  induction k as [|k IH]; intros i s orc Hi Ho j Hj.
  - assert (j = 0%nat) by lia. subst j. split; [exact Hi|lia].
  - destruct Ho as [Ho Hr]. destruct j as [|j].
    + cbn [mt_iter]. rewrite Nat.add_0_r. split; [exact Hi|intros _; exact Ho].
    + cbn [mt_iter]. fold (sstep s (orc i)).
      destruct (IH (S i) (fst (sstep s (orc i))) orc (sstep_inv s (orc i) Hi Ho) Hr j ltac:(lia)) as [H1 H2].
      replace (i + S j)%nat with (S i + j)%nat by lia. split; [exact H1|intro; apply H2; lia].
Qed.
Theorem moveTo_every_step_safe k i s orc :
  inv s -> orc_ok k i s orc ->
  forall j, (j < k)%nat ->
  forall c, In c (ms_cs (mt_iter maxSafeAlpha j i s orc)) -> holds (ms_nodes (mt_iter maxSafeAlpha (S j) i s orc)) c.
Proof.
  intros Hi Ho j Hj c Hc. rewrite mt_iter_snoc.
  destruct (mt_iter_inv k i s orc Hi Ho j ltac:(lia)) as [H1 H2]. destruct (H2 Hj) as [Hl _].
  apply sstep_safe; assumption.
Qed.

(* the variant that moves the rectangles to var->finalPosition after the loop returns the same coordinates (up to ==) whenever the loop
   ended because solve() was not interrupted: invisible to every run that stays within the budget *)
Theorem moveTo_teleport_noop_when_converged N s orc :
  mt_intr maxSafeAlpha N s orc = false ->
  Forall2 Qeq (fst (moveTo_teleport maxSafeAlpha N s orc)) (fst (moveTo maxSafeAlpha N s orc)).
Proof.
  intro F. destruct (mt_loop_spec N 0%nat s orc) as (_ & _ & _ & Ha & _).
  unfold moveTo_teleport, moveTo, centres, mt_state. cbn [fst]. unfold mt_intr in F. specialize (Ha F).
  unfold at_final in Ha. induction (ms_nodes (fst (fst (mt_loop maxSafeAlpha N 0 s orc)))) as [|n l IH]; cbn [map].
  - constructor.
  - constructor; [symmetry; apply Ha; left; reflexivity|apply IH; intros n' Hn'; apply Ha; right; exact Hn'].
Qed.

(* ------------------------------------------------------------------ deciders (for the witnesses below) *)
Definition holdsb (nodes : list npos) (c : tcon) : bool := Qleb 0 (slackAtInitial (tri_of nodes c)).
Lemma holdsb_ok nodes c : holdsb nodes c = true <-> holds nodes c.
Proof. unfold holdsb, holds. apply Qleb_spec. Qed.
Definition invb (s : mstate) : bool := forallb (holdsb (ms_nodes s)) (ms_cs s).
Lemma invb_ok s : invb s = true -> inv s.
Proof. unfold invb, inv. intros H c Hc. apply holdsb_ok. apply (proj1 (forallb_forall _ _) H c Hc). Qed.
Definition orc_ok_atb (s : mstate) (o : list Q * list tcon) : bool :=
  Nat.eqb (length (fst o)) (length (ms_nodes s)) &&
  (negb (snd (sstep s o)) || forallb (holdsb (ms_nodes (fst (sstep s o)))) (snd o)).
Fixpoint orc_okb (k i : nat) (s : mstate) (orc : oracle) : bool :=
  match k with
  | O => true
  | S k' => orc_ok_atb s (orc i) && orc_okb k' (S i) (fst (sstep s (orc i))) orc
  end.
Lemma orc_okb_ok : forall k i s orc, orc_okb k i s orc = true -> orc_ok k i s orc.
Proof.
  induction k as [|k IH]; intros i s orc H; cbn [orc_ok orc_okb] in *; [exact I|].
  apply andb_true_iff in H. destruct H as [H1 H2]. split; [|apply IH; exact H2].
  unfold orc_ok_atb in H1. apply andb_true_iff in H1. destruct H1 as [Hl Hc]. split; [apply Nat.eqb_eq; exact Hl|].
  intros E c Hin. rewrite E in Hc. cbn in Hc. apply holdsb_ok. apply (proj1 (forallb_forall _ _) Hc c Hin).
Qed.

(* ------------------------------------------------------------------ the teleport variant is refuted *)
(* nodes 0,1: the two ends of a vertical segment at x = 0 (they stay); node 2: the mover w at x = 0 ... asked to x = 200.
   constraint "w <= g" (leftOf, p = 0): the mover is left of an edge at x = g. *)
Definition wit_c (g : Z) : tcon := mktcon 0 1 2 0 (inject_Z g) true.
Definition wit_nodes : list npos := [mknpos 0 0; mknpos 0 0; mknpos (-1) (-1)].
Definition wit_s : mstate := mkms wit_nodes [wit_c 1].
(* witness A (budget 100, the constant of the code): a bundle of more than 100 coincident edges at x = 1.  The first solve() moves w from
   -1 to the bundle (alpha = 2/201); every further solve() wraps ONE more edge of the bundle round the mover (alpha = 0, one event, the
   next edge of the bundle becomes the blocking constraint): the budget runs out with w = 1 and the edge in front still unwrapped. *)
Definition wit_orcA : oracle := fun _ => ([0; 0; 200], [wit_c 1]).
(* witness B (budget 3): edges at x = 1, 2, 3, 4, ...: every solve() moves the mover up to the next edge and wraps it *)
Definition wit_orcB : oracle := fun i => ([0; 0; 200], [wit_c (Z.of_nat i + 2)]).

Definition teleport_violates (N : nat) (s : mstate) (orc : oracle) : Prop :=
  inv s /\ orc_ok (mt_iters maxSafeAlpha N s orc) 0 s orc /\
  mt_intr maxSafeAlpha N s orc = true /\ mt_iters maxSafeAlpha N s orc = N /\
  inv (snd (moveTo maxSafeAlpha N s orc)) /\
  exists c, In c (ms_cs (snd (moveTo_teleport maxSafeAlpha N s orc))) /\
            ~ holds (ms_nodes (snd (moveTo_teleport maxSafeAlpha N s orc))) c.

Lemma teleport_violates_dec N s orc c :
  invb s = true -> orc_okb (mt_iters maxSafeAlpha N s orc) 0 s orc = true ->
  mt_intr maxSafeAlpha N s orc = true -> Nat.eqb (mt_iters maxSafeAlpha N s orc) N = true ->
  invb (snd (moveTo maxSafeAlpha N s orc)) = true ->
  In c (ms_cs (snd (moveTo_teleport maxSafeAlpha N s orc))) ->
  holdsb (ms_nodes (snd (moveTo_teleport maxSafeAlpha N s orc))) c = false ->
  teleport_violates N s orc.
Proof.
  intros H1 H2 H3 H4 H5 H6 H7. unfold teleport_violates.
  split; [apply invb_ok; exact H1|]. split; [apply orc_okb_ok; exact H2|]. split; [exact H3|].
  split; [apply Nat.eqb_eq; exact H4|]. split; [apply invb_ok; exact H5|].
  exists c. split; [exact H6|]. intro Hh. apply holdsb_ok in Hh. rewrite Hh in H7. discriminate.
Qed.

Theorem moveTo_teleport_safe_refuted : exists N s orc, N = 100%nat /\ teleport_violates N s orc.
Proof.
  exists 100%nat, wit_s, wit_orcA. split; [reflexivity|].
  apply (teleport_violates_dec 100 wit_s wit_orcA (wit_c 1)); try (vm_compute; reflexivity).
  vm_compute. left. reflexivity.
Qed.
Theorem moveTo_teleport_safe_refuted_moving : exists N s orc, teleport_violates N s orc.
Proof.
  exists 3%nat, wit_s, wit_orcB.
  apply (teleport_violates_dec 3 wit_s wit_orcB (wit_c 4)); try (vm_compute; reflexivity).
  vm_compute. left. reflexivity.
Qed.

(* ------------------------------------------------------------------ non-vacuity *)
(* the hypotheses of moveTo_positions_are_last_safe_state are satisfiable with the budget exhausted (witness A: 100 iterations, still
   interrupted, the mover is returned at x = 1 and the pending constraint w <= 1 holds) ... *)
Example moveTo_exhausted_example :
  inv wit_s /\ orc_ok (mt_iters maxSafeAlpha 100 wit_s wit_orcA) 0 wit_s wit_orcA /\
  mt_iters maxSafeAlpha 100 wit_s wit_orcA = 100%nat /\ mt_intr maxSafeAlpha 100 wit_s wit_orcA = true /\
  Forall2 Qeq (fst (moveTo maxSafeAlpha 100 wit_s wit_orcA)) [0; 0; 1] /\
  Forall2 Qeq (fst (moveTo_teleport maxSafeAlpha 100 wit_s wit_orcA)) [0; 0; 200].
Proof.
  split; [apply invb_ok; vm_compute; reflexivity|]. split; [apply orc_okb_ok; vm_compute; reflexivity|].
  split; [vm_compute; reflexivity|]. split; [vm_compute; reflexivity|].
  split; vm_compute; repeat constructor.
Qed.
(* ... and with the loop ending inside the budget (edges at x = 1, 2 only; the mover is asked to x = 5/2: 3 iterations, the last one
   with alpha = 1; moveTo and the teleport variant return the same coordinates) *)
Definition wit_orcC : oracle := fun i => ([0; 0; 5 # 2], [wit_c (if Nat.leb i 0 then 2 else 100)]).
Example moveTo_converged_example :
  inv wit_s /\ orc_ok (mt_iters maxSafeAlpha 100 wit_s wit_orcC) 0 wit_s wit_orcC /\
  mt_iters maxSafeAlpha 100 wit_s wit_orcC = 3%nat /\ mt_intr maxSafeAlpha 100 wit_s wit_orcC = false /\
  Forall2 Qeq (fst (moveTo maxSafeAlpha 100 wit_s wit_orcC)) [0; 0; 5 # 2] /\
  Forall2 Qeq (fst (moveTo_teleport maxSafeAlpha 100 wit_s wit_orcC)) [0; 0; 5 # 2].
Proof.
  split; [apply invb_ok; vm_compute; reflexivity|]. split; [apply orc_okb_ok; vm_compute; reflexivity|].
  split; [vm_compute; reflexivity|]. split; [vm_compute; reflexivity|].
  split; vm_compute; repeat constructor.
Qed.
