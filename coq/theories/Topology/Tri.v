(* C13 - theorems about the GENERATED TriConstraint::slack / maxSafeAlpha (Gen/Tri.v, regenerated from
   /repo/cola/libtopology/topology_constraints.cpp by tools/cpp2v.py) and about the hand model of the min-alpha move
   of TopologyConstraints::solve() instantiated with them. *)
From Adapt Require Import Num.Qaux Topology.TriModel Topology.TriSpec Gen.Tri.
Local Open Scope Q_scope.

(* the constraint at the positions interpolated by alpha between initial and final *)
Definition at_alpha (t : tri) (a : Q) : tri :=
  mktri (tc_p t) (tc_g t) (tc_leftOf t)
        (tc_u1 t + a * (tc_u2 t - tc_u1 t)) (tc_u2 t)
        (tc_v1 t + a * (tc_v2 t - tc_v1 t)) (tc_v2 t)
        (tc_w1 t + a * (tc_w2 t - tc_w1 t)) (tc_w2 t).
Definition slack_at (t : tri) (a : Q) : Q := slackAtInitial (at_alpha t a).

(* what slack >= 0 means: w (shifted by g) is on its side of the point at parameter p of the segment u-v *)
Definition side_ok (t : tri) (ux vx wx : Q) : Prop :=
  if tc_leftOf t then wx <= ux + tc_p t * (vx - ux) + tc_g t else ux + tc_p t * (vx - ux) + tc_g t <= wx.
Theorem slack_meaning t ux vx wx : 0 <= slack t ux vx wx <-> side_ok t ux vx wx.
Proof. unfold slack, side_ok. destruct (tc_leftOf t); split; intro; lra. Qed.

Theorem slack_affine t a :
  slack_at t a == slackAtInitial t + a * (slackAtFinal t - slackAtInitial t).
Proof.
  unfold slack_at, slackAtInitial, slackAtFinal, slack, at_alpha. cbn [tc_p tc_g tc_leftOf tc_u1 tc_u2 tc_v1 tc_v2 tc_w1 tc_w2].
  destruct (tc_leftOf t); ring.
Qed.
Lemma slack_at_0 t : slack_at t 0 == slackAtInitial t.
Proof. rewrite slack_affine. ring. Qed.
Lemma slack_at_1 t : slack_at t 1 == slackAtFinal t.
Proof. rewrite slack_affine. ring. Qed.

(* numerator / denominator of maxSafeAlpha in terms of the two slacks, for both orientations *)
Definition msa_num (t : tri) : Q := tc_w1 t - tc_g t - tc_u1 t + tc_p t * (tc_u1 t - tc_v1 t).
Definition msa_den (t : tri) : Q :=
  tc_u2 t - tc_u1 t + tc_p t * (tc_u1 t - tc_u2 t + tc_v2 t - tc_v1 t) + tc_w1 t - tc_w2 t.
Lemma msa_num_den t :
  if tc_leftOf t
  then msa_num t == - slackAtInitial t /\ msa_den t == - (slackAtInitial t - slackAtFinal t)
  else msa_num t == slackAtInitial t /\ msa_den t == slackAtInitial t - slackAtFinal t.
Proof.
  unfold msa_num, msa_den, slackAtInitial, slackAtFinal, slack. destruct (tc_leftOf t); split; ring.
Qed.

Lemma maxSafeAlpha_unfold t :
  maxSafeAlpha t =
  if Qgeb (slackAtFinal t) 0 then 1
  else if Qeqb (msa_den t) 0 then 1
  else if Qltb (msa_num t / msa_den t) 0 then slackAtFinal t else msa_num t / msa_den t.
Proof.
  unfold maxSafeAlpha, msa_num, msa_den. cbv zeta.
  change (inject_Z 0) with 0. change (inject_Z 1) with 1.
  destruct (Qgeb (slackAtFinal t) 0); [reflexivity|].
  destruct (Qeqb _ 0); [reflexivity|].
  destruct (Qltb _ 0); reflexivity.
Qed.

(* the quotient, when the initial slack is >= 0 and the final one < 0 *)
Lemma msa_quot t :
  0 <= slackAtInitial t -> slackAtFinal t < 0 ->
  ~ msa_den t == 0 /\
  msa_num t / msa_den t == slackAtInitial t / (slackAtInitial t - slackAtFinal t) /\
  0 <= msa_num t / msa_den t < 1.
Proof.
  intros Hi Hf. pose proof (msa_num_den t) as H.
  set (si := slackAtInitial t) in *. set (sf := slackAtFinal t) in *.
  assert (Hd : 0 < si - sf) by lra.
  assert (Hq : msa_num t / msa_den t == si / (si - sf)).
  { destruct (tc_leftOf t); destruct H as [Hn Hdn]; rewrite Hn, Hdn; field; lra. }
  split; [destruct (tc_leftOf t); destruct H as [_ Hdn]; rewrite Hdn; lra|].
  split; [exact Hq|]. rewrite Hq.
  split.
  - apply Qle_shift_div_l; lra.
  - apply Qlt_shift_div_r; lra.
Qed.

(* the main step rule *)
Theorem msa_safe t :
  0 <= slackAtInitial t ->
  (forall a, 0 <= a -> a <= maxSafeAlpha t -> a <= 1 -> 0 <= slack_at t a) /\
  (slackAtFinal t < 0 -> 0 <= maxSafeAlpha t < 1 /\ slack_at t (maxSafeAlpha t) == 0).
Proof.
  intro Hi. rewrite maxSafeAlpha_unfold.
  destruct (Qgeb (slackAtFinal t) 0) eqn:Ef; qb2p.
  { split; [|intro; lra]. intros a Ha0 _ Ha1. rewrite slack_affine. nra. }
  destruct (msa_quot t Hi Ef) as (Hd & Hq & Hr0 & Hr1).
  destruct (Qeqb (msa_den t) 0) eqn:Ed; qb2p; [contradiction|].
  destruct (Qltb (msa_num t / msa_den t) 0) eqn:En; qb2p; [lra|].
  set (m := msa_num t / msa_den t) in *.
  assert (Hz : slackAtInitial t + m * (slackAtFinal t - slackAtInitial t) == 0).
  { rewrite Hq. field. lra. }
  split.
  - intros a Ha0 Ham _. rewrite slack_affine. nra.
  - intros _. split; [lra|]. rewrite slack_affine. exact Hz.
Qed.

(* the two special branches, explicitly *)
(* denominator == 0 (with fSlack < 0) returns 1, a FULL move: this happens only when initial and final slack are equal,
   i.e. the constraint is violated already at the initial positions - excluded by assertFeasible() *)
Theorem msa_den0_branch t :
  slackAtFinal t < 0 -> msa_den t == 0 ->
  maxSafeAlpha t = 1 /\ slackAtInitial t == slackAtFinal t /\ ~ 0 <= slackAtInitial t.
Proof.
  intros Hf Hd. rewrite maxSafeAlpha_unfold.
  destruct (Qgeb (slackAtFinal t) 0) eqn:Ef; qb2p; [lra|].
  destruct (Qeqb (msa_den t) 0) eqn:Ed; qb2p; [|contradiction].
  split; [reflexivity|].
  pose proof (msa_num_den t) as H. destruct (tc_leftOf t); destruct H as [_ H]; split; lra.
Qed.
(* "tiny negative msa rounded": returns fSlack < 0, a non-positive alpha: no move happens; and it arises only from a
   negative initial slack *)
Theorem msa_negative_branch t :
  slackAtFinal t < 0 -> ~ msa_den t == 0 -> msa_num t / msa_den t < 0 ->
  maxSafeAlpha t = slackAtFinal t /\ slackAtInitial t < 0.
Proof.
  intros Hf Hd Hn. rewrite maxSafeAlpha_unfold.
  destruct (Qgeb (slackAtFinal t) 0) eqn:Ef; qb2p; [lra|].
  destruct (Qeqb (msa_den t) 0) eqn:Ed; qb2p; [contradiction|].
  destruct (Qltb (msa_num t / msa_den t) 0) eqn:En; qb2p; [|lra].
  split; [reflexivity|].
  destruct (Qlt_le_dec (slackAtInitial t) 0) as [|Hi]; [assumption|exfalso].
  destruct (msa_quot t Hi Hf) as (_ & _ & H0 & _). lra.
Qed.
(* COLA_ASSERT(iSlack >= fSlack) inside that branch cannot fail (exact arithmetic) *)
Theorem msa_assert_unreachable t : maxSafeAlpha_asserts_ok t = true.
Proof.
  unfold maxSafeAlpha_asserts_ok. cbv zeta. change (inject_Z 0) with 0.
  destruct (Qgeb (slackAtFinal t) 0) eqn:Ef; [reflexivity|].
  fold (msa_num t). 
  match goal with |- context [Qeqb ?d 0] => change d with (msa_den t) end.
  destruct (Qeqb (msa_den t) 0) eqn:Ed; [reflexivity|].
  match goal with |- context [Qltb ?q 0] => change q with (msa_num t / msa_den t) end.
  destruct (Qltb (msa_num t / msa_den t) 0) eqn:En; [|reflexivity].
  destruct (Qgeb (slackAtInitial t) (slackAtFinal t)) eqn:Ea; [reflexivity|exfalso].
  qb2p.
  pose proof (msa_num_den t) as H.
  set (si := slackAtInitial t) in *. set (sf := slackAtFinal t) in *.
  assert (Hq : msa_num t / msa_den t == si / (si - sf)).
  { destruct (tc_leftOf t); destruct H as [Hn Hdn]; rewrite Hn, Hdn; field; lra. }
  rewrite Hq in En.
  assert (0 < si / (si - sf)).
  { assert (E : si / (si - sf) == (- si) / (sf - si)) by (field; lra). rewrite E.
    apply Qlt_shift_div_l; lra. }
  lra.
Qed.

(* the generated functions equal the hand-written specification *)
Theorem slack_eq_spec t ux vx wx : slack t ux vx wx = spec_slack t ux vx wx.
Proof. reflexivity. Qed.
Theorem maxSafeAlpha_eq_spec t : maxSafeAlpha t == spec_msa t.
Proof.
  rewrite maxSafeAlpha_unfold. unfold spec_msa.
  change (spec_sf t) with (slackAtFinal t). change (spec_si t) with (slackAtInitial t).
  destruct (Qgeb (slackAtFinal t) 0) eqn:Ef; [reflexivity|].
  pose proof (msa_num_den t) as H.
  assert (Hd : msa_den t == 0 <-> slackAtInitial t - slackAtFinal t == 0).
  { destruct (tc_leftOf t); destruct H as [_ H]; rewrite H; split; intro; lra. }
  destruct (Qeqb (msa_den t) 0) eqn:Ed; destruct (Qeqb (slackAtInitial t - slackAtFinal t) 0) eqn:Es; qb2p;
    try reflexivity; try (exfalso; tauto).
  assert (Hq : msa_num t / msa_den t == slackAtInitial t / (slackAtInitial t - slackAtFinal t)).
  { destruct (tc_leftOf t); destruct H as [Hn Hdn]; rewrite Hn, Hdn; field; lra. }
  cbv zeta. rewrite (Qltb_proper _ _ Hq 0 0 (Qeq_refl 0)). destruct (Qltb _ 0); [reflexivity|exact Hq].
Qed.

(* ------------------------------------------------------------------ the move of solve() *)
Definition alpha_star := min_alpha maxSafeAlpha.
Definition step := solve_move maxSafeAlpha.
Definition holds (nodes : list npos) (c : tcon) : Prop := 0 <= slackAtInitial (tri_of nodes c).

Lemma min_alpha_le_aux nodes : forall cs a0,
  fold_left (min_step maxSafeAlpha nodes) cs a0 <= a0 /\
  forall c, In c cs ->
  fold_left (min_step maxSafeAlpha nodes) cs a0 <= maxSafeAlpha (tri_of nodes c).
Proof.
  induction cs as [|c0 cs IH]; intro a0; cbn [fold_left].
  - split; [lra|intros c []].
  - unfold min_step at 2 4. cbv zeta. destruct (Qltb (maxSafeAlpha (tri_of nodes c0)) a0) eqn:E; qb2p.
    + destruct (IH (maxSafeAlpha (tri_of nodes c0))) as [H1 H2]. split; [lra|].
      intros c [<-|Hc]; [exact H1|apply H2; exact Hc].
    + destruct (IH a0) as [H1 H2]. split; [exact H1|].
      intros c [<-|Hc]; [lra|apply H2; exact Hc].
Qed.
Lemma alpha_star_le_1 nodes cs : alpha_star nodes cs <= 1.
Proof. apply (min_alpha_le_aux nodes cs 1). Qed.
Lemma alpha_star_le_msa nodes cs c : In c cs -> alpha_star nodes cs <= maxSafeAlpha (tri_of nodes c).
Proof. apply (min_alpha_le_aux nodes cs 1). Qed.

Lemma getn_move nodes a i :
  n_init (getn (map (fun n => mknpos (pos_on_line n a) (n_final n)) nodes) i) == pos_on_line (getn nodes i) a /\
  n_final (getn (map (fun n => mknpos (pos_on_line n a) (n_final n)) nodes) i) = n_final (getn nodes i).
Proof.
  unfold getn. revert i. induction nodes as [|n ns IH]; intros [|i]; cbn [map nth n_init n_final].
  - unfold pos_on_line. cbn. split; [ring|reflexivity].
  - unfold pos_on_line. cbn. split; [ring|reflexivity].
  - split; reflexivity.
  - apply IH.
Qed.

Lemma slack_after_move nodes a c :
  slackAtInitial (tri_of (map (fun n => mknpos (pos_on_line n a) (n_final n)) nodes) c)
  == slack_at (tri_of nodes c) a.
Proof.
  unfold slack_at, slackAtInitial, slack, tri_of, at_alpha.
  cbn [tc_p tc_g tc_leftOf tc_u1 tc_u2 tc_v1 tc_v2 tc_w1 tc_w2].
  destruct (getn_move nodes a (c_u c)) as [Hu _].
  destruct (getn_move nodes a (c_v c)) as [Hv _].
  destruct (getn_move nodes a (c_w c)) as [Hw _].
  destruct (c_left c); rewrite Hu, Hv, Hw; unfold pos_on_line; ring.
Qed.

(* after the move every triangle constraint that held before still holds *)
Theorem C13_step nodes cs :
  (forall c, In c cs -> holds nodes c) ->
  forall c, In c cs -> holds (step nodes cs) c.
Proof.
  intros H c Hc. unfold step, solve_move, move_nodes. fold (alpha_star nodes cs).
  destruct (Qgtb (alpha_star nodes cs) 0) eqn:E; qb2p; [|apply H; exact Hc].
  unfold holds. rewrite slack_after_move.
  apply (msa_safe (tri_of nodes c) (H c Hc)).
  - lra.
  - apply alpha_star_le_msa. exact Hc.
  - apply alpha_star_le_1.
Qed.

(* when some constraint would be violated at the final positions, the step stops exactly on the first one: the move
   is maximal (alpha* is attained by a constraint that becomes tight) *)
Theorem C13_step_tight nodes cs c :
  (forall c, In c cs -> holds nodes c) ->
  In c cs -> slackAtFinal (tri_of nodes c) < 0 ->
  0 <= alpha_star nodes cs < 1.
Proof.
  intros H Hc Hf. split.
  - (* every msa is >= 0 under the hypotheses, and the start value is 1 *)
    unfold alpha_star, min_alpha.
    assert (G : forall cs' a0, 0 <= a0 -> (forall c, In c cs' -> holds nodes c) ->
      0 <= fold_left (min_step maxSafeAlpha nodes) cs' a0).
    { induction cs' as [|c0 cs' IH]; intros a0 Ha Hh; cbn [fold_left]; [exact Ha|].
      unfold min_step at 2. cbv zeta. destruct (Qltb (maxSafeAlpha (tri_of nodes c0)) a0) eqn:E.
      - apply IH; [|intros; apply Hh; right; assumption].
        destruct (msa_safe (tri_of nodes c0) (Hh c0 (or_introl eq_refl))) as [_ S].
        destruct (Qlt_le_dec (slackAtFinal (tri_of nodes c0)) 0) as [L|L]; [apply S in L; lra|].
        rewrite maxSafeAlpha_unfold. destruct (Qgeb (slackAtFinal (tri_of nodes c0)) 0) eqn:E2; qb2p; lra.
      - apply IH; [exact Ha|intros; apply Hh; right; assumption]. }
    apply G; [lra|exact H].
  - pose proof (alpha_star_le_msa nodes cs c Hc).
    destruct (msa_safe (tri_of nodes c) (H c Hc)) as [_ S]. apply S in Hf. lra.
Qed.

(* any number of steps, with arbitrary new final positions before each step (the constraint set is kept fixed: the
   bend split/merge surgery of satisfy() and the re-generation of constraints are NOT modelled) *)
Lemma holds_set_finals nodes fs c :
  length fs = length nodes -> holds nodes c -> holds (set_finals nodes fs) c.
Proof.
  intros Hl. unfold holds, slackAtInitial, slack, tri_of.
  cbn [tc_p tc_g tc_leftOf tc_u1 tc_v1 tc_w1].
  assert (G : forall i, n_init (getn (set_finals nodes fs) i) = n_init (getn nodes i)).
  { unfold getn, set_finals. revert fs Hl. induction nodes as [|n ns IH]; intros [|f fs] Hl i; try discriminate.
    - destruct i; reflexivity.
    - destruct i; cbn; [reflexivity|]. apply IH. cbn in Hl. congruence. }
  rewrite !G. tauto.
Qed.
Lemma length_step nodes cs : length (step nodes cs) = length nodes.
Proof. unfold step, solve_move, move_nodes. destruct (Qgtb _ 0); [apply map_length|reflexivity]. Qed.
Lemma length_set_finals nodes fs : length fs = length nodes -> length (set_finals nodes fs) = length nodes.
Proof. intro H. unfold set_finals. rewrite map_length, combine_length, H. apply Nat.min_id. Qed.

Theorem C13_steps cs : forall finals nodes,
  (forall fs, In fs finals -> length fs = length nodes) ->
  (forall c, In c cs -> holds nodes c) ->
  forall c, In c cs -> holds (run_steps maxSafeAlpha nodes cs finals) c.
Proof.
  induction finals as [|fs rest IH]; intros nodes Hl H c Hc; cbn [run_steps]; [apply H; exact Hc|].
  apply IH; [| |exact Hc].
  - intros fs' Hf. fold (step (set_finals nodes fs) cs). rewrite length_step, length_set_finals.
    + apply Hl. right. exact Hf.
    + apply Hl. left. reflexivity.
  - fold (step (set_finals nodes fs) cs). apply C13_step.
    intros c' Hc'. apply holds_set_finals; [apply Hl; left; reflexivity|apply H; exact Hc'].
Qed.

(* ------------------------------------------------------------------ non-vacuity *)
(* a node corner w = 0 right of the segment point (u,v at parameter 1/2); u,v want to move right by 4, w stays:
   alpha* = 1/2 and the constraint becomes tight *)
Example step_example :
  let nodes := [mknpos (-2) 2; mknpos (-2) 2; mknpos 0 0] in
  let c := mktcon 0 1 2 (1#2) 0 false in
  holds nodes c /\ slackAtFinal (tri_of nodes c) < 0 /\ alpha_star nodes [c] == 1#2 /\
  slackAtInitial (tri_of (step nodes [c]) c) == 0.
Proof. vm_compute. repeat split; intro; discriminate. Qed.
