(* C13 - hand model of the solve loop of ColaTopologyAddon::moveTo (cola/libtopology/cola_topology_addon.cpp):

       topology::TopologyConstraints t(dim, topologyNodes, topologyRoutes, clusterHierarchy, vs, cs);
       bool interrupted;  int loopBreaker=100;
       do { interrupted=t.solve(); loopBreaker--; } while(interrupted&&loopBreaker>0);
       for every topology node v:  coords[v->id]=v->rect->getCentreD(dim);

   One TopologyConstraints::solve() (topology_constraints.cpp:330-384) = VPSC solve (new final positions), alpha_star = min(1, min_t
   maxSafeAlpha t), every rectangle to posOnLine(alpha_star) when alpha_star > 0, and - when some maxSafeAlpha is < 1 - ONE topology event
   (minT->satisfy(): a segment is split round a corner or a straightened bend is removed) that changes the constraint set; it returns
   minT != nullptr, i.e. "some maxSafeAlpha < 1".
   What the model does not compute is supplied per iteration by an oracle: the VPSC result (arbitrary final positions) and the constraint
   set after the event (arbitrary; the theorems assume about it exactly what assertFeasible() at the end of solve() checks: every
   constraint of the new set holds at the moved positions).
   No proofs here (model file). *)
From Adapt Require Import Num.Qaux Topology.TriModel.
Local Open Scope Q_scope.

(* state of the loop: node positions (n_init = rectangle centre in the scan dimension, n_final = var->finalPosition of the last VPSC
   solve) and the current set of triangle constraints *)
Record mstate := mkms { ms_nodes : list npos; ms_cs : list tcon }.
(* iteration number -> (final positions found by the VPSC solve of that iteration, constraint set after that iteration's event) *)
Definition oracle := nat -> (list Q * list tcon).

Section MoveTo.
  Variable msa : tri -> Q.          (* TriConstraint::maxSafeAlpha *)

  (* one call of TopologyConstraints::solve(): the new state and the return value `interrupted` *)
  Definition solve1 (s : mstate) (o : list Q * list tcon) : mstate * bool :=
    let nodes0 := set_finals (ms_nodes s) (fst o) in
    let a := min_alpha msa nodes0 (ms_cs s) in
    let intr := Qltb a 1 in
    (mkms (move_nodes nodes0 a) (if intr then snd o else ms_cs s), intr).

  (* the state after k calls of solve(), the first of them being iteration number i *)
  Fixpoint mt_iter (k i : nat) (s : mstate) (orc : oracle) : mstate :=
    match k with
    | O => s
    | S k' => mt_iter k' (S i) (fst (solve1 s (orc i))) orc
    end.

  (* do { interrupted = solve(); loopBreaker--; } while (interrupted && loopBreaker > 0)   with loopBreaker = budget on entry.
     Returns (state, number of solve() calls made, value of `interrupted` on exit).  The budget is the library's own counter, not proof
     fuel: `interrupted = true` on exit means the budget ran out while topology events were still pending. *)
  Fixpoint mt_loop (budget i : nat) (s : mstate) (orc : oracle) : mstate * nat * bool :=
    let r := solve1 s (orc i) in
    match budget with
    | O => (fst r, 1%nat, snd r)
    | S b =>
        if snd r && negb (Nat.eqb b 0)
        then let '(s', k, f) := mt_loop b (S i) (fst r) orc in (s', S k, f)
        else (fst r, 1%nat, snd r)
    end.
  Definition mt_state (N : nat) (s : mstate) (orc : oracle) : mstate := fst (fst (mt_loop N 0 s orc)).
  Definition mt_iters (N : nat) (s : mstate) (orc : oracle) : nat := snd (fst (mt_loop N 0 s orc)).
  Definition mt_intr (N : nat) (s : mstate) (orc : oracle) : bool := snd (mt_loop N 0 s orc).

  (* the read-back: coords[id] = rectangle centre; the rectangles are not touched *)
  Definition centres (s : mstate) : list Q := map n_init (ms_nodes s).
  Definition moveTo (N : nat) (s : mstate) (orc : oracle) : list Q * mstate :=
    (centres (mt_state N s orc), mt_state N s orc).

  (* the variant "d = var->finalPosition; coords[id] = d; rect->moveCentreD(dim, d)" (seeded change C13-6): the rectangles are moved the
     rest of the way to the VPSC target after the loop *)
  Definition teleport (s : mstate) : mstate :=
    mkms (map (fun n => mknpos (n_final n) (n_final n)) (ms_nodes s)) (ms_cs s).
  Definition moveTo_teleport (N : nat) (s : mstate) (orc : oracle) : list Q * mstate :=
    (map n_final (ms_nodes (mt_state N s orc)), teleport (mt_state N s orc)).
End MoveTo.
