// C03 / C04 / C06 harness: drives Avoid::Router from a scene/history script on stdin and prints, after every
// processTransaction(), the router's shape list, every connector's displayRoute() and route(), and whether the
// action list is empty.  Numbers are printed with "%.17g" (round-trip exact for binary64).
//
// Script (whitespace separated):
//   R mode pen buf nudge trans   new router: mode 0 polyline / 1 orthogonal / 2 PolyLineRouting|OrthogonalRouting (new connectors are
//                                poly-line there, Router::validConnType); segmentPenalty pen (all other penalties 0);
//                                shapeBufferDistance buf; idealNudgingDistance nudge; trans 1 = setTransactionUse(true)
//   A id k x1 y1 .. xk yk        new ShapeRef(router, poly, id)
//   M id dx dy                   router->moveShape(shape, dx, dy)
//   T id k x1 y1 .. xk yk        router->moveShape(shape, poly)
//   D id                         router->deleteShape(shape)
//   C id sx sy dx dy             new ConnRef(router, ConnEnd(s), ConnEnd(d), id)
//   E id which x y               which 0: setSourceEndpoint, 1: setDestEndpoint
//   N shape cls xoff yoff inside dirs excl   new ShapeConnectionPin(shape, cls, xoff, yoff, proportional = true, inside, dirs); excl 0/1: setExclusive, -1: default
//   Q id sx sy shape cls         new ConnRef(router, ConnEnd(Point(sx,sy)), ConnEnd(shape, cls), id)     (shared-pin scenes, C03, DESIGN 9.20)
//   Y id type                    ConnRef::setRoutingType: type 1 ConnType_PolyLine, 2 ConnType_Orthogonal (dual-mode routers; DESIGN 9.20)
//   O name v                     setRoutingOption: name in nudgeConnected | improveMoving | improveAddDel | unifying | touchingColinear
//   F name v                     public Router member flag (router.h:411-424): name in InvisibilityGrph | UseLeesAlgorithm | RubberBandRouting |
//                                IgnoreRegions | SelectiveReroute, v 0/1; given right after R, before any shape or connector exists
//   J id x y fixed               new JunctionRef(router, Point(x,y), id); setPositionFixed(fixed)      (hyperedge scenes, C03)
//   H id <end> <end>             new ConnRef between two ends, each "J jid" (ConnEnd(junction)) or "P x y" (ConnEnd(Point))
//   P                            processTransaction(), then dump state
//   X                            delete router, end of this run ("X" is echoed)
// Output per P:
//   P <ret> <actionListEmpty>
//   S id k x y ..                ShapeRef::polygon() of every shape in Router::m_obstacles
//   B id k x y ..                its routingPolygon() (with the buffer distance)
//   K cid sx sy dx dy            connector attachment points (src()->point, dst()->point)
//   D cid n x y ..               displayRoute()
//   O cid n x y ..               route()
//   Y cid type                   routingType() of every connector (mode 2 runs only)
//   .
// A run that created a junction dumps every connector of Router::connRefs (hyperedge improvement may add / delete
// connectors and junctions) and adds
//   N jid live px py rx ry       JunctionRef position() and recommendedPosition(); live 0 = queued for removal
//   G cid <end> <end>            ConnRef::endpointConnEnds(): "J jid" | "P x y"
// An assertion failure (USE_ASSERT_EXCEPTIONS build) or any exception prints "EXC <what>" and skips to the next R.
#include <cstdio>
#include <cstdlib>
#include <cstring>
#include <map>
#include <list>
#include <vector>
#include <set>
#include <string>
#include <iostream>
#include <sstream>
#include <stdexcept>
#define private public
#define protected public
#include "libavoid/libavoid.h"
#include "libvpsc/assertions.h"
#undef private
#undef protected

using namespace Avoid;

static void printPoly(const char *tag, unsigned id, const Polygon& p)
{
    printf("%s %u %zu", tag, id, p.size());
    for (size_t j = 0; j < p.size(); ++j) printf(" %.17g %.17g", p.ps[j].x, p.ps[j].y);
    printf("\n");
}

static Polygon readPoly(std::istream& in)
{
    int k; in >> k;
    Polygon p(k);
    for (int j = 0; j < k; ++j) { double x, y; in >> x >> y; p.ps[j] = Point(x, y); }
    return p;
}

static bool dualMode = false;

static void dump(Router *router, std::map<int, ConnRef *>& cn, bool ret)
{
    printf("P %d %d\n", ret ? 1 : 0, router->actionList.empty() ? 1 : 0);
    for (ObstacleList::const_iterator it = router->m_obstacles.begin(); it != router->m_obstacles.end(); ++it)
    {
        ShapeRef *s = dynamic_cast<ShapeRef *>(*it);
        if (!s) continue;
        printPoly("S", s->id(), s->polygon());
        printPoly("B", s->id(), s->routingPolygon());
    }
    for (std::map<int, ConnRef *>::iterator kv = cn.begin(); kv != cn.end(); ++kv)
    {
        ConnRef *c = kv->second;
        if (c->src() && c->dst())
            printf("K %d %.17g %.17g %.17g %.17g\n", kv->first, c->src()->point.x, c->src()->point.y,
                   c->dst()->point.x, c->dst()->point.y);
        printPoly("D", kv->first, c->displayRoute());
        printPoly("O", kv->first, c->route());
        if (dualMode) printf("Y %d %d\n", kv->first, (int) c->routingType());
    }
    printf(".\n");
}

static void dumpHyper(Router *router, bool ret)
{
    printf("P %d %d\n", ret ? 1 : 0, router->actionList.empty() ? 1 : 0);
    for (ObstacleList::const_iterator it = router->m_obstacles.begin(); it != router->m_obstacles.end(); ++it)
    {
        ShapeRef *s = dynamic_cast<ShapeRef *>(*it);
        if (s)
        {
            printPoly("S", s->id(), s->polygon());
            printPoly("B", s->id(), s->routingPolygon());
            continue;
        }
        JunctionRef *j = dynamic_cast<JunctionRef *>(*it);
        if (!j) continue;
        bool queued = false;
        for (ActionInfoList::iterator a = router->actionList.begin(); a != router->actionList.end(); ++a)
            if (a->type == JunctionRemove && a->objPtr == j) queued = true;
        Point p = j->position(), rp = j->recommendedPosition();
        printf("N %u %d %.17g %.17g %.17g %.17g\n", j->id(), queued ? 0 : 1, p.x, p.y, rp.x, rp.y);
    }
    for (ConnRefList::const_iterator i = router->connRefs.begin(); i != router->connRefs.end(); ++i)
    {
        ConnRef *c = *i;
        std::pair<ConnEnd, ConnEnd> e = c->endpointConnEnds();
        ConnEnd *ce[2] = { &e.first, &e.second };
        printf("G %u", c->id());
        for (int s = 0; s < 2; ++s)
        {
            if (ce[s]->junction()) printf(" J %u", ce[s]->junction()->id());
            else { Point p = ce[s]->position(); printf(" P %.17g %.17g", p.x, p.y); }
        }
        printf("\n");
        printPoly("D", c->id(), c->displayRoute());
        printPoly("O", c->id(), c->route());
    }
    printf(".\n");
}

static ConnEnd readEnd(std::istream& in, std::map<int, JunctionRef *>& jn)
{
    std::string k; in >> k;
    if (k == "J") { int j; in >> j; return ConnEnd(jn.at(j)); }
    double x, y; in >> x >> y; return ConnEnd(Point(x, y));
}

int main()
{
    std::string tag;
    while (std::cin >> tag)
    {
        if (tag != "R") continue;
        int mode, trans; double pen, buf, nudge;
        std::cin >> mode >> pen >> buf >> nudge >> trans;
        dualMode = (mode == 2);
        Router *router = new Router(mode == 0 ? PolyLineRouting : mode == 1 ? OrthogonalRouting : (PolyLineRouting | OrthogonalRouting));
        for (int p = 0; p < (int) lastRoutingParameterMarker; ++p)
            router->setRoutingParameter((RoutingParameter) p, 0);
        router->setRoutingParameter(segmentPenalty, pen);
        router->setRoutingParameter(shapeBufferDistance, buf);
        router->setRoutingParameter(idealNudgingDistance, nudge);
        router->setTransactionUse(trans != 0);
        std::map<int, ShapeRef *> sh;
        std::map<int, ConnRef *> cn;
        std::map<int, JunctionRef *> jn;
        bool failed = false;
        printf("R\n");
        while (std::cin >> tag && tag != "X")
        {
            if (failed)
            {
                // swallow the rest of this run's script
                std::string rest; std::getline(std::cin, rest);
                continue;
            }
            try
            {
                if (tag == "A") { int id; std::cin >> id; Polygon p = readPoly(std::cin); sh[id] = new ShapeRef(router, p, id); }
                else if (tag == "M") { int id; double dx, dy; std::cin >> id >> dx >> dy; router->moveShape(sh.at(id), dx, dy); }
                else if (tag == "T") { int id; std::cin >> id; Polygon p = readPoly(std::cin); router->moveShape(sh.at(id), p); }
                else if (tag == "D") { int id; std::cin >> id; router->deleteShape(sh.at(id)); sh.erase(id); }
                else if (tag == "C") { int id; double a, b, c, d; std::cin >> id >> a >> b >> c >> d;
                    cn[id] = new ConnRef(router, ConnEnd(Point(a, b)), ConnEnd(Point(c, d)), id); }
                else if (tag == "E") { int id, which; double x, y; std::cin >> id >> which >> x >> y;
                    if (which == 0) cn.at(id)->setSourceEndpoint(ConnEnd(Point(x, y)));
                    else cn.at(id)->setDestEndpoint(ConnEnd(Point(x, y))); }
                else if (tag == "N") { int sid, excl; unsigned cls, dirs; double xo, yo, ins; std::cin >> sid >> cls >> xo >> yo >> ins >> dirs >> excl;
                    ShapeConnectionPin *pin = new ShapeConnectionPin(sh.at(sid), cls, xo, yo, true, ins, (ConnDirFlags) dirs);
                    if (excl >= 0) pin->setExclusive(excl != 0); }
                else if (tag == "Q") { int id, sid; unsigned cls; double a, b; std::cin >> id >> a >> b >> sid >> cls;
                    cn[id] = new ConnRef(router, ConnEnd(Point(a, b)), ConnEnd(sh.at(sid), cls), id); }
                else if (tag == "Y") { int id, ty; std::cin >> id >> ty;
                    cn.at(id)->setRoutingType(ty == 2 ? ConnType_Orthogonal : ConnType_PolyLine); }
                else if (tag == "O") { std::string name; int v; std::cin >> name >> v;
                    RoutingOption o = name == "nudgeConnected" ? nudgeOrthogonalSegmentsConnectedToShapes :
                        name == "improveMoving" ? improveHyperedgeRoutesMovingJunctions :
                        name == "improveAddDel" ? improveHyperedgeRoutesMovingAddingAndDeletingJunctions :
                        name == "unifying" ? performUnifyingNudgingPreprocessingStep : nudgeOrthogonalTouchingColinearSegments;
                    router->setRoutingOption(o, v != 0); }
                else if (tag == "F") { std::string name; int v; std::cin >> name >> v;
                    if (name == "InvisibilityGrph") router->InvisibilityGrph = (v != 0);
                    else if (name == "UseLeesAlgorithm") router->UseLeesAlgorithm = (v != 0);
                    else if (name == "RubberBandRouting") router->RubberBandRouting = (v != 0);
                    else if (name == "IgnoreRegions") router->IgnoreRegions = (v != 0);
                    else if (name == "SelectiveReroute") router->SelectiveReroute = (v != 0);
                    else throw std::runtime_error("unknown router flag " + name); }
                else if (tag == "J") { int id, fixed; double x, y; std::cin >> id >> x >> y >> fixed;
                    jn[id] = new JunctionRef(router, Point(x, y), id); jn[id]->setPositionFixed(fixed != 0); }
                else if (tag == "H") { int id; std::cin >> id; ConnEnd a = readEnd(std::cin, jn); ConnEnd b = readEnd(std::cin, jn);
                    new ConnRef(router, a, b, id); }
                else if (tag == "P") { bool ret = router->processTransaction();
                    if (jn.empty()) dump(router, cn, ret); else dumpHyper(router, ret); }
            }
            catch (vpsc::CriticalFailure& f) {
                std::string w = f.what(); for (size_t i = 0; i < w.size(); ++i) if (w[i] == '\n') w[i] = ' ';
                printf("EXC %s\n", w.c_str()); failed = true; }
            catch (std::exception& e) { printf("EXC %s\n", e.what()); failed = true; }
            catch (...) { printf("EXC unknown (assertion)\n"); failed = true; }
            fflush(stdout);
        }
        printf("X\n");
        fflush(stdout);
        // The router is deliberately leaked: ~Router() can fail an assertion after some lifecycles (C15's
        // business, DESIGN 6 F-l) and a throwing destructor would terminate the whole batch.
    }
    return 0;
}
