// C19 harness (V part): Tree::symmetricLayout on rooted trees with given node dimensions.
// Input:  "T <n> <dir 0=EAST 1=SOUTH 2=WEST 3=NORTH> <nodeSep> <rankSep> <convex 0|1>" starts a tree with nodes 0..n-1
//         (node 0 is the root), "n <i> <w> <h>" sets the dimensions of node i, "e <parent> <child>" adds an edge.
// Output per tree:
//   ## <k>
//   N <i> <cx> <cy> <w> <h>       centre and dimensions of every node after symmetricLayout (%.17g)
//   EXC <what>                    a COLA_ASSERT (built with USE_ASSERT_EXCEPTIONS) or other exception fired
// The verdict is given by the extracted verified checker tree_layout_ok (extract/c19_driver.ml, mode "tree").
#include <cstddef>
#include <cfloat>
#include <cmath>
#include <cstdio>
#include <cstdlib>
#include <string>
#include <vector>
#include <sstream>
#include <fstream>
#include <iostream>
#include <memory>
#include "libvpsc/assertions.h"
#include "libdialect/libdialect.h"
#include "libdialect/trees.h"

using namespace dialect;
typedef std::pair<int, int> E;
struct Dim { double w, h; };

static void runTree(int k, int n, int dir, double nodeSep, double rankSep, bool convex,
                    const std::vector<Dim> &dims, const std::vector<E> &edges)
{
    printf("## %d\n", k);
    fflush(stdout);
    static const CardinalDir dirs[4] = {CardinalDir::EAST, CardinalDir::SOUTH, CardinalDir::WEST, CardinalDir::NORTH};
    try {
        Graph_SP G = std::make_shared<Graph>();
        std::vector<Node_SP> nodes;
        for (int i = 0; i < n; i++) nodes.push_back(G->addNode(dims[i].w, dims[i].h));
        for (auto e : edges) G->addEdge(nodes[e.first], nodes[e.second]);   // directed parent -> child
        Tree tree(G, nodes[0]);
        tree.symmetricLayout(dirs[dir & 3], nodeSep, rankSep, convex);
        for (int i = 0; i < n; i++) {
            Avoid::Point c = nodes[i]->getCentre();
            dimensions d = nodes[i]->getDimensions();
            printf("N %d %.17g %.17g %.17g %.17g\n", i, c.x, c.y, d.first, d.second);
        }
    } catch (std::exception &e) {
        std::string w = e.what();
        for (auto &c : w) if (c == '\n') c = ' ';
        printf("EXC %s\n", w.c_str());
    } catch (vpsc::CriticalFailure &e) {
        std::string w = e.what();
        for (auto &c : w) if (c == '\n') c = ' ';
        printf("EXC %s\n", w.c_str());
    } catch (...) {
        puts("EXC unknown");
    }
}

int main(int argc, char **argv)
{
    if (argc < 2) return 2;
    std::ifstream in(argv[1]);
    std::string line;
    int k = 0, n = -1, dir = 0, convex = 1; double nodeSep = 10, rankSep = 100;
    std::vector<Dim> dims; std::vector<E> edges;
    while (std::getline(in, line)) {
        std::istringstream is(line);
        std::string op; is >> op;
        if (op == "T") {
            if (n >= 0) runTree(k++, n, dir, nodeSep, rankSep, convex != 0, dims, edges);
            is >> n >> dir >> nodeSep >> rankSep >> convex;
            dims.assign(n, Dim{30, 30}); edges.clear();
        } else if (op == "n") { int i; double w, h; is >> i >> w >> h; if (i >= 0 && i < n) dims[i] = Dim{w, h}; }
        else if (op == "e") { int a, b; is >> a >> b; edges.push_back(E(a, b)); }
    }
    if (n >= 0) runTree(k++, n, dir, nodeSep, rankSep, convex != 0, dims, edges);
    return 0;
}
