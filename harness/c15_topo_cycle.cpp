// C15 harness: life cycle of CYCLIC topology edges (cluster boundaries: the last EdgePoint of the edge is its first one again,
// libtopology/topology_graph.h ForEach / Edge::cycle()).  One scenario per process, built with ASan+UBSan(+LSan); everything the
// harness allocates is freed again, so any leak / double free / use after free reported belongs to the libraries.
// stdin:  mode <A|B|C|D> [iterations]
//         r <xmin> <xmax> <ymin> <ymax>          one node rectangle per line (id = order)
//         e <i> <j>                              layout edge (modes B, C)
//         c <i> <j> ...                          members of a convex cluster (one line per cluster; modes A, B, C)
//  A  build topology nodes and, per cluster, the cyclic boundary edge over the corners of the members' convex hull (the hull comes
//     from cola::ConvexCluster::computeBoundary, the EdgePoint construction is the one of ColaTopologyAddon::makeFeasible); delete all
//  B  the same objects handed to a cola::ConstrainedFDLayout through topology::ColaTopologyAddon(nodes, edges); run(); delete all
//  C  the library route: RootCluster + ConvexClusters, ColaTopologyAddon with empty node / edge lists, setClusterHierarchy,
//     setAvoidNodeOverlaps(true), makeFeasible() (the library builds the cyclic edges), run(), freeAssociatedObjects()
//  D  control: per cluster line an OPEN edge CENTRE(first) - corner points of the middle members - CENTRE(last); build, delete
// prints "cycle <0|1>" per edge built by the harness, "EXC <what>" when a library assertion surfaced as an exception, "done".
#include <cstddef>
#include <cfloat>
#include <cstdio>
#include <cstdlib>
#include <cmath>
#include <vector>
#include <string>
#include <sstream>
#include <iostream>
#include <valarray>
#include <utility>
#include <algorithm>
#include "libvpsc/rectangle.h"
#include "libvpsc/assertions.h"
#include "libcola/cola.h"
#include "libcola/cluster.h"
#include "libtopology/topology_graph.h"
#include "libtopology/cola_topology_addon.h"

struct Del { template <typename T> void operator()(T *p) { delete p; } };

static std::vector<vpsc::Rectangle *> rs;
static std::vector<cola::Edge> es;
static std::vector<std::vector<unsigned> > clusters;

static topology::EdgePoint::RectIntersect cornerOf(unsigned char c)
{
    switch (c) {
        case 0: return topology::EdgePoint::BR;
        case 1: return topology::EdgePoint::TR;
        case 2: return topology::EdgePoint::TL;
        default: return topology::EdgePoint::BL;
    }
}

// the boundary of cluster k as ColaTopologyAddon::makeFeasible builds it
static topology::Edge *boundary(unsigned k, topology::Nodes &vs)
{
    cola::ConvexCluster c;
    for (unsigned id : clusters[k]) c.addChildNode(id);
    c.computeBoundary(rs);
    topology::EdgePoints ps;
    for (unsigned j = 0; j < c.hullRIDs.size(); ++j)
        ps.push_back(new topology::EdgePoint(vs[c.hullRIDs[j]], cornerOf(c.hullCorners[j])));
    ps.push_back(ps[0]);
    double ideal = 2.0 * sqrt(M_PI * c.area(rs));
    return new topology::Edge(k, ideal, ps);
}

static topology::Edge *openEdge(unsigned k, topology::Nodes &vs)
{
    const std::vector<unsigned> &m = clusters[k];
    topology::EdgePoints ps;
    ps.push_back(new topology::EdgePoint(vs[m.front()], topology::EdgePoint::CENTRE));
    for (size_t i = 1; i + 1 < m.size(); ++i) {
        ps.push_back(new topology::EdgePoint(vs[m[i]], topology::EdgePoint::TL));
        ps.push_back(new topology::EdgePoint(vs[m[i]], topology::EdgePoint::TR));
    }
    ps.push_back(new topology::EdgePoint(vs[m.back()], topology::EdgePoint::CENTRE));
    return new topology::Edge(k, 100, ps);
}

int main()
{
    std::string line, mode = "A";
    int iters = 20;
    while (std::getline(std::cin, line)) {
        std::istringstream in(line);
        std::string k;
        in >> k;
        if (k == "mode") { in >> mode; if (!(in >> iters)) iters = 20; }
        else if (k == "r") { double a, b, c, d; in >> a >> b >> c >> d; rs.push_back(new vpsc::Rectangle(a, b, c, d)); }
        else if (k == "e") { unsigned i, j; in >> i >> j; es.push_back(std::make_pair(i, j)); }
        else if (k == "c") { std::vector<unsigned> m; unsigned i; while (in >> i) m.push_back(i); clusters.push_back(m); }
    }
    bool libraryOwnsAll = false;
    topology::Nodes vs;
    topology::Edges tes;
    try {
        if (mode == "A" || mode == "B" || mode == "D") {
            for (unsigned i = 0; i < rs.size(); ++i) vs.push_back(new topology::Node(i, rs[i]));
            for (unsigned k = 0; k < clusters.size(); ++k) {
                tes.push_back(mode == "D" ? openEdge(k, vs) : boundary(k, vs));
                printf("cycle %d\n", (int) tes.back()->cycle());
            }
            if (mode == "B") {
                cola::TestConvergence test(0.0001, iters);
                cola::ConstrainedFDLayout alg(rs, es, 60, cola::StandardEdgeLengths, &test);
                topology::ColaTopologyAddon topology(vs, tes);
                alg.setTopology(&topology);
                alg.run(true, true);
            }
        } else if (mode == "C") {
            cola::RootCluster *root = new cola::RootCluster();
            for (unsigned k = 0; k < clusters.size(); ++k) {
                cola::ConvexCluster *c = new cola::ConvexCluster();
                for (unsigned id : clusters[k]) c->addChildNode(id);
                root->addChildCluster(c);
            }
            cola::TestConvergence test(0.0001, iters);
            cola::ConstrainedFDLayout alg(rs, es, 60, cola::StandardEdgeLengths, &test);
            topology::Nodes nvs;
            topology::Edges ntes;
            topology::ColaTopologyAddon topology(nvs, ntes);
            alg.setTopology(&topology);
            alg.setClusterHierarchy(root);
            alg.setAvoidNodeOverlaps(true);
            libraryOwnsAll = true;          // from here on freeAssociatedObjects() releases rectangles, clusters, nodes, routes
            try {
                alg.makeFeasible();
                alg.run(true, true);
            } catch (vpsc::CriticalFailure &f) {
                printf("EXC %s\n", f.what().c_str());
            }
            alg.freeAssociatedObjects();
        }
    } catch (vpsc::CriticalFailure &f) {
        printf("EXC %s\n", f.what().c_str());
    }
    std::for_each(tes.begin(), tes.end(), Del());
    std::for_each(vs.begin(), vs.end(), Del());
    if (!libraryOwnsAll) std::for_each(rs.begin(), rs.end(), Del());
    printf("done\n");
    return 0;
}
