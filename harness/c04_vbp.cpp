// C04: exhaustive comparison input for connector.cpp validateBendPoint(aInf, bInf, cInf) (the bend test of the
// polyline search).  Enumerates a, b, c, d, e on a G x G integer grid (d = b->shPrev, e = b->shNext) in the order
// a (outer) .. e (inner), point index i -> (i / G, i % G), and prints one character per tuple:
//   '1'/'0'  the function's answer,   '.' tuple outside the function's asserted precondition
//            (a, b, c not collinear, a != b, b != c, but vecDir(d, b, e) <= 0).
// extract/c03_driver.ml "VBPGRID G" prints the same string from the Coq spec decider spec_validateBendPoint.
#include <cstdio>
#include <cstdlib>
#include <string>
#include <vector>
#include "libavoid/libavoid.h"
#include "libavoid/vertices.h"
#include "libavoid/geometry.h"
using namespace Avoid;
int main(int argc, char **argv)
{
    int G = argc > 1 ? atoi(argv[1]) : 3;
    Router *router = new Router(PolyLineRouting);
    std::vector<Point> pts;
    for (int x = 0; x < G; ++x) for (int y = 0; y < G; ++y) pts.push_back(Point(x, y));
    size_t n = pts.size();
    std::string out;
    VertInf A(router, VertID(1, 0), Point(0, 0), false), B(router, VertID(2, 0), Point(0, 0), false),
            Cc(router, VertID(3, 0), Point(0, 0), false), D(router, VertID(2, 1), Point(0, 0), false),
            E(router, VertID(2, 2), Point(0, 0), false);
    B.shPrev = &D; B.shNext = &E;
    for (size_t a = 0; a < n; ++a) for (size_t b = 0; b < n; ++b) for (size_t c = 0; c < n; ++c)
        for (size_t d = 0; d < n; ++d) for (size_t e = 0; e < n; ++e)
        {
            A.point = pts[a]; B.point = pts[b]; Cc.point = pts[c]; D.point = pts[d]; E.point = pts[e];
            bool pre = (pts[a] == pts[b]) || (pts[b] == pts[c]) || vecDir(pts[a], pts[b], pts[c]) == 0 ||
                       vecDir(pts[d], pts[b], pts[e]) > 0;
            if (!pre) { out.push_back('.'); continue; }
            out.push_back(validateBendPoint(&A, &B, &Cc) ? '1' : '0');
        }
    for (size_t i = 0; i < out.size(); i += 100)
    {
        fwrite(out.data() + i, 1, std::min<size_t>(100, out.size() - i), stdout);
        fputc('\n', stdout);
    }
    return 0;
}
