// C11 harness: runs pin / junction / checkpoint scenes through libavoid built from /repo's working tree and prints,
// after every transaction, pin positions, m_connend_users, active pins, the candidate pin sets that
// ConnEnd::assignPinVisibilityTo offers, and the routes.  Scene language: see checks/c11.py (gen_scene / scene_text).
// Numbers are printed with %.17g (all inputs are small dyadics, so they are exact).
#include <list>
#include <vector>
#include <map>
#include <set>
#include <string>
#include <sstream>
#include <fstream>
#include <iostream>
#include <cstdio>
#include <cstdlib>
#include <cmath>
#include <cstddef>
#include <cfloat>
#include <algorithm>
#define private public
#define protected public
#include "libavoid/libavoid.h"
using namespace Avoid;

struct Scene {
    Router *r;
    std::vector<ShapeRef *> shapes;
    std::vector<bool> shapeAlive;
    std::vector<ShapeConnectionPin *> pins;
    std::vector<int> pinShape;
    std::vector<JunctionRef *> juncs;
    std::vector<ConnRef *> conns;
    std::vector<std::vector<Point> > cps;
    bool orth;
    bool notx;       // Router::setTransactionUse(false): every call is processed at once
    int opsSinceTx;  // calls that change the scene since the last TX line
};

static double num(const std::string &s)
{
    size_t k = s.find('/');
    if (k == std::string::npos) return atof(s.c_str());
    return atof(s.substr(0, k).c_str()) / atof(s.substr(k + 1).c_str());
}

static ConnEnd readEnd(std::istringstream &is, Scene &sc)
{
    std::string k; is >> k;
    if (k == "P") { std::string a, b; is >> a >> b; return ConnEnd(Point(num(a), num(b))); }
    if (k == "D") { std::string a, b; unsigned d; is >> a >> b >> d; return ConnEnd(Point(num(a), num(b)), (ConnDirFlags) d); }
    if (k == "S") { int s; unsigned c; is >> s >> c; return ConnEnd(sc.shapes[s], c); }
    int j; is >> j; return ConnEnd(sc.juncs[j]);
}

static int pinIndex(Scene &sc, ShapeConnectionPin *p)
{
    for (size_t i = 0; i < sc.pins.size(); ++i) if (sc.pins[i] == p) return (int) i;
    return -1;
}
static int pinIndexByVertex(Scene &sc, VertInf *v)
{
    for (size_t i = 0; i < sc.pins.size(); ++i)
        if (sc.pins[i] && sc.shapeAlive[sc.pinShape[i]] && sc.pins[i]->m_vertex == v) return (int) i;
    return -1;
}
static int endId(Scene &sc, ConnEnd *ce)
{
    for (size_t i = 0; i < sc.conns.size(); ++i)
    {
        if (sc.conns[i]->m_src_connend == ce) return 2 * (int) i;
        if (sc.conns[i]->m_dst_connend == ce) return 2 * (int) i + 1;
    }
    return -1;
}

static void dump(Scene &sc, int tx, bool processed)
{
    printf("TX %d %d\n", tx, (int) processed);
    for (size_t i = 0; i < sc.shapes.size(); ++i)
    {
        if (!sc.shapeAlive[i]) continue;
        Box bb = sc.shapes[i]->polygon().offsetBoundingBox(0.0);
        printf("SHAPEBOX %zu %.17g %.17g %.17g %.17g\n", i, bb.min.x, bb.min.y, bb.max.x, bb.max.y);
    }
    for (size_t i = 0; i < sc.pins.size(); ++i)
    {
        if (!sc.shapeAlive[sc.pinShape[i]]) { printf("PIN %zu dead\n", i); continue; }
        ShapeConnectionPin *p = sc.pins[i];
        bool inset = sc.shapes[sc.pinShape[i]]->m_connection_pins.count(p) > 0 &&
                *(sc.shapes[sc.pinShape[i]]->m_connection_pins.find(p)) == p;
        Point q = p->position();
        printf("PIN %zu %.17g %.17g %u %d %d vtx %.17g %.17g users", i, q.x, q.y, (unsigned) p->directions(),
                (int) p->isExclusive(), (int) inset, p->m_vertex->point.x, p->m_vertex->point.y);
        std::vector<int> us;
        for (std::set<ConnEnd *>::iterator u = p->m_connend_users.begin(); u != p->m_connend_users.end(); ++u)
            us.push_back(endId(sc, *u));
        std::sort(us.begin(), us.end());
        for (size_t k = 0; k < us.size(); ++k) printf(" %d", us[k]);
        printf("\n");
        // directions (ConnDirFlags convention: Up = smaller y) of the ORTHOGONAL visibility edges incident to the pin's vertex
        if (sc.orth)
        {
            unsigned mask = 0; int n = 0;
            EdgeInfList &ol = p->m_vertex->orthogVisList;
            for (EdgeInfList::const_iterator e = ol.begin(); e != ol.end(); ++e)
            {
                Point o = (*e)->otherVert(p->m_vertex)->point, a = p->m_vertex->point;
                if (o.x == a.x && o.y == a.y) continue;
                ++n;
                if (o.y == a.y) mask |= (o.x > a.x) ? ConnDirRight : ConnDirLeft;
                else if (o.x == a.x) mask |= (o.y > a.y) ? ConnDirDown : ConnDirUp;
                else mask |= 16;
            }
            printf("PEDGE %zu %u %d\n", i, mask, n);
        }
    }
    for (size_t j = 0; j < sc.juncs.size(); ++j)
    {
        Point q = sc.juncs[j]->position(), rp = sc.juncs[j]->recommendedPosition();
        printf("JUNC %zu %.17g %.17g %.17g %.17g\n", j, q.x, q.y, rp.x, rp.y);
    }
    // routing order = order of Router::connRefs
    printf("ORDER");
    for (ConnRefList::iterator it = sc.r->connRefs.begin(); it != sc.r->connRefs.end(); ++it)
        for (size_t i = 0; i < sc.conns.size(); ++i) if (sc.conns[i] == *it) printf(" %zu", i);
    printf("\n");
    for (size_t i = 0; i < sc.conns.size(); ++i)
    {
        ConnRef *c = sc.conns[i];
        ConnEnd *ends[2] = { c->m_src_connend, c->m_dst_connend };
        for (int s = 0; s < 2; ++s)
        {
            ConnEnd *ce = ends[s];
            if (!ce) { printf("CEND %zu %d free\n", i, s); continue; }
            int ap = ce->m_active_pin ? pinIndex(sc, ce->m_active_pin) : -1;
            printf("CEND %zu %d type %d active %d", i, s, (int) ce->type(), ap);
            if (ce->type() == ConnEndJunction) { Point q = ce->junction()->position(); printf(" jpos %.17g %.17g", q.x, q.y); }
            printf("\n");
        }
        // what the public ConnRef::endpointConnEnds() reports: EPCE conn side S <shape> <class> | J <junction> | P, then position()
        if (c->m_src_vert && c->m_dst_vert)
        {
            std::pair<ConnEnd, ConnEnd> ep = c->endpointConnEnds();
            const ConnEnd *two[2] = { &ep.first, &ep.second };
            for (int s = 0; s < 2; ++s)
            {
                const ConnEnd &e = *two[s];
                printf("EPCE %zu %d", i, s);
                if (e.shape())
                {
                    int idx = -1;
                    for (size_t k = 0; k < sc.shapes.size(); ++k) if (sc.shapeAlive[k] && sc.shapes[k] == e.shape()) idx = (int) k;
                    printf(" S %d %u", idx, e.pinClassId());
                }
                else if (e.junction())
                {
                    int idx = -1;
                    for (size_t k = 0; k < sc.juncs.size(); ++k) if (sc.juncs[k] == e.junction()) idx = (int) k;
                    printf(" J %d", idx);
                }
                else printf(" P");
                Point q = e.position();
                printf(" pos %.17g %.17g\n", q.x, q.y);
            }
        }
        // what the public ConnRef::routingCheckpoints() returns now (the list the route is judged against)
        {
            std::vector<Checkpoint> cl = c->routingCheckpoints();
            printf("CPS %zu %zu", i, cl.size());
            for (size_t k = 0; k < cl.size(); ++k) printf(" %.17g %.17g", cl[k].point.x, cl[k].point.y);
            printf("\n");
        }
        const PolyLine &rt = c->displayRoute();
        printf("ROUTE %zu %zu", i, rt.size());
        for (size_t k = 0; k < rt.size(); ++k) printf(" %.17g %.17g", rt.ps[k].x, rt.ps[k].y);
        printf("\n");
        const PolyLine &raw = c->route();
        printf("RAW %zu %zu", i, raw.size());
        for (size_t k = 0; k < raw.size(); ++k) printf(" %.17g %.17g", raw.ps[k].x, raw.ps[k].y);
        printf("\n");
    }
    // candidate sets as offered by ConnEnd::assignPinVisibilityTo in the present state
    for (size_t i = 0; i < sc.conns.size(); ++i)
    {
        ConnRef *c = sc.conns[i];
        if (!c->m_src_vert || !c->m_dst_vert) continue;
        bool any = (c->m_src_connend && c->m_src_connend->type() == ConnEndShapePin) ||
                   (c->m_dst_connend && c->m_dst_connend->type() == ConnEndShapePin);
        if (!any) continue;
        c->assignConnectionPinVisibility(true);
        VertInf *vs[2] = { c->m_src_vert, c->m_dst_vert };
        ConnEnd *ends[2] = { c->m_src_connend, c->m_dst_connend };
        for (int s = 0; s < 2; ++s)
        {
            if (!ends[s] || ends[s]->type() != ConnEndShapePin) continue;
            std::set<int> cand;
            EdgeInfList &l1 = vs[s]->orthogVisList;
            for (EdgeInfList::const_iterator e = l1.begin(); e != l1.end(); ++e)
            { int p = pinIndexByVertex(sc, (*e)->otherVert(vs[s])); cand.insert(p); }
            EdgeInfList &l2 = vs[s]->visList;
            for (EdgeInfList::const_iterator e = l2.begin(); e != l2.end(); ++e)
            { int p = pinIndexByVertex(sc, (*e)->otherVert(vs[s])); cand.insert(p); }
            printf("CAND %zu %d", i, s);
            for (std::set<int>::iterator p = cand.begin(); p != cand.end(); ++p) printf(" %d", *p);
            printf("\n");
        }
        c->assignConnectionPinVisibility(false);
    }
    printf("ENDTX\n");
}

int main(int argc, char **argv)
{
    std::ifstream in(argv[1]);
    std::string line;
    Scene sc; sc.r = nullptr;
    int tx = 0; bool dead = false; std::string sid;
    while (std::getline(in, line))
    {
        std::istringstream is(line);
        std::string cmd; is >> cmd;
        if (cmd == "SCENE")
        {
            int mode; std::string nd; double pen = -1;
            is >> sid >> mode >> nd; std::string t; if (is >> t) pen = num(t);
            sc = Scene(); dead = false; tx = 0;
            sc.orth = mode == 1;
            sc.r = new Router(mode == 1 ? OrthogonalRouting : PolyLineRouting);
            sc.r->setRoutingParameter(idealNudgingDistance, num(nd));
            if (pen >= 0) sc.r->setRoutingParameter(segmentPenalty, pen);
            // optional 5th field: 0 switches the (default-on) hyperedge improvement off
            { std::string h; if (is >> h) sc.r->setRoutingOption(improveHyperedgeRoutesMovingJunctions, h != "0"); }
            // optional 6th field: 1 switches transactions off (objects are added, moves processed, connectors routed immediately)
            sc.notx = false; sc.opsSinceTx = 0;
            { std::string h; if (is >> h) { sc.notx = (h == "1"); if (sc.notx) sc.r->setTransactionUse(false); } }
            // optional 7th field: routing-option bits: 1 = nudgeOrthogonalSegmentsConnectedToShapes on,
            // 2 = performUnifyingNudgingPreprocessingStep off, 4 = nudgeSharedPathsWithCommonEndPoint off
            { int ob = 0; if (is >> ob) {
                if (ob & 1) sc.r->setRoutingOption(nudgeOrthogonalSegmentsConnectedToShapes, true);
                if (ob & 2) sc.r->setRoutingOption(performUnifyingNudgingPreprocessingStep, false);
                if (ob & 4) sc.r->setRoutingOption(nudgeSharedPathsWithCommonEndPoint, false); } }
            printf("SCENE %s\n", sid.c_str());
            continue;
        }
        if (cmd == "END")
        {
            printf("ENDSCENE %s\n", sid.c_str());
            fflush(stdout);
            if (sc.r && !dead)
            {
                try { delete sc.r; } catch (vpsc::CriticalFailure &f) { /* C15 territory (F-l) */ }
            }
            sc.r = nullptr;
            continue;
        }
        if (dead || !sc.r) continue;
        if (cmd != "TX") sc.opsSinceTx++;
        try
        {
            if (cmd == "SHAPE")
            {
                int idx; std::string a, b, c, d; is >> idx >> a >> b >> c >> d;
                Rectangle rect(Point(num(a), num(b)), Point(num(c), num(d)));
                ShapeRef *s = new ShapeRef(sc.r, rect, 1000 + idx);
                sc.shapes.push_back(s); sc.shapeAlive.push_back(true);
            }
            else if (cmd == "PIN")
            {
                int s; unsigned cls, dirs; std::string xo, yo, ins; int prop, excl;
                is >> s >> cls >> xo >> yo >> ins >> dirs >> prop >> excl;
                ShapeConnectionPin *p = new ShapeConnectionPin(sc.shapes[s], cls, num(xo), num(yo), prop != 0, num(ins),
                        (ConnDirFlags) dirs);
                if (excl >= 0) p->setExclusive(excl != 0);
                std::string cost; if (is >> cost) p->setConnectionCost(num(cost));
                sc.pins.push_back(p); sc.pinShape.push_back(s);
            }
            else if (cmd == "JUNCTION")
            {
                int idx; std::string a, b; is >> idx >> a >> b;
                sc.juncs.push_back(new JunctionRef(sc.r, Point(num(a), num(b)), 3000 + idx));
            }
            else if (cmd == "CONN" || cmd == "CONND")
            {
                // CONND: every checkpoint carries arrival and departure ConnDirFlags (Checkpoint(p, ad, dd))
                bool withDirs = cmd == "CONND";
                int idx; is >> idx;
                ConnEnd a = readEnd(is, sc); ConnEnd b = readEnd(is, sc);
                ConnRef *c = new ConnRef(sc.r, a, b, 2000 + idx);
                int ncp; is >> ncp;
                std::vector<Checkpoint> cps; std::vector<Point> cpp;
                for (int k = 0; k < ncp; ++k)
                {
                    std::string x, y; is >> x >> y;
                    if (withDirs) { unsigned ad, dd; is >> ad >> dd; cps.push_back(Checkpoint(Point(num(x), num(y)), (ConnDirFlags) ad, (ConnDirFlags) dd)); }
                    else cps.push_back(Checkpoint(Point(num(x), num(y))));
                    cpp.push_back(Point(num(x), num(y)));
                }
                if (ncp > 0) c->setRoutingCheckpoints(cps);
                sc.conns.push_back(c); sc.cps.push_back(cpp);
            }
            else if (cmd == "MOVE")
            {
                int s; std::string dx, dy; is >> s >> dx >> dy;
                sc.r->moveShape(sc.shapes[s], num(dx), num(dy));
            }
            else if (cmd == "RESIZE")
            {
                int s; std::string a, b, c, d; is >> s >> a >> b >> c >> d;
                Rectangle rect(Point(num(a), num(b)), Point(num(c), num(d)));
                sc.r->moveShape(sc.shapes[s], rect);
            }
            else if (cmd == "MOVEJ")
            {
                int j; std::string dx, dy; is >> j >> dx >> dy;
                sc.r->moveJunction(sc.juncs[j], num(dx), num(dy));
            }
            else if (cmd == "DEL")
            {
                int s; is >> s;
                sc.r->deleteShape(sc.shapes[s]); sc.shapeAlive[s] = false;
            }
            else if (cmd == "SETEND")
            {
                int c, side; is >> c >> side;
                ConnEnd e = readEnd(is, sc);
                if (side == 0) sc.conns[c]->setSourceEndpoint(e); else sc.conns[c]->setDestEndpoint(e);
            }
            else if (cmd == "SETCPS")
            {
                // SETCPS conn x1 y1 x2 y2 ..: ConnRef::setRoutingCheckpoints with a NEW list on an existing connector (queues nothing by itself)
                int c; is >> c;
                std::vector<Checkpoint> cps; std::string x, y;
                while (is >> x >> y) cps.push_back(Checkpoint(Point(num(x), num(y))));
                sc.conns[c]->setRoutingCheckpoints(cps);
            }
            else if (cmd == "INVAL")
            {
                int c; is >> c; sc.conns[c]->makePathInvalid();
            }
            else if (cmd == "TX")
            {
                bool processed = sc.r->processTransaction();
                // transactions off: the calls since the last TX line were each processed (and rerouted) when they were made
                if (sc.notx && sc.opsSinceTx > 0) processed = true;
                sc.opsSinceTx = 0;
                dump(sc, tx++, processed);
            }
        }
        catch (vpsc::CriticalFailure &f)
        {
            std::string w = f.what();
            for (size_t k = 0; k < w.size(); ++k) if (w[k] == '\n') w[k] = '|';
            printf("ASSERT %s\n", w.c_str());
            dead = true;
        }
        fflush(stdout);
    }
    return 0;
}
