// C15 harness: replays an API history (one op per line on stdin) on a real Avoid::Router and prints, after
// each op, the observable ownership state: live shape / junction / connector ids and the length and kinds of
// the queued action list.  Built with ASan+UBSan and USE_ASSERT_EXCEPTIONS: a sanitizer report aborts the
// process (stderr carries the report), a failed COLA_ASSERT surfaces as "ASSERT <file>:<line> <expr>".
//
// ops:  R <orthogonal 0/1> <transactions 0/1>
//       S <id> <x> <y> <w> <h> <npins>         new ShapeRef (+ centre pin class 1; npins>=2: right pin class 2, shared)
//       J <id> <x> <y>                          new JunctionRef
//       C <id> <end> <end>                      new ConnRef;  end ::= P <x> <y> | S <shape> <class> | J <junction>
//       E <conn> <0|1> <end>                    setSourceEndpoint / setDestEndpoint
//       M <shape> <dx> <dy>                     moveShape
//       D <shape> | DJ <junction> | X <conn>    deleteShape / deleteJunction / deleteConnector
//       K <conn> <k> (<x> <y>)*k                ConnRef::setRoutingCheckpoints (k = 0 clears them)
//       I <conn>                                ConnRef::makePathInvalid (forces a reroute at the next transaction)
//       N <obj> <pin> <class> <xoff> <yoff> <dirs> <excl> [<inside>]
//                                               new ShapeConnectionPin on shape <obj> (proportional offsets, ATTACH_POS_* = 0 / 0.5 / 1)
//                                               or, when <obj> is a junction, new ShapeConnectionPin(junction, class, dirs); <pin> is the
//                                               client's handle; <excl> 0/1 = setExclusive
//       XN <pin>                                delete pin (public destructor, connectionpin.h)
//       T                                       processTransaction
//       Q                                       delete router
#include <cstdio>
#include <cstdlib>
#include <cstring>
#include <map>
#include <set>
#include <string>
#include <sstream>
#include <iostream>
#include <vector>
#include <algorithm>
#define private public
#define protected public
#include "libavoid/libavoid.h"
#undef private
#undef protected
#include "libvpsc/assertions.h"

using namespace Avoid;

static Router *router = nullptr;
static std::map<unsigned, ShapeRef *> shapes;
static std::map<unsigned, JunctionRef *> junctions;
static std::map<unsigned, ConnRef *> conns;
static std::map<unsigned, ShapeConnectionPin *> pins;      // client handles of the pins made by N
static std::map<unsigned, unsigned> pin_owner;             // pin handle -> owner id

// the client gives up its handles of the pins of an obstacle it hands to deleteShape / deleteJunction (~Obstacle frees them)
static void forget_pins_of(unsigned owner)
{
    for (auto it = pin_owner.begin(); it != pin_owner.end(); )
        if (it->second == owner) { pins.erase(it->first); it = pin_owner.erase(it); } else ++it;
}

static ConnEnd readEnd(std::istringstream &in)
{
    std::string k;
    in >> k;
    if (k == "P") { double x, y; in >> x >> y; return ConnEnd(Point(x, y)); }
    if (k == "S") { unsigned s, c; in >> s >> c; return ConnEnd(shapes.at(s), c); }
    if (k == "J") { unsigned j; in >> j; return ConnEnd(junctions.at(j)); }
    fprintf(stderr, "bad end kind %s\n", k.c_str());
    exit(3);
}

static void dump(const char *op)
{
    printf("%s |", op);
    if (!router) { printf(" destroyed\n"); fflush(stdout); return; }
    // objects the router knows about (active obstacles) and objects the client still holds
    std::vector<unsigned> act;
    for (ObstacleList::iterator it = router->m_obstacles.begin(); it != router->m_obstacles.end(); ++it)
        act.push_back((*it)->id());
    std::sort(act.begin(), act.end());
    printf(" obst");
    for (unsigned v : act) printf(" %u", v);
    std::vector<unsigned> cs;
    for (ConnRefList::iterator it = router->connRefs.begin(); it != router->connRefs.end(); ++it)
        cs.push_back((*it)->id());
    std::sort(cs.begin(), cs.end());
    printf(" | conns");
    for (unsigned v : cs) printf(" %u", v);
    // queue, canonical: kind:id sorted
    std::vector<std::string> q;
    for (ActionInfoList::iterator it = router->actionList.begin(); it != router->actionList.end(); ++it) {
        char buf[64];
        unsigned id = 0;
        const char *kind = "?";
        switch (it->type) {
            case ShapeMove: kind = "SM"; id = it->shape()->id(); break;
            case ShapeAdd: kind = "SA"; id = it->shape()->id(); break;
            case ShapeRemove: kind = "SR"; id = it->shape()->id(); break;
            case JunctionMove: kind = "SM"; id = it->junction()->id(); break;
            case JunctionAdd: kind = "SA"; id = it->junction()->id(); break;
            case JunctionRemove: kind = "SR"; id = it->junction()->id(); break;
            case ConnChange: kind = "CC"; id = it->conn()->id(); break;
            case ConnectionPinChange: kind = "PC"; id = 0; break;
        }
        if (it->type == ConnectionPinChange) continue;   // change markers, never dereferenced
        if (it->type == ConnChange) snprintf(buf, sizeof buf, "%s:%u:%zu", kind, id, it->conns.size());
        else snprintf(buf, sizeof buf, "%s:%u", kind, id);
        q.push_back(buf);
    }
    std::sort(q.begin(), q.end());
    printf(" | q");
    for (auto &s : q) printf(" %s", s.c_str());
    // checkpoint vertices in the router's vertex list, per owning connector
    std::map<unsigned, unsigned> cps;
    for (VertInf *v = router->vertices.connsBegin(); v != router->vertices.end(); v = v->lstNext)
        if (v->id.isConnCheckpoint()) cps[v->id.objID]++;
    printf(" | cp");
    for (auto &kv : cps) printf(" %u:%u", kv.first, kv.second);
    // connection pins: size of the pin set of every active obstacle, and the pin vertices in the router's vertex list
    printf(" | pins");
    std::map<unsigned, size_t> pc;
    for (ObstacleList::iterator it = router->m_obstacles.begin(); it != router->m_obstacles.end(); ++it)
        if (!(*it)->m_connection_pins.empty()) pc[(*it)->id()] = (*it)->m_connection_pins.size();
    for (auto &kv : pc) printf(" %u:%zu", kv.first, kv.second);
    unsigned pv = 0;
    for (VertInf *v = router->vertices.connsBegin(); v != router->vertices.end(); v = v->lstNext)
        if (v->id.isConnectionPin()) pv++;
    printf(" | pv %u", pv);
    printf("\n");
    fflush(stdout);
}

int main()
{
    std::string line;
    while (std::getline(std::cin, line)) {
        if (line.empty() || line[0] == '#') continue;
        std::istringstream in(line);
        std::string op;
        in >> op;
        try {
            if (op == "R") {
                int orth, tr; in >> orth >> tr;
                router = new Router(orth ? OrthogonalRouting : PolyLineRouting);
                router->setTransactionUse(tr);
            } else if (op == "S") {
                unsigned id; double x, y, w, h; int np; in >> id >> x >> y >> w >> h >> np;
                Rectangle rc(Point(x, y), Point(x + w, y + h));
                ShapeRef *s = new ShapeRef(router, rc, id);
                new ShapeConnectionPin(s, 1, ATTACH_POS_CENTRE, ATTACH_POS_CENTRE, true, 0.0, ConnDirNone);
                if (np >= 2) {
                    ShapeConnectionPin *p = new ShapeConnectionPin(s, 2, ATTACH_POS_RIGHT, ATTACH_POS_CENTRE, true, 3.0, ConnDirRight);
                    p->setExclusive(false);   // pin capacity is C11's subject; here every pin may be shared
                }
                shapes[id] = s;
            } else if (op == "J") {
                unsigned id; double x, y; in >> id >> x >> y;
                junctions[id] = new JunctionRef(router, Point(x, y), id);
            } else if (op == "C") {
                unsigned id; in >> id;
                ConnEnd a = readEnd(in);
                ConnEnd b = readEnd(in);
                conns[id] = new ConnRef(router, a, b, id);
            } else if (op == "E") {
                unsigned id; int which; in >> id >> which;
                ConnEnd e = readEnd(in);
                if (which == 0) conns.at(id)->setSourceEndpoint(e); else conns.at(id)->setDestEndpoint(e);
            } else if (op == "M") {
                unsigned id; double dx, dy; in >> id >> dx >> dy;
                router->moveShape(shapes.at(id), dx, dy);
            } else if (op == "D") {
                unsigned id; in >> id;
                router->deleteShape(shapes.at(id)); shapes.erase(id); forget_pins_of(id);
            } else if (op == "DJ") {
                unsigned id; in >> id;
                router->deleteJunction(junctions.at(id)); junctions.erase(id); forget_pins_of(id);
            } else if (op == "X") {
                unsigned id; in >> id;
                router->deleteConnector(conns.at(id)); conns.erase(id);
            } else if (op == "K") {
                unsigned id; int k; in >> id >> k;
                std::vector<Checkpoint> cps;
                for (int i = 0; i < k; ++i) { double x, y; in >> x >> y; cps.push_back(Checkpoint(Point(x, y))); }
                conns.at(id)->setRoutingCheckpoints(cps);
            } else if (op == "I") {
                unsigned id; in >> id;
                conns.at(id)->makePathInvalid();
            } else if (op == "N") {
                unsigned obj, pid, cls, dirs; double xo, yo, inside = 0.0; int excl;
                in >> obj >> pid >> cls >> xo >> yo >> dirs >> excl;
                if (!(in >> inside)) inside = 0.0;
                ShapeConnectionPin *p;
                if (shapes.count(obj)) p = new ShapeConnectionPin(shapes.at(obj), cls, xo, yo, true, inside, (ConnDirFlags) dirs);
                else p = new ShapeConnectionPin(junctions.at(obj), cls, (ConnDirFlags) dirs);
                p->setExclusive(excl != 0);
                pins[pid] = p; pin_owner[pid] = obj;
            } else if (op == "XN") {
                unsigned pid; in >> pid;
                delete pins.at(pid); pins.erase(pid); pin_owner.erase(pid);
            } else if (op == "T") {
                router->processTransaction();
            } else if (op == "Q") {
                delete router; router = nullptr;
                // everything the router owned is gone: drop the client's (now dangling) handles, so that whatever the library
                // failed to free is unreachable and LeakSanitizer reports it
                shapes.clear(); junctions.clear(); conns.clear(); pins.clear(); pin_owner.clear();
            } else {
                fprintf(stderr, "unknown op %s\n", op.c_str());
                return 3;
            }
        } catch (vpsc::CriticalFailure &f) {
            printf("ASSERT %s\n", f.what().c_str());
            fflush(stdout);
            return 4;
        } catch (std::exception &e) {
            printf("EXCEPTION %s\n", e.what());
            fflush(stdout);
            return 5;
        }
        dump(line.c_str());
    }
    return 0;
}
