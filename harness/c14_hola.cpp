// C14 harness: runs the real dialect::doHOLA on one graph and dumps the drawing before and after.
// usage: c14_hola <casefile>
//   casefile:  first line   "O key=value key=value ..."   (HolaOpts fields, see setOpt below)
//              rest         a TGLF text (nodes "id cx cy w h", "#", edges "src tgt", optional "#", SEPCO lines);
//                           the graph is built by dialect::buildGraphFromTglf, i.e. through Node::allocate /
//                           Edge::allocate / Graph::addNode / Graph::addEdge.
// output (all numbers "%.17g", ids are the external ids of the TGLF):
//   P <nodePaddingScalar> <IEL as the library computes it>
//   B N id cx cy w h            one per node, before doHOLA
//   B E src tgt                 one per edge, before
//   A N id cx cy w h            after
//   A E src tgt k x1 y1 ... xk yk        Edge::getRoute()
//   A X extraBdryGap
//   A S src tgt xgt ygt xst yst sx |xgap| sy |ygap|     every SepPair of G.getSepMatrix(); sx/sy = signbit
//   T <seconds>
//   EXC <what>                  an exception (or failed COLA_ASSERT in the exc flavour) escaped doHOLA
#include <cstddef>
#include <cfloat>
#include <cmath>
#include <cstdio>
#include <cstdlib>
#include <cstring>
#include <string>
#include <vector>
#include <map>
#include <set>
#include <sstream>
#include <fstream>
#include <iostream>
#include <algorithm>
#include <memory>
#include <functional>
#include <deque>
#include <list>
#include <stack>
#include <queue>
#include <stdexcept>
#include <utility>
#include <cassert>
#include <iterator>
#include <numeric>
#include <limits>
#include <unordered_map>
#include <unordered_set>
#include <valarray>
#include <array>
#include <iomanip>
#include <ctime>
#include <chrono>
#include <cstdint>
#include <typeinfo>
#include <climits>
#define private public
#define protected public
#include "libdialect/libdialect.h"
#include "libdialect/io.h"
#include "libdialect/hola.h"
#include "libdialect/opts.h"
#include "libvpsc/exceptions.h"
#undef private
#undef protected

using namespace dialect;

static CardinalDir cdir(int k)
{
    switch (k & 3) { case 0: return CardinalDir::EAST; case 1: return CardinalDir::SOUTH; case 2: return CardinalDir::WEST; }
    return CardinalDir::NORTH;
}

static bool setOpt(HolaOpts &o, const std::string &k, double v)
{
    if (k == "useACAforLinks") o.useACAforLinks = v != 0;
    else if (k == "do_near_align") o.do_near_align = v != 0;
    else if (k == "align_reps") o.align_reps = (unsigned)v;
    else if (k == "preferConvexTrees") o.preferConvexTrees = v != 0;
    else if (k == "putUlcAtOrigin") o.putUlcAtOrigin = v != 0;
    else if (k == "preferredAspectRatio")
        o.preferredAspectRatio = v == 0 ? AspectRatioClass::NONE : v == 1 ? AspectRatioClass::PORTRAIT : AspectRatioClass::LANDSCAPE;
    else if (k == "defaultTreeGrowthDir") o.defaultTreeGrowthDir = cdir((int)v);
    else if (k == "preferredTreeGrowthDir") o.preferredTreeGrowthDir = cdir((int)v);
    else if (k == "nodePaddingScalar") o.nodePaddingScalar = v;
    else if (k == "orthoHubAvoidFlatTriangles") o.orthoHubAvoidFlatTriangles = v != 0;
    else if (k == "expansion_doCostlierDimensionFirst") o.expansion_doCostlierDimensionFirst = v != 0;
    else if (k == "expansion_estimateMethod")
        o.expansion_estimateMethod = v == 0 ? ExpansionEstimateMethod::SPACE : ExpansionEstimateMethod::CONSTRAINTS;
    else if (k == "peeledTreeRouting")
        o.peeledTreeRouting = v == 0 ? TreeRoutingType::STRICT : v == 1 ? TreeRoutingType::CORE_ATTACHMENT : TreeRoutingType::MONOTONIC;
    else if (k == "wholeTreeRouting")
        o.wholeTreeRouting = v == 0 ? TreeRoutingType::STRICT : v == 1 ? TreeRoutingType::CORE_ATTACHMENT : TreeRoutingType::MONOTONIC;
    else if (k == "routingAbs_nudgingDistance") o.routingAbs_nudgingDistance = v;
    else return false;
    return true;
}

int main(int argc, char **argv)
{
    if (argc < 2) { fprintf(stderr, "usage: c14_hola casefile\n"); return 2; }
    std::ifstream in(argv[1]);
    if (!in) { fprintf(stderr, "cannot open %s\n", argv[1]); return 2; }
    std::string first;
    std::getline(in, first);
    HolaOpts opts;
    if (first.size() < 1 || first[0] != 'O') { fprintf(stderr, "first line must start with O\n"); return 2; }
    {
        std::istringstream is(first.substr(1));
        std::string kv;
        while (is >> kv) {
            size_t e = kv.find('=');
            if (e == std::string::npos || !setOpt(opts, kv.substr(0, e), atof(kv.c_str() + e + 1))) {
                fprintf(stderr, "bad option %s\n", kv.c_str());
                return 2;
            }
        }
    }
    std::stringstream rest;
    rest << in.rdbuf();
    std::string tglf = rest.str();
    Graph_SP g;
    try {
        g = buildGraphFromTglf(tglf);
    } catch (std::exception &e) {
        printf("EXC build: %s\n", e.what());
        return 0;
    } catch (...) {
        printf("EXC build: unknown\n");
        return 0;
    }
    std::map<id_type, int> ext;
    for (auto &p : g->getNodeLookup()) ext[p.first] = p.second->getExternalId();
    // the IEL exactly as doHOLA will compute it (hola.cpp:75; cached in m_iel, same value later)
    printf("P %.17g %.17g\n", opts.nodePaddingScalar, g->getIEL());
    for (auto &p : g->getNodeLookup()) {
        Avoid::Point c = p.second->getCentre();
        dimensions d = p.second->getDimensions();
        printf("B N %d %.17g %.17g %.17g %.17g\n", ext[p.first], c.x, c.y, d.first, d.second);
    }
    for (auto &p : g->getEdgeLookup()) {
        auto en = p.second->getEndIds();
        printf("B E %d %d\n", ext[en.first], ext[en.second]);
    }
    fflush(stdout);
    auto t1 = std::chrono::steady_clock::now();
    try {
        doHOLA(*g, opts);
    } catch (std::exception &e) {
        std::string w = e.what();
        std::replace(w.begin(), w.end(), '\n', ' ');
        printf("EXC %s\n", w.c_str());
        return 0;
    } catch (vpsc::CriticalFailure &f) {
        // a failed COLA_ASSERT (the libraries are built with USE_ASSERT_EXCEPTIONS)
        std::string w = f.what();
        std::replace(w.begin(), w.end(), '\n', ' ');
        printf("EXC ASSERT %s\n", w.c_str());
        return 0;
    } catch (vpsc::UnsatisfiedConstraint &) {
        printf("EXC vpsc::UnsatisfiedConstraint escaped from doHOLA\n");
        return 0;
    } catch (vpsc::UnsatisfiableException &) {
        printf("EXC vpsc::UnsatisfiableException escaped from doHOLA\n");
        return 0;
    } catch (char *) {
        // solve_VPSC.cpp:326 throws (char*) of a destroyed temporary; the text is not read here
        printf("EXC char* thrown by vpsc::IncSolver::satisfy (unsatisfied constraint after solve) escaped from doHOLA\n");
        return 0;
    } catch (...) {
        printf("EXC unknown\n");
        return 0;
    }
    auto t2 = std::chrono::steady_clock::now();
    for (auto &p : g->getNodeLookup()) {
        Avoid::Point c = p.second->getCentre();
        dimensions d = p.second->getDimensions();
        int e = ext.count(p.first) ? ext[p.first] : -(int)p.first - 1000000;   // a node that was not there before
        printf("A N %d %.17g %.17g %.17g %.17g\n", e, c.x, c.y, d.first, d.second);
    }
    for (auto &p : g->getEdgeLookup()) {
        auto en = p.second->getEndIds();
        std::vector<Avoid::Point> r = p.second->getRoute();
        int a = ext.count(en.first) ? ext[en.first] : -(int)en.first - 1000000;
        int b = ext.count(en.second) ? ext[en.second] : -(int)en.second - 1000000;
        printf("A E %d %d %zu", a, b, r.size());
        for (auto &q : r) printf(" %.17g %.17g", q.x, q.y);
        printf("\n");
    }
    SepMatrix &m = g->getSepMatrix();
    printf("A X %.17g\n", m.getExtraBdryGap());
    for (auto &p : m.m_sparseLookup) for (auto &q : p.second) {
        if (!q.second) continue;
        const SepPair &sp = *q.second;
        int a = ext.count(sp.src) ? ext[sp.src] : -(int)sp.src - 1000000;
        int b = ext.count(sp.tgt) ? ext[sp.tgt] : -(int)sp.tgt - 1000000;
        printf("A S %d %d %d %d %d %d %d %.17g %d %.17g\n", a, b, (int)sp.xgt, (int)sp.ygt, (int)sp.xst, (int)sp.yst,
               (int)std::signbit(sp.xgap), std::fabs(sp.xgap), (int)std::signbit(sp.ygap), std::fabs(sp.ygap));
    }
    printf("T %.3f\n", std::chrono::duration<double>(t2 - t1).count());
    return 0;
}
