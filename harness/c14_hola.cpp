// C14 harness: runs the real dialect::doHOLA on one graph and dumps the drawing before and after.
// usage: c14_hola [--trace] <casefile>
//   --trace   instead of dialect::doHOLA run traceHOLA below: a verbatim copy of doHOLA (hola.cpp:59-439 of the tree the
//             check was written against; only public libdialect API), WITHOUT a Logger (a Logger changes code
//             paths: nodeconfig.cpp:217, graphs.cpp:741), plus a snapshot of the core graph /
//             the planarised graph P taken at the END (see the note in traceHOLA).  Used ONLY by the known-finding classifiers of
//             checks/c14.py: the drawing that is judged always comes from the real doHOLA (a run without --trace), and
//             a classifier that uses a snapshot first requires that the traced run reproduces the judged drawing.
// output (all numbers "%.17g", ids are the external ids of the TGLF):
//   P <nodePaddingScalar> <IEL as the library computes it>
//   B N id cx cy w h            one per node, before doHOLA
//   B E src tgt                 one per edge, before
//   A N id cx cy w h            after
//   A E src tgt k x1 y1 ... xk yk        Edge::getRoute()
//   A X extraBdryGap
//   A S src tgt xgt ygt xst yst sx |xgap| sy |ygap|     every SepPair of G.getSepMatrix(); sx/sy = signbit
//   T <seconds>
//   (--trace) A B src tgt k id1 x1 y1 ... idk xk yk     Edge::getBendNodes() of an edge of G at the end
//   (--trace) C B src tgt bend nbr1 nbr2                every AestheticBend of every Chain (edge of G, ids as in L lines)
//   (--trace) L <stage> N id cx cy w h | L <stage> E src tgt k x1 y1 .. | L <stage> X gap | L <stage> S <as A S>
//             snapshot of a graph of the pipeline; <stage> is the name doHOLA would log it under ("08_planar_graph_P", ..)
//             or P_final / core_final (taken after the last statement); ids: external id for a node of G, 2^20 + internal id otherwise
//             (aesthetic bend, route bend, crossing, tree buffer nodes)
//   (--trace) R root member member ...                  the node ids of every peeled tree
#include <cstddef>
#include <cfloat>
#include <cmath>
#include <cstdio>
#include <cstdlib>
#include <cstring>
#include <string>
#include <vector>
#include <map>
#include <set>
#include <sstream>
#include <fstream>
#include <iostream>
#include <algorithm>
#include <memory>
#include <functional>
#include <deque>
#include <list>
#include <stack>
#include <queue>
#include <stdexcept>
#include <utility>
#include <cassert>
#include <iterator>
#include <numeric>
#include <limits>
#include <unordered_map>
#include <unordered_set>
#include <valarray>
#include <array>
#include <iomanip>
#include <ctime>
#include <chrono>
#include <cstdint>
#include <typeinfo>
#include <climits>
#define private public
#define protected public
#include "libdialect/libdialect.h"
#include "libdialect/io.h"
#include "libdialect/hola.h"
#include "libdialect/opts.h"
#include "libdialect/commontypes.h"
#include "libdialect/graphs.h"
#include "libdialect/peeling.h"
#include "libdialect/trees.h"
#include "libdialect/nodeconfig.h"
#include "libdialect/aca.h"
#include "libdialect/chains.h"
#include "libdialect/routing.h"
#include "libdialect/planarise.h"
#include "libdialect/faces.h"
#include "libdialect/treeplacement.h"
#include "libdialect/nearalign.h"
#include "libdialect/logging.h"
#include "libdialect/util.h"
#include "libavoid/libavoid.h"
#include "libvpsc/exceptions.h"
#undef private
#undef protected

using namespace dialect;

static CardinalDir cdir(int k)
{
    switch (k & 3) { case 0: return CardinalDir::EAST; case 1: return CardinalDir::SOUTH; case 2: return CardinalDir::WEST; }
    return CardinalDir::NORTH;
}

static bool setOpt(HolaOpts &o, const std::string &k, double v)
{
    if (k == "useACAforLinks") o.useACAforLinks = v != 0;
    else if (k == "do_near_align") o.do_near_align = v != 0;
    else if (k == "align_reps") o.align_reps = (unsigned)v;
    else if (k == "preferConvexTrees") o.preferConvexTrees = v != 0;
    else if (k == "putUlcAtOrigin") o.putUlcAtOrigin = v != 0;
    else if (k == "preferredAspectRatio")
        o.preferredAspectRatio = v == 0 ? AspectRatioClass::NONE : v == 1 ? AspectRatioClass::PORTRAIT : AspectRatioClass::LANDSCAPE;
    else if (k == "defaultTreeGrowthDir") o.defaultTreeGrowthDir = cdir((int)v);
    else if (k == "preferredTreeGrowthDir") o.preferredTreeGrowthDir = cdir((int)v);
    else if (k == "nodePaddingScalar") o.nodePaddingScalar = v;
    else if (k == "orthoHubAvoidFlatTriangles") o.orthoHubAvoidFlatTriangles = v != 0;
    else if (k == "expansion_doCostlierDimensionFirst") o.expansion_doCostlierDimensionFirst = v != 0;
    else if (k == "expansion_estimateMethod")
        o.expansion_estimateMethod = v == 0 ? ExpansionEstimateMethod::SPACE : ExpansionEstimateMethod::CONSTRAINTS;
    else if (k == "peeledTreeRouting")
        o.peeledTreeRouting = v == 0 ? TreeRoutingType::STRICT : v == 1 ? TreeRoutingType::CORE_ATTACHMENT : TreeRoutingType::MONOTONIC;
    else if (k == "wholeTreeRouting")
        o.wholeTreeRouting = v == 0 ? TreeRoutingType::STRICT : v == 1 ? TreeRoutingType::CORE_ATTACHMENT : TreeRoutingType::MONOTONIC;
    else if (k == "routingAbs_nudgingDistance") o.routingAbs_nudgingDistance = v;
    else if (k == "treeLayoutScalar_nodeSep") o.treeLayoutScalar_nodeSep = v;
    else if (k == "treeLayoutScalar_rankSep") o.treeLayoutScalar_rankSep = v;
    else if (k == "routingScalar_crossingPenalty") o.routingScalar_crossingPenalty = v;
    else if (k == "routingScalar_segmentPenalty") o.routingScalar_segmentPenalty = v;
    else if (k == "treePlacement_favourCardinal") o.treePlacement_favourCardinal = v != 0;
    else if (k == "treePlacement_favourExternal") o.treePlacement_favourExternal = v != 0;
    else if (k == "treePlacement_favourIsolation") o.treePlacement_favourIsolation = v != 0;
    else if (k == "nearAlignScalar_kinkWidth") o.nearAlignScalar_kinkWidth = v;
    else if (k == "nearAlignScalar_scope") o.nearAlignScalar_scope = v;
    else return false;
    return true;
}

static void dumpSeps(const char *prefix, SepMatrix &m, std::function<int(id_type)> name)
{
    printf("%s X %.17g\n", prefix, m.getExtraBdryGap());
    for (auto &p : m.m_sparseLookup) for (auto &q : p.second) {
        if (!q.second) continue;
        const SepPair &sp = *q.second;
        printf("%s S %d %d %d %d %d %d %d %.17g %d %.17g\n", prefix, name(sp.src), name(sp.tgt), (int)sp.xgt, (int)sp.ygt, (int)sp.xst, (int)sp.yst,
               (int)std::signbit(sp.xgap), std::fabs(sp.xgap), (int)std::signbit(sp.ygap), std::fabs(sp.ygap));
    }
}

static std::map<id_type, int> g_ext;      // internal id -> external id, for the nodes of G
static int outId(id_type i) { auto it = g_ext.find(i); return it != g_ext.end() ? it->second : (1 << 20) + (int)i; }

// snapshot of a graph of the pipeline WITHOUT a single heap allocation (members are read directly, printf into the
// already allocated stdout buffer): the library's results depend on heap layout (std::set<Event*> and
// std::set<EdgeSegment*> in planarise.cpp iterate in pointer order), so the traced run must allocate exactly like
// the real doHOLA or it would not reproduce the drawing it is meant to explain
static void snap(Graph &h, const char *stage)
{
    for (auto &p : h.m_nodes) {
        Node &u = *p.second;
        printf("L %s N %d %.17g %.17g %.17g %.17g\n", stage, outId(p.first), u.m_cx, u.m_cy, u.m_w, u.m_h);
    }
    for (auto &p : h.m_edges) {
        Edge &e = *p.second;
        printf("L %s E %d %d %zu", stage, outId(Node_SP(e.m_src)->id()), outId(Node_SP(e.m_tgt)->id()), e.m_route.size());
        for (auto &q : e.m_route) printf(" %.17g %.17g", q.x, q.y);
        printf("\n");
    }
    SepMatrix &m = h.m_sepMatrix;
    printf("L %s X %.17g\n", stage, m.m_extraBdryGap);
    for (auto &p : m.m_sparseLookup) for (auto &q : p.second) {
        if (!q.second) continue;
        const SepPair &sp = *q.second;
        printf("L %s S %d %d %d %d %d %d %d %.17g %d %.17g\n", stage, outId(sp.src), outId(sp.tgt), (int)sp.xgt, (int)sp.ygt, (int)sp.xst, (int)sp.yst,
               (int)std::signbit(sp.xgap), std::fabs(sp.xgap), (int)std::signbit(sp.ygap), std::fabs(sp.ygap));
    }
}

// ---- dialect::doHOLA (cola/libdialect/hola.cpp:59-439) copied VERBATIM (the log / nli lambdas and the string_format
// calls included, logger == nullptr; `log` takes a snapshot instead of calling the Logger), followed by a read-only
// dump of the pipeline's graphs ------------------------------------------------------------------------------------
using std::string;
static void traceHOLA(Graph &G, const HolaOpts &holaOpts, Logger *logger = nullptr) {

    // If there's no edges, there's nothing to do.
    if (G.getNumEdges() == 0) return;

    // Prepare logging functions in case a logger is given.
    std::function<void(Graph&, string)> log = [logger](Graph &H, string name)->void{
        snap(H, name.c_str());      // the ONLY edit of the copied statements (was: if (logger!=nullptr) logger->log(H, name);)
    };
    std::function<void(unsigned)> nli = [logger](unsigned ln)->void{
        if (logger != nullptr) logger->nextLoggingIndex = ln;
    };
    // Initialise a logging index.
    unsigned ln = 0;

    // We let the given graph auto-infer its own ideal edge length, based on node sizes.
    double IEL = G.getIEL();
    // Pad nodes
    double nodePadding = holaOpts.nodePaddingScalar*IEL;
    G.padAllNodes(nodePadding, nodePadding);
    // We need to dismantle the graph, so we begin by making a copy and we work on that instead.
    // We allocate this copy on the heap, and manage it with a shared ptr, since many of our tools
    // require that.
    Graph_SP Gcopy = std::make_shared<Graph>(G);
    // Clear any existing connector routes, for better logging output.
    Gcopy->clearAllRoutes();

    // Peel.
    Trees trees = peel(*Gcopy);
    // After peeling, the input graph is peeled down to its own core.
    // Ac-cor-dingly : ) we rename it...
    Graph_SP &core = Gcopy;

    log(*core, string_format("%02d_core", ln++));

    // If it's just a tree, layout and quit.
    // We recognise this case by there being exactly one tree, containing the same number of
    // nodes as the original graph.
    if (trees.size() == 1 && trees.front()->underlyingGraph()->getNumNodes() == G.getNumNodes()) {
        // Give the tree a symmetric layout.
        Tree_SP &tree = trees.front();
        tree->symmetricLayout(
            holaOpts.defaultTreeGrowthDir,
            holaOpts.treeLayoutScalar_nodeSep*IEL,
            holaOpts.treeLayoutScalar_rankSep*IEL,
            holaOpts.preferConvexTrees
        );
        // Route the edges.
        RoutingAdapter ra(Avoid::OrthogonalRouting);
        ra.router.setRoutingOption(Avoid::nudgeOrthogonalSegmentsConnectedToShapes, true);
        ra.router.setRoutingOption(Avoid::nudgeSharedPathsWithCommonEndPoint, true);
        ra.router.setRoutingParameter(Avoid::idealNudgingDistance, holaOpts.routingAbs_nudgingDistance);
        tree->addNetworkToRoutingAdapter(ra, holaOpts.wholeTreeRouting);
        ra.route();
        // Remove node padding.
        G.padAllNodes(-nodePadding, -nodePadding);
        // Set layout data in original Graph.
        tree->underlyingGraph()->setPosesInCorrespNodes(G);
        tree->underlyingGraph()->setRoutesInCorrespEdges(G);
        tree->addConstraints(G, true);
        // Done.
        return;
    }

    // Otherwise we do have a core and trees.

    // Start with a plain destress -- no constraints, no overlap prevention -- in order to begin
    // giving the nodes a reasonable distribution in the plane.
    core->destress();

    log(*core, string_format("%02d_free_destress_core", ln++));

    // Now destress again, this time removing any node overlaps.
    ColaOptions colaOpts;
    colaOpts.preventOverlaps = true;
    core->destress(colaOpts);

    log(*core, string_format("%02d_OP_destress_core", ln++));

    // Layout the hubs.
    nli(ln);
    OrthoHubLayoutOptions ohlOpts;
    ohlOpts.avoidFlatTriangles = holaOpts.orthoHubAvoidFlatTriangles;
    OrthoHubLayout ohl(core, ohlOpts);
    ohl.layout(logger);

    log(*core, string_format("%02d_core_ortho_hub", ln++));

    // Set extra gap for boundary constraints.
    core->getSepMatrix().setExtraBdryGap(IEL/2.0);

    // Dissipate any stress accumulated during ortho hub layout, aiming to regain a natrual
    // distribution for the nodes that remain unconstrained, and perhaps regain natural symmetries.
    // This time, besides just preventing overlaps between nodes, we also prevent any nodes from
    // overlapping with aligned edges.
    colaOpts.solidifyAlignedEdges = true;
    colaOpts.logger = logger;
    nli(ln);
    core->destress(colaOpts);

    log(*core, string_format("%02d_EOP_destress_core", ln++));

    // Next we lay out the links.
    // We may or may not build Chains for this process. Later we will need to know whether chains
    // were built, so the vector of Chains is declared at this scope.
    Chains chains;
    if (holaOpts.useACAforLinks) {
        // Use ACA.
        ACALayout aca(core);
        aca.createAlignments();
        // ACA is an older algorithm, from before we used Graphs.
        // For backward compatibility, it does not automatically update its Graph with the
        // positions and constraints from the layout, because it does not always /have/ a Graph.
        // So we ask it to do the update.
        aca.updateGraph();
    } else {
        // Use shape-conforming chain layout.
        chains = buildAllChainsInGraph(core);
        for (Chain_SP chain : chains) chain->takeShapeBasedConfiguration();
        // We project before destressing with edge-node overlap prevention, so that the edges of
        // the chain can be axis aligned first.
        // We do NOT want overlap prevention for the projection, because the new chain configuration
        // constraints may very well reverse one or more orthogonal orderings, and we need them to
        // be free to do that.
        colaOpts.preventOverlaps = false;
        colaOpts.solidifyAlignedEdges = false;
        core->project(colaOpts, vpsc::XDIM);
        core->project(colaOpts, vpsc::YDIM);
    }

    // Destress with overlap prevention including aligned edges.
    // At this time we also prepare for the next step, which involves connector routing.
    // To ensure the routing is possible, we ensure there is some gap between all nodes.
    // We do this by adding padding, destressing, and then removing this padding.
    colaOpts.preventOverlaps = true;
    colaOpts.solidifyAlignedEdges = true;
    nli(ln);
    double preRoutingGapIELScalar = 0.125;
    double preRoutingGap = preRoutingGapIELScalar*IEL;
    core->padAllNodes(preRoutingGap, preRoutingGap);
    core->destress(colaOpts);
    core->padAllNodes(-preRoutingGap, -preRoutingGap);
    if (holaOpts.useACAforLinks) {
        log(*core, string_format("%02d_core_link_config_ACA", ln++));
    } else {
        log(*core, string_format("%02d_core_link_config_Chains", ln++));
    }

    // Next is the phase in which we planarise the core.
    // However, we want a 4-planar orthogonal layout with no leaves for this phase, so we first
    // perform a special orthogonal connector routing, which ensures that no nodes will become
    // leaves in the planarisation. (It does this by ensuring that connectors are routed to at
    // least two distinct sides of each node.)
    LeaflessOrthoRouter lor(core, holaOpts);
    nli(ln);
    lor.route(logger);
    ++ln;

    log(*core, string_format("%02d_core_leafless_ortho_route", ln++));

    OrthoPlanariser op(core);
    Graph_SP P = op.planarise();

    log(*P, string_format("%02d_planar_graph_P", ln++));

    // Set extra gap for boundary constraints.
    P->getSepMatrix().setExtraBdryGap(IEL/2.0);
    // Destress the new planar graph P, aiming to regain possible natural symmetries.
    // But use overlap prevention so that the structure cannot change.
    // (Note that now /all/ edges are aligned, so we have total edge-node overlap prevention.)
    colaOpts.preventOverlaps = true;
    colaOpts.solidifyAlignedEdges = true;
    nli(ln);
    P->destress(colaOpts);

    log(*P, string_format("%02d_P_EOP_destress", ln++));

    // Now we want to reattach the trees, choosing faces of the planarised core in which to
    // place them.
    // First the trees need their own symmetric layout.
    unsigned lns = 0;  // initialise logging sub-index
    for (Tree_SP tree : trees) {
        tree->symmetricLayout(
            holaOpts.defaultTreeGrowthDir,
            holaOpts.treeLayoutScalar_nodeSep*IEL,
            holaOpts.treeLayoutScalar_rankSep*IEL,
            holaOpts.preferConvexTrees
        );
        log(*(tree->underlyingGraph()), string_format("%02d_%02d_symm_tree", ln, lns++));
    }

    ++ln;
    nli(ln);
    // Now we can choose faces and reattach them.
    FaceSet_SP faceSet = reattachTrees(P, trees, holaOpts, logger);
    ++ln;
    // We will need the vector of chosen tree placements.
    TreePlacements tps = faceSet->getAllTreePlacements();

    // Next we insert the actual trees back into the planar graph.
    // The trees come with buffer nodes. We build a record of those, so they can be
    // ignored where necessary.
    NodesById bufferNodes;
    EdgesById treeEdges;
    std::vector<NodesById> clustersSansBufferNodes;
    for (auto tp : tps) {
        tp->applyGeometryToTree();
        NodesById treeNodes;
        NodesById buffNodes;
        tp->insertTreeIntoGraph(*P, treeNodes, buffNodes, treeEdges);
        clustersSansBufferNodes.push_back(treeNodes);
        treeNodes.insert(buffNodes.begin(), buffNodes.end());
        bufferNodes.insert(buffNodes.begin(), buffNodes.end());
        colaOpts.nodeClusters.push_back(treeNodes);
    }

    log(*P, string_format("%02d_P_with_trees", ln++));

    // We don't need solid edges within the trees; moreover, this would cause constraint
    // conflicts since the tree nodes now belong to clusters to which their solid edges
    // would not belong.
    colaOpts.solidEdgeExemptions = treeEdges;
    // Destress using neighbour stress, in order to compactify.
    colaOpts.useNeighbourStress = true;
    // Now that we are using clusters to keep the tree nodes together, we make sure
    // we do not use majorization, since ConstrainedMajorizationLayout does not work
    // with RectangularClusters.
    colaOpts.useMajorization = false;

    nli(ln);
    P->destress(colaOpts);

    log(*P, string_format("%02d_P_nbr_destress", ln++));

    // Do near alignments.
    if (holaOpts.do_near_align) {
        AlignmentTable atab(*P, bufferNodes);
        for (size_t i = 0; i < holaOpts.align_reps; ++i) {
            doNearAlignments(*P, atab, bufferNodes, holaOpts);
            // After each attempt to add alignment constraints, destress, again using
            // neighbour stress and majorization.
            nli(ln);
            P->destress(colaOpts);
            log(*P, string_format("%02d_P_near_alignments", ln++));
        }
    }

    // Delete buffer nodes.
    P->removeNodes(bufferNodes);
    colaOpts.nodeClusters = clustersSansBufferNodes;

    // Rotate if desired.
    if (holaOpts.preferredAspectRatio != AspectRatioClass::NONE) {
        BoundingBox b = P->getBoundingBox(bufferNodes);
        double w = b.w(),
               h = b.h();
        bool scaleBySize = true;
        unsigned quarterTurnsCW = 0;
        auto counts = faceSet->getNumTreesByGrowthDir(scaleBySize);
        if ((w < h && holaOpts.preferredAspectRatio == AspectRatioClass::LANDSCAPE) ||
            (h < w && holaOpts.preferredAspectRatio == AspectRatioClass::PORTRAIT)) {
            // Need to rotate 90 degrees to get preferred aspect ratio.
            // There are two ways to do this (clockwise and anticlockwise).
            // In order to choose one, consult the preferred tree growth direction.
            // Determine how many trees grow in the two directions 90 degrees away from this one.
            CardinalDir q = holaOpts.preferredTreeGrowthDir,
                        p = Compass::cardRotateAcw90(q),
                        r = Compass::cardRotateCw90(q);
            size_t np = counts[p],
                   nr = counts[r];
            nli(ln);
            if (np >= nr) {
                // In this case rotating clockwise will put more trees in the preferred
                // growth direction.
                P->rotate90cw(&colaOpts);
                // We need to rotate the constraints in the core too, since later we're
                // going to write those into the original graph.
                core->getSepMatrix().transform(SepTransform::ROTATE90CW);
                quarterTurnsCW = 1;
            } else {
                // In this case rotating anticlockwise is preferred.
                P->rotate90acw(&colaOpts);
                core->getSepMatrix().transform(SepTransform::ROTATE90ACW);
                quarterTurnsCW = 3;
            }
            ln += 2;
        } else {
            // In this case we may rotate 180 degrees if that would put more trees in the preferred
            // growth direction.
            CardinalDir q = holaOpts.preferredTreeGrowthDir,
                        s = Compass::cardFlip(q);
            size_t nq = counts[q],
                   ns = counts[s];
            if (ns > nq) {
                P->rotate180();
                core->getSepMatrix().transform(SepTransform::ROTATE180);
                quarterTurnsCW = 2;
            }
        }
        // Update Tree growth directions as needed.
        if (quarterTurnsCW != 0) {
            for (Tree_SP tree : trees) tree->rotateGrowthDirCW(quarterTurnsCW);
        }
    }

    log(*P, string_format("%02d_P_rotation", ln++));

    // Translate if desired.
    if (holaOpts.putUlcAtOrigin) {
        NodesById ignore; // leave empty; don't ignore any nodes
        bool includeBends = true; // we want the edge routes included
        BoundingBox b = P->getBoundingBox(ignore, includeBends);
        double dx = -b.x,
               dy = -b.y;
        P->translate(dx, dy);
    }

    log(*P, string_format("%02d_P_translation", ln++));

    // At this point, we can ask the planar graph P to set node positions in the original graph G.
    // This is because it is now true that for every node u in G, there is a node v in P with v.ID == u.ID.
    // Initially, P had a GhostNode representing each Node in the core of G. But now we have also added
    // the Trees into P (by calling insertTreeIntoGraph on each TreePlacement). P may have additional nodes
    // that do not correspond to any nodes in G, but this does not matter.
    P->setPosesInCorrespNodes(G);
    // Similarly, P now holds the full set of constraints that we want to keep, so we can ask it to set
    // those into G as well.
    G.clearAllConstraints();
    core->setCorrespondingConstraints(G);
    P->setCorrespondingConstraints(G);
    // Set extra gap for boundary constraints.
    G.getSepMatrix().setExtraBdryGap(IEL/2.0);

    // Final connector routing.
    G.clearAllRoutes();

    if (chains.size() > 0) {
        // If we used Chains, then there may be AestheticBends that were set as route points for certain
        // connectors. For these we made Nodes and added them to the core graph. We then made GhostNodes of
        // these, in the planar graph P. In subsequent layout of P, the positions of these GhostNodes were updated.
        // However, the Chains themselves still retain pointers not to these GhostNodes, but to the original
        // AestheticBend nodes that were added to the core graph. Therefore before we can ask the Chains to add
        // these route points into the Edges of the original Graph G, we must ask P to update their positions.
        P->setPosesInCorrespNodes(*core);
        for (Chain_SP ch : chains) ch->addAestheticBendsToEdges();
        G.buildRoutes();
    }
    // Set up a routing adapter.
    RoutingAdapter ra(Avoid::OrthogonalRouting);
    ra.router.setRoutingOption(Avoid::nudgeOrthogonalSegmentsConnectedToShapes, true);
    ra.router.setRoutingOption(Avoid::nudgeSharedPathsWithCommonEndPoint, true);
    ra.router.setRoutingParameter(Avoid::crossingPenalty, 2*IEL);
    ra.router.setRoutingParameter(Avoid::segmentPenalty, IEL/2.0);
    ra.router.setRoutingParameter(Avoid::idealNudgingDistance, holaOpts.routingAbs_nudgingDistance);
    // Ask the core graph to add its nodes, and just those edges that do not have any bend nodes.
    // After asking G to clear all routes (remember G has the same Edges as core), these will be all and only
    // those Edges for which no Chain set any aesthetic bend.
    
    // Remove part of the node padding now, to ensure open channels for connector routing.
    double nodePaddingLayer1 = 2*preRoutingGapIELScalar*nodePadding;
    double nodePaddingLayer2 = nodePadding - nodePaddingLayer1;
    // mirrors /repo fix 4acc262: only the nodes of the given graph were padded
    for (auto p : core->getNodeLookup()) {
        if (G.hasNode(p.first)) p.second->addPadding(-nodePaddingLayer1, -nodePaddingLayer1);
    }
    
    core->addBendlessSubnetworkToRoutingAdapter(ra);
    // Ask each Tree to add its network to the router.
    for (Tree_SP tree : trees) {
        tree->underlyingGraph()->padAllNodes(-nodePaddingLayer1, -nodePaddingLayer1);
        tree->padCorrespNonRootNodes(G, -nodePaddingLayer1, -nodePaddingLayer1);
        tree->addNetworkToRoutingAdapter(ra, holaOpts.peeledTreeRouting, core);
    }
    // Do the routing.
    ra.route();
    // Again, since the Edges of core also belong to G, those routes are already set in the original graph G.
    // However the Edges of the Trees are new ones that were never in G. So we need to set those routes.
    for (Tree_SP tree : trees) {
        tree->underlyingGraph()->setRoutesInCorrespEdges(G);
    }

    // Remove remaining node padding.
    G.padAllNodes(-nodePaddingLayer2, -nodePaddingLayer2);
    // ---- end of the copied statements; everything below only reads
    snap(*P, "P_final");
    snap(*core, "core_final");      // node positions of the core are stale by now except the aesthetic bends; its SepMatrix and
                                    // the leafless routes of the edges that are not edges of G are what matters
    for (Chain_SP ch : chains)
        for (AestheticBend_SP ab : ch->m_aestheticBends)
            printf("C B %d %d %d %d %d\n", outId(ab->edge->getSourceEnd()->id()), outId(ab->edge->getTargetEnd()->id()),
                   outId(ab->bendNode->id()), outId(ab->nbrNode1->id()), outId(ab->nbrNode2->id()));
    for (Tree_SP tree : trees) {
        printf("R %d", outId(tree->getRootNodeID()));
        for (auto &p : tree->underlyingGraph()->getNodeLookup()) printf(" %d", outId(p.first));
        printf("\n");
    }
}

int main(int argc, char **argv)
{
    bool trace = false;
    if (argc >= 2 && strcmp(argv[1], "--trace") == 0) { trace = true; --argc; ++argv; }    // no std::string here: see traceHOLA
    if (argc < 2) { fprintf(stderr, "usage: c14_hola [--trace] casefile\n"); return 2; }
    std::ifstream in(argv[1]);
    if (!in) { fprintf(stderr, "cannot open %s\n", argv[1]); return 2; }
    std::string first;
    std::getline(in, first);
    HolaOpts opts;
    if (first.size() < 1 || first[0] != 'O') { fprintf(stderr, "first line must start with O\n"); return 2; }
    {
        std::istringstream is(first.substr(1));
        std::string kv;
        while (is >> kv) {
            size_t e = kv.find('=');
            if (e == std::string::npos || !setOpt(opts, kv.substr(0, e), atof(kv.c_str() + e + 1))) {
                fprintf(stderr, "bad option %s\n", kv.c_str());
                return 2;
            }
        }
    }
    std::stringstream rest;
    rest << in.rdbuf();
    std::string tglf = rest.str();
    Graph_SP g;
    try {
        g = buildGraphFromTglf(tglf);
    } catch (std::exception &e) {
        printf("EXC build: %s\n", e.what());
        return 0;
    } catch (...) {
        printf("EXC build: unknown\n");
        return 0;
    }
    std::map<id_type, int> ext;
    for (auto &p : g->getNodeLookup()) ext[p.first] = p.second->getExternalId();
    g_ext = ext;
    // the IEL exactly as doHOLA will compute it (hola.cpp:75; cached in m_iel, same value later)
    printf("P %.17g %.17g\n", opts.nodePaddingScalar, g->getIEL());
    for (auto &p : g->getNodeLookup()) {
        Avoid::Point c = p.second->getCentre();
        dimensions d = p.second->getDimensions();
        printf("B N %d %.17g %.17g %.17g %.17g\n", ext[p.first], c.x, c.y, d.first, d.second);
    }
    for (auto &p : g->getEdgeLookup()) {
        auto en = p.second->getEndIds();
        printf("B E %d %d\n", ext[en.first], ext[en.second]);
    }
    fflush(stdout);
    auto t1 = std::chrono::steady_clock::now();
    try {
        if (trace) traceHOLA(*g, opts); else doHOLA(*g, opts);
    } catch (std::exception &e) {
        std::string w = e.what();
        std::replace(w.begin(), w.end(), '\n', ' ');
        printf("EXC %s\n", w.c_str());
        return 0;
    } catch (vpsc::CriticalFailure &f) {
        // a failed COLA_ASSERT (the libraries are built with USE_ASSERT_EXCEPTIONS)
        std::string w = f.what();
        std::replace(w.begin(), w.end(), '\n', ' ');
        printf("EXC ASSERT %s\n", w.c_str());
        return 0;
    } catch (vpsc::UnsatisfiedConstraint &) {
        printf("EXC vpsc::UnsatisfiedConstraint escaped from doHOLA\n");
        return 0;
    } catch (vpsc::UnsatisfiableException &) {
        printf("EXC vpsc::UnsatisfiableException escaped from doHOLA\n");
        return 0;
    } catch (char *) {
        // solve_VPSC.cpp:326 throws (char*) of a destroyed temporary; the text is not read here
        printf("EXC char* thrown by vpsc::IncSolver::satisfy (unsatisfied constraint after solve) escaped from doHOLA\n");
        return 0;
    } catch (...) {
        printf("EXC unknown\n");
        return 0;
    }
    auto t2 = std::chrono::steady_clock::now();
    for (auto &p : g->getNodeLookup()) {
        Avoid::Point c = p.second->getCentre();
        dimensions d = p.second->getDimensions();
        int e = ext.count(p.first) ? ext[p.first] : -(int)p.first - 1000000;   // a node that was not there before
        printf("A N %d %.17g %.17g %.17g %.17g\n", e, c.x, c.y, d.first, d.second);
    }
    for (auto &p : g->getEdgeLookup()) {
        auto en = p.second->getEndIds();
        std::vector<Avoid::Point> r = p.second->getRoute();
        int a = ext.count(en.first) ? ext[en.first] : -(int)en.first - 1000000;
        int b = ext.count(en.second) ? ext[en.second] : -(int)en.second - 1000000;
        printf("A E %d %d %zu", a, b, r.size());
        for (auto &q : r) printf(" %.17g %.17g", q.x, q.y);
        printf("\n");
    }
    dumpSeps("A", g->getSepMatrix(), [&](id_type i) { return ext.count(i) ? ext[i] : -(int)i - 1000000; });
    printf("T %.3f\n", std::chrono::duration<double>(t2 - t1).count());
    if (trace) {
        for (auto &p : g->getEdgeLookup()) {
            Nodes bn = p.second->getBendNodes();
            if (bn.empty()) continue;
            auto en = p.second->getEndIds();
            printf("A B %d %d %zu", ext.count(en.first) ? ext[en.first] : -1, ext.count(en.second) ? ext[en.second] : -1, bn.size());
            for (auto &b : bn) { Avoid::Point c = b->getCentre(); printf(" %d %.17g %.17g", outId(b->id()), c.x, c.y); }
            printf("\n");
        }
    }
    return 0;
}
