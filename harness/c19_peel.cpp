// C19 harness: dialect::peel, Graph::getConnComps and Tree::symmetricLayout on graphs read from a file.
// Input:  "G <n> <peel 0|1>" starts a graph with nodes 0..n-1, "e a b" adds an edge; output per graph:
//   ## <k>
//   cc <comp>|<comp>...            components as sorted node lists, ordered by smallest node
//   core <nodes> ; <edges>         after peel (edges as a-b with a<b, sorted)
//   tree <root> ; <nodes> ; <edges>   one line per tree, sorted by root
//   sym <root> ok|DUP <detail>     symmetricLayout: no two nodes of the tree share a position (V only)
//   EXC <what>                     a COLA_ASSERT (built with USE_ASSERT_EXCEPTIONS) or other exception fired
// extract/c19_driver.ml prints the same lines (cc/core/tree) from the extracted Coq model.
#include <cstddef>
#include <cfloat>
#include <cmath>
#include <cstdio>
#include <cstdlib>
#include <string>
#include <vector>
#include <map>
#include <set>
#include <sstream>
#include <fstream>
#include <iostream>
#include <algorithm>
#include "libvpsc/assertions.h"
#include "libdialect/libdialect.h"
#include "libdialect/peeling.h"
#include "libdialect/trees.h"

using namespace dialect;
typedef std::pair<int, int> E;

static std::string join(const std::vector<int> &v)
{
    std::ostringstream ss;
    for (size_t i = 0; i < v.size(); i++) ss << (i ? "," : "") << v[i];
    return ss.str();
}
static std::string joinE(std::vector<E> v)
{
    for (auto &e : v) if (e.first > e.second) std::swap(e.first, e.second);
    std::sort(v.begin(), v.end());
    std::ostringstream ss;
    for (size_t i = 0; i < v.size(); i++) ss << (i ? "," : "") << v[i].first << "-" << v[i].second;
    return ss.str();
}

static void runGraph(int k, int n, bool doPeel, const std::vector<E> &edges)
{
    printf("## %d\n", k);
    fflush(stdout);
    try {
        Graph G;
        std::vector<Node_SP> nodes;
        std::map<id_type, int> ix;
        for (int i = 0; i < n; i++) {
            Node_SP u = Node::allocate(5, 5);
            nodes.push_back(u); G.addNode(u); ix[u->id()] = i;
            if (i > 0 && !(nodes[i - 1]->id() < u->id())) { puts("EXC node ids not increasing"); return; }
        }
        for (auto e : edges) G.addEdge(nodes[e.first], nodes[e.second]);
        // connected components
        {
            Graphs comps = G.getConnComps();
            std::vector<std::vector<int>> cs;
            for (Graph_SP c : comps) {
                std::vector<int> v;
                for (auto &p : c->getNodeLookup()) v.push_back(ix.at(p.first));
                std::sort(v.begin(), v.end());
                cs.push_back(v);
            }
            std::sort(cs.begin(), cs.end(), [](const std::vector<int> &a, const std::vector<int> &b) { return a[0] < b[0]; });
            std::string s;
            for (size_t i = 0; i < cs.size(); i++) s += (i ? "|" : "") + join(cs[i]);
            printf("cc %s\n", s.c_str());
            // edges of the component graphs: every edge must appear in exactly one component
            size_t ne = 0; for (Graph_SP c : comps) ne += c->getNumEdges();
            printf("ccedges %zu\n", ne);
        }
        if (!doPeel) return;
        Trees trees = peel(G);
        std::vector<int> cn; std::vector<E> ce;
        for (auto &p : G.getNodeLookup()) cn.push_back(ix.at(p.first));
        for (auto &p : G.getEdgeLookup()) { auto ends = p.second->getEndIds(); ce.push_back(E(ix.at(ends.first), ix.at(ends.second))); }
        std::sort(cn.begin(), cn.end());
        printf("core %s ; %s\n", join(cn).c_str(), joinE(ce).c_str());
        std::vector<std::pair<int, std::string>> tl;
        for (Tree_SP t : trees) {
            Graph_SP tg = t->underlyingGraph();
            std::vector<int> tn; std::vector<E> te;
            for (auto &p : tg->getNodeLookup()) tn.push_back(ix.at(p.first));
            for (auto &p : tg->getEdgeLookup()) { auto ends = p.second->getEndIds(); te.push_back(E(ix.at(ends.first), ix.at(ends.second))); }
            std::sort(tn.begin(), tn.end());
            int root = ix.at(t->getRootNodeID());
            tl.push_back({root, "tree " + std::to_string(root) + " ; " + join(tn) + " ; " + joinE(te)});
        }
        std::sort(tl.begin(), tl.end());
        for (auto &p : tl) puts(p.second.c_str());
        // symmetric layout (V only)
        static const CardinalDir dirs[4] = {CardinalDir::EAST, CardinalDir::SOUTH, CardinalDir::WEST, CardinalDir::NORTH};
        int di = k;
        for (Tree_SP t : trees) {
            int root = ix.at(t->getRootNodeID());
            try {
                t->symmetricLayout(dirs[(di++) % 4], 10.0, 40.0, (di & 4) != 0);
                std::map<std::pair<long, long>, int> at;
                std::string dup;
                for (auto &p : t->underlyingGraph()->getNodeLookup()) {
                    Avoid::Point c = p.second->getCentre();
                    if (!(std::isfinite(c.x) && std::isfinite(c.y))) { dup = "non-finite position of node " + std::to_string(ix.at(p.first)); break; }
                    auto key = std::make_pair(lround(c.x * 1000), lround(c.y * 1000));
                    if (at.count(key)) { dup = "nodes " + std::to_string(at[key]) + " and " + std::to_string(ix.at(p.first)) + " share a position"; break; }
                    at[key] = ix.at(p.first);
                }
                if (dup.empty()) printf("sym %d ok\n", root); else printf("sym %d DUP %s\n", root, dup.c_str());
            } catch (std::exception &e) { printf("sym %d EXC %s\n", root, e.what()); }
            catch (vpsc::CriticalFailure &e) { std::string w = e.what(); for (auto &c : w) if (c == '\n') c = ' '; printf("sym %d EXC %s\n", root, w.c_str()); }
        }
    } catch (std::exception &e) {
        std::string w = e.what();
        for (auto &c : w) if (c == '\n') c = ' ';
        printf("EXC %s\n", w.c_str());
    } catch (vpsc::CriticalFailure &e) {
        std::string w = e.what();
        for (auto &c : w) if (c == '\n') c = ' ';
        printf("EXC %s\n", w.c_str());
    } catch (...) {
        puts("EXC unknown");
    }
}

int main(int argc, char **argv)
{
    if (argc < 2) return 2;
    std::ifstream in(argv[1]);
    std::string line;
    int k = 0, n = -1; bool doPeel = false; std::vector<E> edges;
    while (std::getline(in, line)) {
        std::istringstream is(line);
        std::string op; is >> op;
        if (op == "G") {
            if (n >= 0) runGraph(k++, n, doPeel, edges);
            int p; is >> n >> p; doPeel = p != 0; edges.clear();
        } else if (op == "e") { int a, b; is >> a >> b; edges.push_back(E(a, b)); }
    }
    if (n >= 0) runGraph(k++, n, doPeel, edges);
    return 0;
}
