// C10 harness: orthogonal routing + nudging scenes through libavoid built from /repo's working tree, with hook H1
// (Avoid::verif_nudge_log, orthogonal.cpp, guarded by ADAPTAGRAMS_VERIF) switched on so that every nudging region
// (one VPSC problem) is dumped.  Scene language (one command per line, whitespace separated, numbers decimal):
//   R pen nudge buf fspp o0 o1 o2 o3 o4   new orthogonal router: segmentPenalty, idealNudgingDistance, shapeBufferDistance,
//                                         fixedSharedPathPenalty; options o0 nudgeOrthogonalSegmentsConnectedToShapes,
//                                         o1 nudgeOrthogonalTouchingColinearSegments, o2 performUnifyingNudgingPreprocessingStep,
//                                         o3 nudgeSharedPathsWithCommonEndPoint, o4 penaliseOrthogonalSharedPathsAtConnEnds
//   A id x0 y0 x1 y1                      rectangle ShapeRef(id)
//   N sid cls xoff yoff inside dirs       ShapeConnectionPin(shape sid, class cls, proportional offsets, insideOffset, visDirs)
//   C id <end> <end>                      ConnRef(id); <end> = P x y | D x y dirs | S sid cls
//   K id n x y ...                        setRoutingCheckpoints
//   F id n x y ...                        ConnRef(id) with ConnRef::setFixedRoute(the n given points) (a user-specified route:
//                                         never rerouted, but "still considered for the purpose of nudging", connector.h)
//   M sid dx dy                           moveShape(shape sid, dx, dy) (queued; takes effect at the next P)
//   P                                     processTransaction() and dump (may be given several times: later transactions)
//   X                                     delete router ("X" echoed)
// Output per P:
//   NUDGE-BEGIN / H1 records (see tools/hooks/H1.patch) / NUDGE-END
//   O id n x y ..   route()        D id n x y ..   displayRoute()      E id sx sy dx dy  (endpoint positions)
//   F ovl inv      existsOrthogonalSegmentOverlap(), existsInvalidOrthogonalPaths()
//   .
// An assertion failure (USE_ASSERT_EXCEPTIONS build) prints "EXC <what>" and skips to the next R.
// All numbers printed with %a (exact binary64).
#include <cstdio>
#include <cstdlib>
#include <cstring>
#include <cstddef>
#include <cfloat>
#include <map>
#include <list>
#include <vector>
#include <set>
#include <string>
#include <iostream>
#include <sstream>
#include "libavoid/libavoid.h"
#include "libvpsc/assertions.h"

namespace Avoid { extern FILE *verif_nudge_log; }   // hook H1

using namespace Avoid;

static void printPoly(const char *tag, unsigned id, const Polygon& p)
{
    printf("%s %u %zu", tag, id, p.size());
    for (size_t j = 0; j < p.size(); ++j) printf(" %a %a", p.ps[j].x, p.ps[j].y);
    printf("\n");
}

struct Scene {
    Router *r;
    std::map<int, ShapeRef *> shapes;
    std::map<int, ConnRef *> conns;
    Scene() : r(NULL) {}
};

static ConnEnd readEnd(std::istringstream& is, Scene& sc)
{
    std::string k; is >> k;
    if (k == "P") { double a, b; is >> a >> b; return ConnEnd(Point(a, b)); }
    if (k == "D") { double a, b; unsigned d; is >> a >> b >> d; return ConnEnd(Point(a, b), (ConnDirFlags) d); }
    int s; unsigned c; is >> s >> c; return ConnEnd(sc.shapes[s], c);
}

int main()
{
    Scene sc;
    std::string line;
    bool skip = false;
    while (std::getline(std::cin, line))
    {
        std::istringstream is(line);
        std::string cmd; is >> cmd;
        if (cmd.empty()) continue;
        if (cmd == "R")
        {
            skip = false;
            double pen, nd, buf, fspp; int o[5];
            is >> pen >> nd >> buf >> fspp >> o[0] >> o[1] >> o[2] >> o[3] >> o[4];
            sc = Scene();
            sc.r = new Router(OrthogonalRouting);
            sc.r->setRoutingParameter(segmentPenalty, pen);
            sc.r->setRoutingParameter(idealNudgingDistance, nd);
            sc.r->setRoutingParameter(shapeBufferDistance, buf);
            sc.r->setRoutingParameter(fixedSharedPathPenalty, fspp);
            sc.r->setRoutingOption(nudgeOrthogonalSegmentsConnectedToShapes, o[0]);
            sc.r->setRoutingOption(nudgeOrthogonalTouchingColinearSegments, o[1]);
            sc.r->setRoutingOption(performUnifyingNudgingPreprocessingStep, o[2]);
            sc.r->setRoutingOption(nudgeSharedPathsWithCommonEndPoint, o[3]);
            sc.r->setRoutingOption(penaliseOrthogonalSharedPathsAtConnEnds, o[4]);
            continue;
        }
        if (skip && sc.r && cmd == "P")
        {
            // a later transaction of a scene whose earlier transaction threw: keep one record per P
            printf("NUDGE-BEGIN\nEXC skipped-after-exception\n");
            fflush(stdout);
        }
        if (skip || !sc.r) continue;
        try
        {
            if (cmd == "A")
            {
                int id; double x0, y0, x1, y1; is >> id >> x0 >> y0 >> x1 >> y1;
                Polygon p(4);
                p.ps[0] = Point(x1, y0); p.ps[1] = Point(x1, y1); p.ps[2] = Point(x0, y1); p.ps[3] = Point(x0, y0);
                sc.shapes[id] = new ShapeRef(sc.r, p, id);
            }
            else if (cmd == "N")
            {
                int sid; unsigned cls, dirs; double xo, yo, ins; is >> sid >> cls >> xo >> yo >> ins >> dirs;
                new ShapeConnectionPin(sc.shapes[sid], cls, xo, yo, true, ins, (ConnDirFlags) dirs);
            }
            else if (cmd == "C")
            {
                int id; is >> id;
                ConnEnd a = readEnd(is, sc);
                ConnEnd b = readEnd(is, sc);
                sc.conns[id] = new ConnRef(sc.r, a, b, id);
            }
            else if (cmd == "K")
            {
                int id, n; is >> id >> n;
                std::vector<Checkpoint> cps;
                for (int i = 0; i < n; ++i) { double x, y; is >> x >> y; cps.push_back(Checkpoint(Point(x, y))); }
                sc.conns[id]->setRoutingCheckpoints(cps);
            }
            else if (cmd == "F")
            {
                int id, n; is >> id >> n;
                PolyLine route(n);
                for (int i = 0; i < n; ++i) { double x, y; is >> x >> y; route.ps[i] = Point(x, y); }
                ConnRef *c = new ConnRef(sc.r, id);
                c->setRoutingType(ConnType_Orthogonal);
                c->setFixedRoute(route);
                sc.conns[id] = c;
            }
            else if (cmd == "M")
            {
                int sid; double dx, dy; is >> sid >> dx >> dy;
                sc.r->moveShape(sc.shapes[sid], dx, dy);
            }
            else if (cmd == "P")
            {
                printf("NUDGE-BEGIN\n");
                fflush(stdout);
                Avoid::verif_nudge_log = stdout;
                bool ret = sc.r->processTransaction();
                Avoid::verif_nudge_log = NULL;
                printf("NUDGE-END %d\n", (int) ret);
                for (std::map<int, ConnRef *>::iterator kv = sc.conns.begin(); kv != sc.conns.end(); ++kv)
                {
                    ConnRef *c = kv->second;
                    printPoly("O", kv->first, c->route());
                    printPoly("D", kv->first, c->displayRoute());
                    std::pair<ConnEnd, ConnEnd> ends = c->endpointConnEnds();
                    printf("E %d %a %a %a %a\n", kv->first, ends.first.position().x, ends.first.position().y,
                           ends.second.position().x, ends.second.position().y);
                }
                printf("F %d %d\n", (int) sc.r->existsOrthogonalSegmentOverlap(), (int) sc.r->existsInvalidOrthogonalPaths());
                printf(".\n");
            }
            else if (cmd == "X")
            {
                delete sc.r;
                sc.r = NULL;
                printf("X\n");
            }
        }
        catch (vpsc::CriticalFailure& f)
        {
            Avoid::verif_nudge_log = NULL;
            std::string w = f.what();
            for (size_t i = 0; i < w.size(); ++i) if (w[i] == '\n') w[i] = '|';
            printf("EXC ASSERT %s\n", w.c_str());
            skip = true;
        }
        catch (std::exception& e)
        {
            Avoid::verif_nudge_log = NULL;
            printf("EXC %s\n", e.what());
            skip = true;
        }
        catch (...)
        {
            Avoid::verif_nudge_log = NULL;
            // Avoid::AssertionException / vpsc exceptions do not derive from std::exception
            printf("EXC assertion-or-unknown\n");
            skip = true;
        }
        fflush(stdout);
    }
    return 0;
}
