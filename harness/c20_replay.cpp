// C20 replay harness (DESIGN 5.20): the same API calls repeated in one process, with unrelated allocation and
// computation in between, in translated / mirrored / permuted frames.  One command per stdin line:
//
//   J <k> <seed>                              unrelated work: allocate k blocks of pseudo-random sizes, free most of
//                                             them in scrambled order, keep the rest until the next J; also runs a
//                                             small unrelated router and VPSC instance so that library statics are touched
//   V <n> <m> (desired weight)*n (l r gap eq)*m     vpsc::IncSolver(vs,cs).solve(); prints positions (hex floats), the
//                                             unsatisfiable flag and the active flag of every constraint
//   S <mode> <n> <m> (desired weight)*n (l r gap)*m     the STATIC vpsc::Solver(vs,cs): mode 0 solve(), 1 satisfy(); prints positions
//                                             (hex floats) and the active flag of every constraint; "SX" when it throws
//   A <mode> <pen> <ns> (x0 y0 x1 y1)*ns <nc> (sx sy dx dy)*nc    libavoid: mode 0 polyline, 1 orthogonal; rectangles and
//                                             free connector ends; prints every raw route (hex floats)
//   P <seed> <k>                              cola::PseudoRandom(seed): k values of getNext()
//   C <mode> <p0..p8> <optmask> <ns> (x0 y0 x1 y1 pins)*ns <nc> (end end)*nc <ncl> (k (x y)*k)*ncl
//                                             libavoid under a full routing configuration: p0..p8 = every
//                                             Avoid::RoutingParameter in enum order (segmentPenalty, anglePenalty,
//                                             crossingPenalty, clusterCrossingPenalty, fixedSharedPathPenalty,
//                                             portDirectionPenalty, shapeBufferDistance, idealNudgingDistance,
//                                             reverseDirectionPenalty); bit i of optmask = Avoid::RoutingOption i (7 options);
//                                             pins: 0 = none, k in 1..24 = the four side-centre pins (class 1, outward
//                                             direction, not exclusive) created in the k-th permutation order;
//                                             end = "P x y dirs" (free end, ConnDirFlags) | "S i" (pin class 1 of shape i);
//                                             clusters = polygons.  Prints per connector the raw route() and displayRoute():
//                                             "C R k x y .. D k x y .. R .."; "CX <what>" when the library throws
//   R <third> <setb> <xb> <yb> <nf> f.. <n> (minX maxX minY maxY)*n     vpsc::removeoverlaps(rs, fixed, third); when setb=1 the
//                                             caller saves Rectangle::xBorder/yBorder, sets them to xb/yb and puts the saved
//                                             values back after the call.  NOTHING else is reset between commands: the statics
//                                             are whatever earlier calls left.  Prints the borders after the call and the rectangles
//   D <mode> <ns> (x0 y0 x1 y1 <np> (xoff yoff dirs cost)*np)*ns <nc> (end end)*nc <ncl> (k (x y)*k)*ncl
//                                             libavoid with the DEFAULT configuration: no setRoutingParameter / setRoutingOption call at all.
//                                             Every shape carries np connection pins of class 1 (proportional offsets, ConnDirFlags,
//                                             connection cost, not exclusive); ends and clusters as in C.  Prints like C ("D R k .. D k ..",
//                                             "DX <what>"), preceded by the fraction of non-zero bytes the Router's storage held before
//                                             construction ("D nz=<count>/<size> ...", informational token, dropped by the check)
//   M <pattern> <seed>                        unrelated allocation aimed at the Router object: malloc blocks of sizeof(Router) and nearby sizes,
//                                             fill them (pattern 0: 0xA5, 1: 0x00, 2: pseudo-random bytes, 3: doubles 100.0, 4: 0xFF, 5: doubles 1e6),
//                                             free them all
//   F <fill> [seed]                           from now on every block handed out by the global operator new is pre-filled (0: not at all =
//                                             the natural heap, 1: 0x00, 2: 0xA5, 3: 0xFF, 4: pseudo-random bytes, 5: doubles 100.0, 6: pseudo-random
//                                             plausible doubles 0.5 .. 1e6): a
//                                             deterministic stand-in for "whatever the recycled heap block held before"; the library's own
//                                             allocations included
// numbers are decimal strings (dyadic => exact).
#include <cstddef>
#include <cfloat>
#include <cstdio>
#include <cstdlib>
#include <cstring>
#include <vector>
#include <string>
#include <sstream>
#include <iostream>
#include <algorithm>
#include <set>
#include <map>
#include <list>
#include <cmath>
#include <cassert>
#include <exception>
#include <new>
#define private public
#include "libvpsc/rectangle.h"
#undef private
#include "libvpsc/variable.h"
#include "libvpsc/constraint.h"
#include "libvpsc/solve_VPSC.h"
#include "libvpsc/exceptions.h"
#include "libavoid/libavoid.h"
#include "libcola/pseudorandom.h"

static int g_fill = 0;
static unsigned long g_fs = 88172645463325252UL;
static void fill_block(void *p, size_t n)
{
    unsigned char *b = (unsigned char *) p;
    switch (g_fill) {
        case 1: memset(p, 0x00, n); break;
        case 2: memset(p, 0xA5, n); break;
        case 3: memset(p, 0xFF, n); break;
        case 4: for (size_t i = 0; i < n; i++) { g_fs ^= g_fs << 13; g_fs ^= g_fs >> 7; g_fs ^= g_fs << 17; b[i] = (unsigned char) (g_fs >> 24); } break;
        case 5: { double v = 100.0; for (size_t i = 0; i + 8 <= n; i += 8) memcpy(b + i, &v, 8); } break;
        case 6: { static const double vs[] = {0.5, 3.0, 100.0, 1e4, -50.0, 1.0, 1e6, 7.25};
                  for (size_t i = 0; i < n; i++) b[i] = 0x01;
                  for (size_t i = 0; i + 8 <= n; i += 8) { g_fs ^= g_fs << 13; g_fs ^= g_fs >> 7; g_fs ^= g_fs << 17; memcpy(b + i, &vs[(g_fs >> 20) & 7], 8); } } break;
        default: break;
    }
}
void *operator new(size_t n) { void *p = malloc(n ? n : 1); if (!p) throw std::bad_alloc(); if (g_fill) fill_block(p, n); return p; }
void *operator new[](size_t n) { void *p = malloc(n ? n : 1); if (!p) throw std::bad_alloc(); if (g_fill) fill_block(p, n); return p; }
void operator delete(void *p) noexcept { free(p); }
void operator delete[](void *p) noexcept { free(p); }

static std::vector<void*> g_kept;
static unsigned long g_s = 1;
static unsigned rnd() { g_s = g_s * 6364136223846793005UL + 1442695040888963407UL; return (unsigned)(g_s >> 33); }

static double num(std::istream &in) { std::string s; in >> s; return strtod(s.c_str(), 0); }

static void junk(int k, unsigned long seed)
{
    g_s = seed;
    for (size_t i = 0; i < g_kept.size(); i++) free(g_kept[i]);
    g_kept.clear();
    std::vector<void*> v;
    static const size_t sizes[] = {16, 24, 32, 40, 48, 56, 64, 72, 88, 104, 120, 136, 200, 400, 1000};
    for (int i = 0; i < k; i++) {
        void *p = malloc(sizes[rnd() % 15]);
        memset(p, 0xA5, 8);
        v.push_back(p);
    }
    for (size_t i = v.size(); i > 1; i--) std::swap(v[i - 1], v[rnd() % i]);
    for (size_t i = 0; i < v.size(); i++) { if (rnd() % 4) free(v[i]); else g_kept.push_back(v[i]); }
    // unrelated library work
    {
        vpsc::Variables vs; vpsc::Constraints cs;
        int n = 3 + rnd() % 4;
        bool extreme = rnd() % 2;   // same type, extreme settings: weights 1e-6 .. 1e6, scales, large gaps, equalities
        for (int i = 0; i < n; i++) vs.push_back(new vpsc::Variable(i, (double)(rnd() % 7) * (extreme ? 1e5 : 1), extreme ? (i % 2 ? 1e6 : 1e-6) : 1, extreme ? 1 + i % 3 : 1));
        for (int i = 0; i + 1 < n; i++) cs.push_back(new vpsc::Constraint(vs[i], vs[i + 1], (1 + rnd() % 3) * (extreme ? 1e4 : 1), extreme && i % 2));
        try { vpsc::IncSolver s(vs, cs); s.solve(); } catch (...) {}
        for (size_t i = 0; i < cs.size(); i++) delete cs[i];
        for (size_t i = 0; i < vs.size(); i++) delete vs[i];
    }
    {
        Avoid::Router *router = new Avoid::Router(rnd() % 2 ? Avoid::PolyLineRouting : Avoid::OrthogonalRouting);
        if (rnd() % 2) {
            // an object of the same type as the one under test, configured with extreme settings: every parameter large, every option on
            static const double big[9] = {500, 100, 10000, 100000, 1000, 1000, 8, 16, 1000};
            for (int i = 0; i < 9; i++) router->setRoutingParameter((Avoid::RoutingParameter) i, big[i] + rnd() % 3);
            for (int i = 0; i < 7; i++) router->setRoutingOption((Avoid::RoutingOption) i, true);
        }
        Avoid::Rectangle r(Avoid::Point(10, 10), Avoid::Point(20 + rnd() % 5, 20));
        new Avoid::ShapeRef(router, r);
        new Avoid::ConnRef(router, Avoid::ConnEnd(Avoid::Point(0, 15)), Avoid::ConnEnd(Avoid::Point(40, 15 + rnd() % 3)));
        router->processTransaction();
        delete router;
    }
}

int main()
{
    std::string line;
    while (std::getline(std::cin, line)) {
        if (line.empty()) continue;
        std::istringstream in(line);
        char tag; in >> tag;
        if (tag == 'J') {
            int k; unsigned long seed; in >> k >> seed;
            junk(k, seed);
            printf("J\n");
        } else if (tag == 'V') {
            int n, m; in >> n >> m;
            vpsc::Variables vs; vpsc::Constraints cs;
            for (int i = 0; i < n; i++) { double d = num(in), w = num(in); vs.push_back(new vpsc::Variable(i, d, w)); }
            for (int i = 0; i < m; i++) { int l, r; in >> l >> r; double g = num(in); int eq; in >> eq;
                                          cs.push_back(new vpsc::Constraint(vs[l], vs[r], g, eq != 0)); }
            int exc = 0;
            try { vpsc::IncSolver s(vs, cs); s.solve(); }
            catch (...) { exc = 1; }
            if (exc) printf("VX\n");
            else {
                printf("V");
                for (int i = 0; i < n; i++) printf(" %a", vs[i]->finalPosition);
                printf(" |");
                for (int i = 0; i < m; i++) printf(" %d", (int)cs[i]->unsatisfiable);
                printf(" |");   // Constraint::active after solve(): the forest the KKT certificate is computed from
                for (int i = 0; i < m; i++) printf(" %d", (int)cs[i]->active);
                printf("\n");
            }
            for (int i = 0; i < m; i++) delete cs[i];
            for (int i = 0; i < n; i++) delete vs[i];
        } else if (tag == 'S') {
            // S <mode> <n> <m> (desired weight)*n (l r gap)*m : the STATIC vpsc::Solver(vs,cs); mode 0 solve(), 1 satisfy().
            // Prints "S <positions (hex floats)> | <Constraint::active per constraint>", or "SX" when the library throws
            int mode, n, m; in >> mode >> n >> m;
            vpsc::Variables vs; vpsc::Constraints cs;
            for (int i = 0; i < n; i++) { double d = num(in), w = num(in); vs.push_back(new vpsc::Variable(i, d, w)); }
            for (int i = 0; i < m; i++) { int l, r; in >> l >> r; double g = num(in);
                                          cs.push_back(new vpsc::Constraint(vs[l], vs[r], g, false)); }
            int exc = 0;
            try { vpsc::Solver s(vs, cs); if (mode == 0) s.solve(); else s.satisfy(); }
            catch (...) { exc = 1; }
            if (exc) printf("SX\n");
            else {
                printf("S");
                for (int i = 0; i < n; i++) printf(" %a", vs[i]->finalPosition);
                printf(" |");
                for (int i = 0; i < m; i++) printf(" %d", (int)cs[i]->active);
                printf("\n");
            }
            for (int i = 0; i < m; i++) delete cs[i];
            for (int i = 0; i < n; i++) delete vs[i];
        } else if (tag == 'A') {
            int mode, ns, nc; in >> mode; double pen = num(in); in >> ns;
            Avoid::Router *router = new Avoid::Router(mode == 0 ? Avoid::PolyLineRouting : Avoid::OrthogonalRouting);
            router->setRoutingParameter(Avoid::segmentPenalty, pen);
            router->setRoutingParameter(Avoid::idealNudgingDistance, 0);
            router->setRoutingOption(Avoid::nudgeOrthogonalSegmentsConnectedToShapes, false);
            for (int i = 0; i < ns; i++) {
                double a = num(in), b = num(in), c = num(in), d = num(in);
                Avoid::Rectangle r(Avoid::Point(std::min(a, c), std::min(b, d)), Avoid::Point(std::max(a, c), std::max(b, d)));
                new Avoid::ShapeRef(router, r, i + 1);
            }
            in >> nc;
            std::vector<Avoid::ConnRef*> conns;
            for (int i = 0; i < nc; i++) {
                double a = num(in), b = num(in), c = num(in), d = num(in);
                conns.push_back(new Avoid::ConnRef(router, Avoid::ConnEnd(Avoid::Point(a, b)), Avoid::ConnEnd(Avoid::Point(c, d)), 1000 + i));
            }
            int exc = 0;
            try { router->processTransaction(); } catch (...) { exc = 1; }
            if (exc) printf("AX\n");
            else {
                printf("A");
                for (int i = 0; i < nc; i++) {
                    const Avoid::PolyLine &r = conns[i]->route();
                    printf(" %zu", r.size());
                    for (size_t j = 0; j < r.size(); j++) printf(" %a %a", r.ps[j].x, r.ps[j].y);
                }
                printf("\n");
            }
            delete router;
        } else if (tag == 'C') {
            int mode, ns, nc, ncl; unsigned optmask; double par[9];
            in >> mode;
            for (int i = 0; i < 9; i++) par[i] = num(in);
            in >> optmask >> ns;
            std::string what;
            int exc = 0;
            Avoid::Router *router = 0;
            std::vector<Avoid::ConnRef*> conns;
            try {
                router = new Avoid::Router(mode == 0 ? Avoid::PolyLineRouting : Avoid::OrthogonalRouting);
                for (int i = 0; i < 9; i++) router->setRoutingParameter((Avoid::RoutingParameter) i, par[i]);
                for (int i = 0; i < 7; i++) router->setRoutingOption((Avoid::RoutingOption) i, ((optmask >> i) & 1) != 0);
                std::vector<Avoid::ShapeRef*> shapes;
                static const int P4[24][4] = {{0,1,2,3},{0,1,3,2},{0,2,1,3},{0,2,3,1},{0,3,1,2},{0,3,2,1},{1,0,2,3},{1,0,3,2},{1,2,0,3},{1,2,3,0},{1,3,0,2},{1,3,2,0},
                                              {2,0,1,3},{2,0,3,1},{2,1,0,3},{2,1,3,0},{2,3,0,1},{2,3,1,0},{3,0,1,2},{3,0,2,1},{3,1,0,2},{3,1,2,0},{3,2,0,1},{3,2,1,0}};
                for (int i = 0; i < ns; i++) {
                    double a = num(in), b = num(in), c = num(in), d = num(in); int pins; in >> pins;
                    Avoid::Rectangle r(Avoid::Point(std::min(a, c), std::min(b, d)), Avoid::Point(std::max(a, c), std::max(b, d)));
                    Avoid::ShapeRef *sh = new Avoid::ShapeRef(router, r, i + 1);
                    shapes.push_back(sh);
                    if (pins >= 1 && pins <= 24) {
                        for (int q = 0; q < 4; q++) {
                            int w = P4[pins - 1][q];
                            Avoid::ShapeConnectionPin *pin = 0;
                            if (w == 0) pin = new Avoid::ShapeConnectionPin(sh, 1, Avoid::ATTACH_POS_CENTRE, Avoid::ATTACH_POS_TOP, true, 0.0, Avoid::ConnDirUp);
                            if (w == 1) pin = new Avoid::ShapeConnectionPin(sh, 1, Avoid::ATTACH_POS_CENTRE, Avoid::ATTACH_POS_BOTTOM, true, 0.0, Avoid::ConnDirDown);
                            if (w == 2) pin = new Avoid::ShapeConnectionPin(sh, 1, Avoid::ATTACH_POS_LEFT, Avoid::ATTACH_POS_CENTRE, true, 0.0, Avoid::ConnDirLeft);
                            if (w == 3) pin = new Avoid::ShapeConnectionPin(sh, 1, Avoid::ATTACH_POS_RIGHT, Avoid::ATTACH_POS_CENTRE, true, 0.0, Avoid::ConnDirRight);
                            pin->setExclusive(false);
                        }
                    }
                }
                in >> nc;
                for (int i = 0; i < nc; i++) {
                    Avoid::ConnEnd ends[2];
                    for (int e = 0; e < 2; e++) {
                        std::string t; in >> t;
                        if (t == "P") { double a = num(in), b = num(in); unsigned dirs; in >> dirs; ends[e] = Avoid::ConnEnd(Avoid::Point(a, b), (Avoid::ConnDirFlags) dirs); }
                        else { int si; in >> si; ends[e] = Avoid::ConnEnd(shapes.at(si), 1); }
                    }
                    conns.push_back(new Avoid::ConnRef(router, ends[0], ends[1], 1000 + i));
                }
                ncl = 0; in >> ncl;
                for (int i = 0; i < ncl; i++) {
                    int k; in >> k;
                    Avoid::Polygon poly(k);
                    for (int j = 0; j < k; j++) { double a = num(in), b = num(in); poly.ps[j] = Avoid::Point(a, b); }
                    new Avoid::ClusterRef(router, poly, 500 + i);
                }
                router->processTransaction();
            }
            catch (vpsc::CriticalFailure &f) { exc = 1; std::ostringstream o; o << "assert:" << f.file << ":" << f.line << ":" << f.expr; what = o.str(); }
            catch (std::exception &e) { exc = 1; what = std::string("exception:") + e.what(); }
            catch (...) { exc = 1; what = "exception:unknown"; }
            if (exc) {
                // only the file name of an assertion site and no blanks, so that the line stays one token list
                size_t sl = what.rfind('/');
                if (what.compare(0, 7, "assert:") == 0 && sl != std::string::npos) what = "assert:" + what.substr(sl + 1);
                for (size_t i = 0; i < what.size(); i++) if (what[i] == ' ') what[i] = '_';
                printf("CX %s\n", what.c_str());
            } else {
                printf("C");
                for (size_t i = 0; i < conns.size(); i++) {
                    const Avoid::PolyLine &r = conns[i]->route();
                    printf(" R %zu", r.size());
                    for (size_t j = 0; j < r.size(); j++) printf(" %a %a", r.ps[j].x, r.ps[j].y);
                    const Avoid::PolyLine &d = conns[i]->displayRoute();
                    printf(" D %zu", d.size());
                    for (size_t j = 0; j < d.size(); j++) printf(" %a %a", d.ps[j].x, d.ps[j].y);
                }
                printf("\n");
            }
            if (!exc) delete router;     // after an escaped exception the router's state is undefined: leak it
        } else if (tag == 'F') {
            int f; in >> f; unsigned long seed = 0; in >> seed;
            g_fill = f; if (seed) g_fs = seed;
            printf("F %d\n", f);
        } else if (tag == 'M') {
            int pat; unsigned long seed; in >> pat >> seed;
            g_s = seed ? seed : 1;
            std::vector<void*> v;
            for (int rep = 0; rep < 3; rep++)
                for (long d = -64; d <= 64; d += 8) {
                    size_t sz = sizeof(Avoid::Router) + d;
                    unsigned char *b = (unsigned char *) malloc(sz);
                    double dv = pat == 3 ? 100.0 : 1e6;
                    for (size_t i = 0; i < sz; i++) b[i] = pat == 0 ? 0xA5 : pat == 1 ? 0x00 : pat == 2 ? (unsigned char) rnd() : pat == 4 ? 0xFF : 0;
                    if (pat == 3 || pat == 5) for (size_t i = 0; i + 8 <= sz; i += 8) memcpy(b + i, &dv, 8);
                    v.push_back(b);
                }
            for (size_t i = 0; i < v.size(); i++) free(v[i]);
            printf("M %zu\n", sizeof(Avoid::Router));
        } else if (tag == 'D') {
            int mode, ns, nc, ncl; in >> mode >> ns;
            std::string what; int exc = 0;
            Avoid::Router *router = 0;
            std::vector<Avoid::ConnRef*> conns;
            size_t nz = 0;
            try {
                // the storage operator new hands out for the Router, looked at before the constructor runs
                void *mem = operator new(sizeof(Avoid::Router));
                for (size_t i = 0; i < sizeof(Avoid::Router); i++) nz += ((unsigned char *) mem)[i] != 0;
                router = new (mem) Avoid::Router(mode == 0 ? Avoid::PolyLineRouting : Avoid::OrthogonalRouting);
                std::vector<Avoid::ShapeRef*> shapes;
                for (int i = 0; i < ns; i++) {
                    double a = num(in), b = num(in), c = num(in), d = num(in); int np; in >> np;
                    Avoid::Rectangle r(Avoid::Point(std::min(a, c), std::min(b, d)), Avoid::Point(std::max(a, c), std::max(b, d)));
                    Avoid::ShapeRef *sh = new Avoid::ShapeRef(router, r, i + 1);
                    shapes.push_back(sh);
                    for (int q = 0; q < np; q++) {
                        double xo = num(in), yo = num(in); unsigned dirs; in >> dirs; double cost = num(in);
                        Avoid::ShapeConnectionPin *pin = new Avoid::ShapeConnectionPin(sh, 1, xo, yo, true, 0.0, (Avoid::ConnDirFlags) dirs);
                        pin->setExclusive(false);
                        pin->setConnectionCost(cost);
                    }
                }
                in >> nc;
                for (int i = 0; i < nc; i++) {
                    Avoid::ConnEnd ends[2];
                    for (int e = 0; e < 2; e++) {
                        std::string t; in >> t;
                        if (t == "P") { double a = num(in), b = num(in); unsigned dirs; in >> dirs; ends[e] = Avoid::ConnEnd(Avoid::Point(a, b), (Avoid::ConnDirFlags) dirs); }
                        else { int si; in >> si; ends[e] = Avoid::ConnEnd(shapes.at(si), 1); }
                    }
                    conns.push_back(new Avoid::ConnRef(router, ends[0], ends[1], 1000 + i));
                }
                ncl = 0; in >> ncl;
                for (int i = 0; i < ncl; i++) {
                    int k; in >> k;
                    Avoid::Polygon poly(k);
                    for (int j = 0; j < k; j++) { double a = num(in), b = num(in); poly.ps[j] = Avoid::Point(a, b); }
                    new Avoid::ClusterRef(router, poly, 500 + i);
                }
                router->processTransaction();
            }
            catch (vpsc::CriticalFailure &f) { exc = 1; std::ostringstream o; o << "assert:" << f.file << ":" << f.line << ":" << f.expr; what = o.str(); }
            catch (std::exception &e) { exc = 1; what = std::string("exception:") + e.what(); }
            catch (...) { exc = 1; what = "exception:unknown"; }
            if (exc) {
                size_t sl = what.rfind('/');
                if (what.compare(0, 7, "assert:") == 0 && sl != std::string::npos) what = "assert:" + what.substr(sl + 1);
                for (size_t i = 0; i < what.size(); i++) if (what[i] == ' ') what[i] = '_';
                printf("DX %s\n", what.c_str());
            } else {
                printf("D nz=%zu/%zu", nz, sizeof(Avoid::Router));
                for (size_t i = 0; i < conns.size(); i++) {
                    const Avoid::PolyLine &r = conns[i]->route();
                    printf(" R %zu", r.size());
                    for (size_t j = 0; j < r.size(); j++) printf(" %a %a", r.ps[j].x, r.ps[j].y);
                    const Avoid::PolyLine &d = conns[i]->displayRoute();
                    printf(" D %zu", d.size());
                    for (size_t j = 0; j < d.size(); j++) printf(" %a %a", d.ps[j].x, d.ps[j].y);
                }
                printf("\n");
            }
            if (!exc) delete router;
        } else if (tag == 'R') {
            int third, setb, nf, n; in >> third >> setb; double xb = num(in), yb = num(in); in >> nf;
            std::set<unsigned> fixed;
            for (int i = 0; i < nf; i++) { unsigned f; in >> f; fixed.insert(f); }
            in >> n;
            vpsc::Rectangles rs;
            for (int i = 0; i < n; i++) { double a = num(in), b = num(in), c = num(in), d = num(in); rs.push_back(new vpsc::Rectangle(a, b, c, d)); }
            double ox = vpsc::Rectangle::xBorder, oy = vpsc::Rectangle::yBorder;
            if (setb) { vpsc::Rectangle::setXBorder(xb); vpsc::Rectangle::setYBorder(yb); }
            int exc = 0;
            try { vpsc::removeoverlaps(rs, fixed, third != 0); } catch (...) { exc = 1; }
            printf("R %d %a %a", exc, vpsc::Rectangle::xBorder, vpsc::Rectangle::yBorder);
            if (setb) { vpsc::Rectangle::setXBorder(ox); vpsc::Rectangle::setYBorder(oy); }
            for (int i = 0; i < n; i++) printf(" %a %a %a %a", rs[i]->minX, rs[i]->maxX, rs[i]->minY, rs[i]->maxY);
            printf("\n");
            for (int i = 0; i < n; i++) delete rs[i];
        } else if (tag == 'P') {
            // P <seed> <k>: cola::PseudoRandom(seed), k calls of getNext()
            double seed; int k; seed = num(in); in >> k;
            cola::PseudoRandom pr(seed);
            printf("P");
            for (int i = 0; i < k; i++) printf(" %a", pr.getNext());
            printf("\n");
        } else printf("? %s\n", line.c_str());
        fflush(stdout);
    }
    return 0;
}
