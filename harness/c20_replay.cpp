// C20 replay harness (DESIGN 5.20): the same API calls repeated in one process, with unrelated allocation and
// computation in between, in translated / mirrored / permuted frames.  One command per stdin line:
//
//   J <k> <seed>                              unrelated work: allocate k blocks of pseudo-random sizes, free most of
//                                             them in scrambled order, keep the rest until the next J; also runs a
//                                             small unrelated router and VPSC instance so that library statics are touched
//   V <n> <m> (desired weight)*n (l r gap eq)*m     vpsc::IncSolver(vs,cs).solve(); prints positions (hex floats), the
//                                             unsatisfiable flag and the active flag of every constraint
//   A <mode> <pen> <ns> (x0 y0 x1 y1)*ns <nc> (sx sy dx dy)*nc    libavoid: mode 0 polyline, 1 orthogonal; rectangles and
//                                             free connector ends; prints every raw route (hex floats)
//   P <seed> <k>                              cola::PseudoRandom(seed): k values of getNext()
// numbers are decimal strings (dyadic => exact).
#include <cstddef>
#include <cfloat>
#include <cstdio>
#include <cstdlib>
#include <cstring>
#include <vector>
#include <string>
#include <sstream>
#include <iostream>
#include <algorithm>
#include "libvpsc/rectangle.h"
#include "libvpsc/variable.h"
#include "libvpsc/constraint.h"
#include "libvpsc/solve_VPSC.h"
#include "libvpsc/exceptions.h"
#include "libavoid/libavoid.h"
#include "libcola/pseudorandom.h"

static std::vector<void*> g_kept;
static unsigned long g_s = 1;
static unsigned rnd() { g_s = g_s * 6364136223846793005UL + 1442695040888963407UL; return (unsigned)(g_s >> 33); }

static double num(std::istream &in) { std::string s; in >> s; return strtod(s.c_str(), 0); }

static void junk(int k, unsigned long seed)
{
    g_s = seed;
    for (size_t i = 0; i < g_kept.size(); i++) free(g_kept[i]);
    g_kept.clear();
    std::vector<void*> v;
    static const size_t sizes[] = {16, 24, 32, 40, 48, 56, 64, 72, 88, 104, 120, 136, 200, 400, 1000};
    for (int i = 0; i < k; i++) {
        void *p = malloc(sizes[rnd() % 15]);
        memset(p, 0xA5, 8);
        v.push_back(p);
    }
    for (size_t i = v.size(); i > 1; i--) std::swap(v[i - 1], v[rnd() % i]);
    for (size_t i = 0; i < v.size(); i++) { if (rnd() % 4) free(v[i]); else g_kept.push_back(v[i]); }
    // unrelated library work
    {
        vpsc::Variables vs; vpsc::Constraints cs;
        int n = 3 + rnd() % 4;
        for (int i = 0; i < n; i++) vs.push_back(new vpsc::Variable(i, (double)(rnd() % 7), 1));
        for (int i = 0; i + 1 < n; i++) cs.push_back(new vpsc::Constraint(vs[i], vs[i + 1], 1 + rnd() % 3));
        try { vpsc::IncSolver s(vs, cs); s.solve(); } catch (...) {}
        for (size_t i = 0; i < cs.size(); i++) delete cs[i];
        for (size_t i = 0; i < vs.size(); i++) delete vs[i];
    }
    {
        Avoid::Router *router = new Avoid::Router(rnd() % 2 ? Avoid::PolyLineRouting : Avoid::OrthogonalRouting);
        Avoid::Rectangle r(Avoid::Point(10, 10), Avoid::Point(20 + rnd() % 5, 20));
        new Avoid::ShapeRef(router, r);
        new Avoid::ConnRef(router, Avoid::ConnEnd(Avoid::Point(0, 15)), Avoid::ConnEnd(Avoid::Point(40, 15 + rnd() % 3)));
        router->processTransaction();
        delete router;
    }
}

int main()
{
    std::string line;
    while (std::getline(std::cin, line)) {
        if (line.empty()) continue;
        std::istringstream in(line);
        char tag; in >> tag;
        if (tag == 'J') {
            int k; unsigned long seed; in >> k >> seed;
            junk(k, seed);
            printf("J\n");
        } else if (tag == 'V') {
            int n, m; in >> n >> m;
            vpsc::Variables vs; vpsc::Constraints cs;
            for (int i = 0; i < n; i++) { double d = num(in), w = num(in); vs.push_back(new vpsc::Variable(i, d, w)); }
            for (int i = 0; i < m; i++) { int l, r; in >> l >> r; double g = num(in); int eq; in >> eq;
                                          cs.push_back(new vpsc::Constraint(vs[l], vs[r], g, eq != 0)); }
            int exc = 0;
            try { vpsc::IncSolver s(vs, cs); s.solve(); }
            catch (...) { exc = 1; }
            if (exc) printf("VX\n");
            else {
                printf("V");
                for (int i = 0; i < n; i++) printf(" %a", vs[i]->finalPosition);
                printf(" |");
                for (int i = 0; i < m; i++) printf(" %d", (int)cs[i]->unsatisfiable);
                printf(" |");   // Constraint::active after solve(): the forest the KKT certificate is computed from
                for (int i = 0; i < m; i++) printf(" %d", (int)cs[i]->active);
                printf("\n");
            }
            for (int i = 0; i < m; i++) delete cs[i];
            for (int i = 0; i < n; i++) delete vs[i];
        } else if (tag == 'A') {
            int mode, ns, nc; in >> mode; double pen = num(in); in >> ns;
            Avoid::Router *router = new Avoid::Router(mode == 0 ? Avoid::PolyLineRouting : Avoid::OrthogonalRouting);
            router->setRoutingParameter(Avoid::segmentPenalty, pen);
            router->setRoutingParameter(Avoid::idealNudgingDistance, 0);
            router->setRoutingOption(Avoid::nudgeOrthogonalSegmentsConnectedToShapes, false);
            for (int i = 0; i < ns; i++) {
                double a = num(in), b = num(in), c = num(in), d = num(in);
                Avoid::Rectangle r(Avoid::Point(std::min(a, c), std::min(b, d)), Avoid::Point(std::max(a, c), std::max(b, d)));
                new Avoid::ShapeRef(router, r, i + 1);
            }
            in >> nc;
            std::vector<Avoid::ConnRef*> conns;
            for (int i = 0; i < nc; i++) {
                double a = num(in), b = num(in), c = num(in), d = num(in);
                conns.push_back(new Avoid::ConnRef(router, Avoid::ConnEnd(Avoid::Point(a, b)), Avoid::ConnEnd(Avoid::Point(c, d)), 1000 + i));
            }
            int exc = 0;
            try { router->processTransaction(); } catch (...) { exc = 1; }
            if (exc) printf("AX\n");
            else {
                printf("A");
                for (int i = 0; i < nc; i++) {
                    const Avoid::PolyLine &r = conns[i]->route();
                    printf(" %zu", r.size());
                    for (size_t j = 0; j < r.size(); j++) printf(" %a %a", r.ps[j].x, r.ps[j].y);
                }
                printf("\n");
            }
            delete router;
        } else if (tag == 'P') {
            // P <seed> <k>: cola::PseudoRandom(seed), k calls of getNext()
            double seed; int k; seed = num(in); in >> k;
            cola::PseudoRandom pr(seed);
            printf("P");
            for (int i = 0; i < k; i++) printf(" %a", pr.getNext());
            printf("\n");
        } else printf("? %s\n", line.c_str());
        fflush(stdout);
    }
    return 0;
}
