// C08 harness (DESIGN 5.8).  One case per input line, whitespace separated integers, every real parameter is an
// integer k meaning k/16.
//
// gen:    n (x X y Y)*n
//         nexg (k id*k)*nexg              exemption groups for NonOverlapConstraintExemptions (nexg = -1: null pointer)
//         ncex (a b)*ncex                 cluster-cluster exemptions
//         nops op*nops                    1 id hw hh group kex ex*kex   -> addShape
//                                         2 id bx bX by bY mx mX my mY group knodes node*   -> addCluster (RectangularCluster with
//                                                                              clusterVarId=id, bounds, margin, nodes)
//         nv                              vs.size()
//         ncont (cv px pX py pY kmem mem*kmem kch (chVar mx mX my mY)*kch)*ncont     ClusterContainmentConstraints
//         nfix (cv ri)*nfix               fixed-rectangle clusters: RectangularCluster(ri) with clusterVarId = cv
//         prints per dimension:  "N OK m (l r gap)*" | "N ERR idx|other"   then per containment spec "C OK m (l r gap)*"
//                                then per fixed-rectangle spec "F OK m (l r gap [EQ])*": the vpsc constraints that the idle
//                                cola::SeparationConstraints pushed by generateFixedRectangleConstraints generate in that dimension
// layout: n (x X y Y)*n | nexg groups | ncl (parent rect px pX py pY mx mX my mY knodes node*)*ncl |
//         (rect >= 0: the cluster is RectangularCluster(rect), its boundary is that rectangle; rect = -1: RectangularCluster())
//         ncc (1 d l r g e | 2 d la ra g e | 3 d pos fixed k (s o)*k | 5 d sep k (a b)*k | 6 d sep e k (a b)*k)*ncc |
//         ne (u v)*ne ideal mode
//         mode 0 = makeFeasible()+run() with setAvoidNodeOverlaps(true, groups) (and the cluster hierarchy when ncl > 0)
//         prints  "R (cx cy w h)*n UX k idx* UY k idx* [EXC ...]"  or  "HANG <phase>"
//         optional trailing section (call-sequence family): ncalls (phase avoid nexg groups)*ncalls - the complete list of
//         setAvoidNodeOverlaps(avoid, groups) calls made on the layout object, phase 0 = before makeFeasible(), phase 1 = between
//         makeFeasible() and run(); when present it REPLACES the single default call setAvoidNodeOverlaps(true, groups)
// exempt: ku id*ku | ncalls (avoid nexg (k id*k)*nexg)*ncalls
//         drives a NonOverlapConstraintExemptions object directly (addExemptGroupOfNodes per call) and a ConstrainedFDLayout
//         object through setAvoidNodeOverlaps(avoid, groups); after every call prints shapePairIsExempt for every ordered pair of
//         distinct ids of the universe and the stored set (getExemptPairs() in iteration order):
//         "D (C m (a b)*m bits)*ncalls"  and  "L (C avoid m (a b)*m bits)*ncalls"
#include <cstddef>
#include <cfloat>
#include <cstdio>
#include <cstdlib>
#include <cstring>
#include <cmath>
#include <csignal>
#include <unistd.h>
#include <sys/time.h>
#include <vector>
#include <string>
#include <set>
#include <iostream>
#include <sstream>
#include <valarray>
#include <map>
#include <list>
#include <algorithm>
#include <utility>
#include <fstream>
#include <cassert>
#include <iomanip>
#include <typeinfo>
#include <stdexcept>
#include <memory>
#include <functional>
#include <limits>
#include <cmath>
// read access to ConstrainedFDLayout's private state for the `vars` mode (after the standard headers)
#define private public
#define protected public
#include <libvpsc/rectangle.h>
#include <libvpsc/variable.h>
#include <libvpsc/constraint.h>
#include <libvpsc/assertions.h>
#include <libcola/cola.h>
#include <libcola/cluster.h>
#include <libcola/compound_constraints.h>
#include <libcola/cc_nonoverlapconstraints.h>
#include <libcola/cc_clustercontainmentconstraints.h>
#include <libcola/exceptions.h>

using namespace cola;
using std::vector;

struct Toks {
    vector<long> t; size_t p;
    long next() { if (p >= t.size()) { throw std::string("short input"); } return t[p++]; }
    double q() { return next() / 16.0; }
};

static volatile const char *g_phase = "";
static int g_limit = 6;
static void onVtAlarm(int)
{
    const char *p = (const char *) g_phase;
    char buf[96]; int n = snprintf(buf, sizeof buf, "HANG %s\n", p);
    if (write(1, buf, n)) {}
    _exit(3);
}
static void armWatchdog(int secs)
{
    struct itimerval it; it.it_interval.tv_sec = 0; it.it_interval.tv_usec = 0; it.it_value.tv_sec = secs; it.it_value.tv_usec = 0;
    setitimer(ITIMER_VIRTUAL, &it, nullptr);
}

static void readRects(Toks &tk, vpsc::Rectangles &rs)
{
    int n = tk.next();
    for (int i = 0; i < n; i++) { double x = tk.q(), X = tk.q(), y = tk.q(), Y = tk.q(); rs.push_back(new vpsc::Rectangle(x, X, y, Y)); }
}
static bool readGroups(Toks &tk, ListOfNodeIndexes &groups)
{
    int nexg = tk.next();
    if (nexg < 0) return false;
    for (int g = 0; g < nexg; g++) { int k = tk.next(); NodeIndexes ids; for (int j = 0; j < k; j++) ids.push_back(tk.next()); groups.push_back(ids); }
    return true;
}

static void dumpCs(std::ostream &out, vpsc::Constraints &cs)
{
    char b[128];
    out << " " << cs.size();
    for (size_t i = 0; i < cs.size(); i++) {
        snprintf(b, sizeof b, " %d %d %.17g", cs[i]->left->id, cs[i]->right->id, cs[i]->gap);
        out << b;
        if (cs[i]->equality) out << " EQ";
    }
    for (size_t i = 0; i < cs.size(); i++) delete cs[i];
    cs.clear();
}

static void genMode(Toks &tk)
{
    vpsc::Rectangles rs; readRects(tk, rs);
    ListOfNodeIndexes groups; bool haveEx = readGroups(tk, groups);
    NonOverlapConstraintExemptions exemptions;
    if (haveEx) exemptions.addExemptGroupOfNodes(groups);
    std::set<ShapePair> cex;
    int ncex = tk.next();
    for (int i = 0; i < ncex; i++) { unsigned a = tk.next(), b = tk.next(); cex.insert(ShapePair(a, b)); }
    NonOverlapConstraints noc(haveEx ? &exemptions : nullptr);
    noc.setClusterClusterExemptions(cex);
    vector<RectangularCluster *> clusters;
    int nops = tk.next();
    for (int i = 0; i < nops; i++) {
        int code = tk.next();
        if (code == 1) {
            unsigned id = tk.next(); double hw = tk.q(), hh = tk.q(); unsigned group = tk.next();
            int k = tk.next(); std::set<unsigned> ex; for (int j = 0; j < k; j++) ex.insert(tk.next());
            noc.addShape(id, hw, hh, group, ex);
        } else {
            unsigned id = tk.next(); double bx = tk.q(), bX = tk.q(), by = tk.q(), bY = tk.q();
            double mx = tk.q(), mX = tk.q(), my = tk.q(), mY = tk.q(); unsigned group = tk.next();
            int k = tk.next();
            RectangularCluster *c = new RectangularCluster();
            c->clusterVarId = id; c->bounds = vpsc::Rectangle(bx, bX, by, bY); c->setMargin(Box(mx, mX, my, mY));
            for (int j = 0; j < k; j++) c->nodes.insert(tk.next());
            clusters.push_back(c);
            noc.addCluster(c, group);
        }
    }
    int nv = tk.next();
    // containment specs
    struct Cont { RectangularCluster *c; };
    vector<RectangularCluster *> conts;
    int ncont = tk.next();
    for (int i = 0; i < ncont; i++) {
        RectangularCluster *c = new RectangularCluster();
        c->clusterVarId = tk.next();
        double px = tk.q(), pX = tk.q(), py = tk.q(), pY = tk.q();
        c->setPadding(Box(px, pX, py, pY));
        int k = tk.next(); for (int j = 0; j < k; j++) c->nodes.insert(tk.next());
        int kch = tk.next();
        for (int j = 0; j < kch; j++) {
            RectangularCluster *ch = new RectangularCluster();
            ch->clusterVarId = tk.next();
            double mx = tk.q(), mX = tk.q(), my = tk.q(), mY = tk.q();
            ch->setMargin(Box(mx, mX, my, mY));
            c->addChildCluster(ch);
        }
        conts.push_back(c);
    }
    // fixed-rectangle specs (trailing section; absent in old case lines)
    vector<std::pair<unsigned, unsigned> > fixes;
    if (tk.p < tk.t.size()) {
        int nfix = tk.next();
        for (int i = 0; i < nfix; i++) { unsigned cv = tk.next(), ri = tk.next(); fixes.push_back(std::make_pair(cv, ri)); }
    }
    for (int dim = 0; dim < 2; dim++) {
        vpsc::Variables vs; vpsc::Constraints cs;
        for (int i = 0; i < nv; i++) vs.push_back(new vpsc::Variable(i, 0));
        std::ostringstream out;
        try {
            noc.generateSeparationConstraints((vpsc::Dim) dim, vs, cs, rs);
            out << "N OK"; dumpCs(out, cs);
        } catch (InvalidVariableIndexException &e) { out.str(""); out << "N ERR idx";
        } catch (...) { out.str(""); out << "N ERR other"; }
        for (size_t i = 0; i < cs.size(); i++) delete cs[i];
        cs.clear();
        std::cout << out.str() << "\n";
        // containment: variables up to the largest boundary variable
        for (size_t k = 0; k < conts.size(); k++) {
            std::ostringstream o2;
            vpsc::Variables v2; vpsc::Constraints c2;
            for (int i = 0; i < 64; i++) v2.push_back(new vpsc::Variable(i, 0));
            try {
                ClusterContainmentConstraints ccc(conts[k], 1, rs);
                ccc.generateVariables((vpsc::Dim) dim, v2);
                ccc.generateSeparationConstraints((vpsc::Dim) dim, v2, c2, rs);
                o2 << "C OK"; if (v2.size() != 64) o2 << " EXTRAVARS"; dumpCs(o2, c2);
            } catch (...) { o2.str(""); o2 << "C ERR other"; }
            for (size_t i = 0; i < c2.size(); i++) delete c2[i];
            for (size_t i = 0; i < v2.size(); i++) delete v2[i];
            std::cout << o2.str() << "\n";
        }
        // fixed-rectangle clusters: the idle constraints generateFixedRectangleConstraints pushes, expanded in this dimension
        for (size_t k = 0; k < fixes.size(); k++) {
            std::ostringstream o2;
            vpsc::Variables v2; vpsc::Constraints c2;
            for (int i = 0; i < 64; i++) v2.push_back(new vpsc::Variable(i, 0));
            CompoundConstraints idle;
            try {
                if (fixes[k].second >= rs.size()) throw std::string("rect index");
                RectangularCluster fc(fixes[k].second);
                fc.clusterVarId = fixes[k].first;
                vpsc::Variables dummy[2];
                fc.generateFixedRectangleConstraints(idle, rs, dummy);
                for (size_t i = 0; i < idle.size(); i++) idle[i]->generateVariables((vpsc::Dim) dim, v2);
                for (size_t i = 0; i < idle.size(); i++) idle[i]->generateSeparationConstraints((vpsc::Dim) dim, v2, c2, rs);
                o2 << "F OK"; if (v2.size() != 64) o2 << " EXTRAVARS"; dumpCs(o2, c2);
            } catch (...) { o2.str(""); o2 << "F ERR other"; }
            for (size_t i = 0; i < c2.size(); i++) delete c2[i];
            for (size_t i = 0; i < v2.size(); i++) delete v2[i];
            for (size_t i = 0; i < idle.size(); i++) delete idle[i];
            std::cout << o2.str() << "\n";
        }
        for (size_t i = 0; i < vs.size(); i++) delete vs[i];
    }
    for (size_t i = 0; i < clusters.size(); i++) delete clusters[i];
    for (size_t i = 0; i < conts.size(); i++) delete conts[i];
    for (size_t i = 0; i < rs.size(); i++) delete rs[i];
}

// user compound constraints (same syntax as harness/c07_cc.cpp for these codes; la, ra, a, b = positions of EARLIER
// AlignmentConstraints (code 3) in the list):
//   1 d l r g e | 2 d la ra g e | 3 d pos fixed k (s o)*k | 5 d sep k (a b)*k | 6 d sep e k (a b)*k
static AlignmentConstraint *alignAt(CompoundConstraints &ccs, long i)
{
    if (i < 0 || i >= (long) ccs.size()) throw std::string("alignment reference out of range");
    AlignmentConstraint *a = dynamic_cast<AlignmentConstraint *>(ccs[i]);
    if (!a) throw std::string("reference is not an alignment");
    return a;
}
static void readCcs(Toks &tk, CompoundConstraints &ccs)
{
    int ncc = tk.next();
    for (int i = 0; i < ncc; i++) {
        int code = tk.next();
        int d = tk.next();
        vpsc::Dim dim = d ? vpsc::YDIM : vpsc::XDIM;
        if (code == 1) {
            unsigned l = tk.next(), r = tk.next(); double g = tk.q(); int e = tk.next();
            ccs.push_back(new SeparationConstraint(dim, l, r, g, e != 0));
        } else if (code == 2) {
            long la = tk.next(), ra = tk.next(); double g = tk.q(); int e = tk.next();
            ccs.push_back(new SeparationConstraint(dim, alignAt(ccs, la), alignAt(ccs, ra), g, e != 0));
        } else if (code == 3) {
            double pos = tk.q(); int fx = tk.next(); int k = tk.next();
            AlignmentConstraint *ac = new AlignmentConstraint(dim, pos);
            if (fx) ac->fixPos(pos);
            for (int j = 0; j < k; j++) { unsigned s = tk.next(); double o = tk.q(); ac->addShape(s, o); }
            ccs.push_back(ac);
        } else if (code == 5) {
            double sep = tk.q(); int k = tk.next();
            DistributionConstraint *dc = new DistributionConstraint(dim); dc->setSeparation(sep);
            for (int j = 0; j < k; j++) { long a = tk.next(), b = tk.next(); dc->addAlignmentPair(alignAt(ccs, a), alignAt(ccs, b)); }
            ccs.push_back(dc);
        } else if (code == 6) {
            double sep = tk.q(); int e = tk.next(); int k = tk.next();
            MultiSeparationConstraint *mc = new MultiSeparationConstraint(dim, sep, e != 0);
            for (int j = 0; j < k; j++) { long a = tk.next(), b = tk.next(); mc->addAlignmentPair(alignAt(ccs, a), alignAt(ccs, b)); }
            ccs.push_back(mc);
        } else throw std::string("bad cc code");
    }
}

struct Scene {
    vpsc::Rectangles rs; int n; ListOfNodeIndexes groups; RootCluster *root; vector<Cluster *> cl; CompoundConstraints ccs;
    vector<std::pair<unsigned, unsigned> > es; double ideal; int mode;
    struct Call { int phase; bool avoid; ListOfNodeIndexes groups; };
    bool haveCalls; vector<Call> calls;
};
static void readScene(Toks &tk, Scene &sc)
{
    vpsc::Rectangles &rs = sc.rs;
    readRects(tk, rs);
    sc.n = rs.size();
    readGroups(tk, sc.groups);
    int ncl = tk.next();
    sc.root = nullptr;
    vector<Cluster *> &cl = sc.cl;
    RootCluster *&root = sc.root;
    if (ncl > 0) root = new RootCluster();
    for (int i = 0; i < ncl; i++) {
        int parent = tk.next();
        int rect = tk.next();
        if (rect >= (int) rs.size()) throw std::string("cluster rectangle index out of range");
        double px = tk.q(), pX = tk.q(), py = tk.q(), pY = tk.q(), mx = tk.q(), mX = tk.q(), my = tk.q(), mY = tk.q();
        RectangularCluster *c = rect >= 0 ? new RectangularCluster((unsigned) rect) : new RectangularCluster();
        c->setPadding(Box(px, pX, py, pY)); c->setMargin(Box(mx, mX, my, mY));
        int k = tk.next(); for (int j = 0; j < k; j++) c->addChildNode(tk.next());
        if (parent < 0) root->addChildCluster(c); else cl[parent]->addChildCluster(c);
        cl.push_back(c);
    }
    readCcs(tk, sc.ccs);
    int ne = tk.next();
    for (int i = 0; i < ne; i++) { unsigned u = tk.next(), v = tk.next(); sc.es.push_back(std::make_pair(u, v)); }
    sc.ideal = tk.q(); sc.mode = tk.next();
    sc.haveCalls = false;
    if (tk.p < tk.t.size()) {
        sc.haveCalls = true;
        int ncalls = tk.next();
        for (int i = 0; i < ncalls; i++) {
            Scene::Call c; c.phase = tk.next(); c.avoid = tk.next() != 0;
            readGroups(tk, c.groups);
            sc.calls.push_back(c);
        }
    }
}

// exempt mode: see the header comment
static void dumpExempt(std::ostream &out, NonOverlapConstraintExemptions &ex, const vector<unsigned> &U)
{
    std::set<ShapePair> st = ex.getExemptPairs();
    out << " " << st.size();
    for (std::set<ShapePair>::const_iterator it = st.begin(); it != st.end(); ++it) out << " " << it->index1() << " " << it->index2();
    out << " b";
    for (size_t i = 0; i < U.size(); i++) for (size_t j = 0; j < U.size(); j++) {
        if (U[i] == U[j]) continue;
        out << (ex.shapePairIsExempt(ShapePair(U[i], U[j])) ? '1' : '0');
    }
}
static void exemptMode(Toks &tk)
{
    int ku = tk.next();
    vector<unsigned> U; for (int i = 0; i < ku; i++) U.push_back(tk.next());
    int ncalls = tk.next();
    NonOverlapConstraintExemptions direct;
    vpsc::Rectangles rs; rs.push_back(new vpsc::Rectangle(0, 10, 0, 10)); rs.push_back(new vpsc::Rectangle(20, 30, 0, 10));
    vector<std::pair<unsigned, unsigned> > es; es.push_back(std::make_pair(0u, 1u));
    std::ostringstream d, l;
    {
        ConstrainedFDLayout alg(rs, es, 10);
        d << "D"; l << "L";
        for (int c = 0; c < ncalls; c++) {
            bool avoid = tk.next() != 0;
            ListOfNodeIndexes groups; readGroups(tk, groups);
            direct.addExemptGroupOfNodes(groups);
            alg.setAvoidNodeOverlaps(avoid, groups);
            d << " C"; dumpExempt(d, direct, U);
            l << " C " << (alg.m_generateNonOverlapConstraints ? 1 : 0); dumpExempt(l, *alg.m_nonoverlap_exemptions, U);
        }
    }
    std::cout << d.str() << "\n" << l.str() << "\n";
    for (size_t i = 0; i < rs.size(); i++) delete rs[i];
}

// vars: the variable list of each dimension exactly as run() builds it before a projection (colafd.cpp:316-324 then moveTo
// :1063-1092): generateNonOverlapAndClusterCompoundConstraints (numbers the cluster variables, creates the containment
// constraints that store these numbers), then setupVarsAndConstraints + the extra constraints.  Prints per dimension
//   V <nv> tag*            who created each variable: N<i> rectangle, C<k>-/C<k>+ boundary of cluster k (input order), R-/R+ root,
//                          A<j>.<m> m-th variable of user constraint j, ?<i> nobody we know
//   U <m> (ltag rtag gap eq)*   the user constraints' separation constraints
//   K <m> (ltag rtag gap)*      the separation constraints of all ClusterContainmentConstraints (stored ids -> run-time variables)
//   F <m> (ltag rtag gap eq)*   the separation constraints of the idle cola::SeparationConstraints among the extra constraints
//                               (only generateFixedRectangleConstraints creates such: fixed-rectangle clusters)
static void varsMode(Toks &tk)
{
    Scene sc; readScene(tk, sc);
    int n = sc.n;
    std::ostringstream out;
    try {
        ConstrainedFDLayout alg(sc.rs, sc.es, sc.ideal);
        alg.setConstraints(sc.ccs);
        alg.setAvoidNodeOverlaps(true, sc.groups);
        if (sc.root) alg.setClusterHierarchy(sc.root);
        vpsc::Variables v0[2];
        v0[0].resize(n); v0[1].resize(n);
        alg.generateNonOverlapAndClusterCompoundConstraints(v0);
        for (int d = 0; d < 2; d++) for (size_t i = n; i < v0[d].size(); i++) delete v0[d][i];
        for (int dim = 0; dim < 2; dim++) {
            vpsc::Variables vs; vpsc::Constraints cs;
            std::valarray<double> &coords = dim == 0 ? alg.X : alg.Y;
            setupVarsAndConstraints(n, alg.ccs, (vpsc::Dim) dim, alg.boundingBoxes, alg.clusterHierarchy, vs, cs, coords);
            size_t nUser = cs.size(), nvSetup = vs.size();
            for (size_t i = 0; i < alg.extraConstraints.size(); i++) alg.extraConstraints[i]->generateVariables((vpsc::Dim) dim, vs);
            // tags by object identity
            std::map<vpsc::Variable *, std::string> tag;
            char b[64];
            for (int i = 0; i < n; i++) { snprintf(b, sizeof b, "N%d", i); tag[vs[i]] = b; }
            for (size_t k = 0; k < sc.cl.size(); k++) {
                vpsc::Variable *lo = dim == 0 ? sc.cl[k]->vXMin : sc.cl[k]->vYMin, *hi = dim == 0 ? sc.cl[k]->vXMax : sc.cl[k]->vYMax;
                snprintf(b, sizeof b, "C%d-", (int) k); tag[lo] = b;
                snprintf(b, sizeof b, "C%d+", (int) k); tag[hi] = b;
            }
            if (sc.root && !sc.root->flat()) {
                tag[dim == 0 ? sc.root->vXMin : sc.root->vYMin] = "R-";
                tag[dim == 0 ? sc.root->vXMax : sc.root->vYMax] = "R+";
            }
            for (size_t j = 0; j < sc.ccs.size(); j++) {
                AlignmentConstraint *a = dynamic_cast<AlignmentConstraint *>(sc.ccs[j]);
                if (a && a->dimension() == (vpsc::Dim) dim && a->variable) { snprintf(b, sizeof b, "A%d.0", (int) j); tag[a->variable] = b; }
            }
            out << "V " << vs.size();
            for (size_t i = 0; i < vs.size(); i++) {
                if (tag.count(vs[i])) out << " " << tag[vs[i]]; else out << " ?" << i;
                if ((size_t) vs[i]->id != i) out << "!id";
            }
            if (vs.size() != nvSetup) out << " EXTRAVARS";
            out << "\n";
            out << "U " << nUser;
            for (size_t i = 0; i < nUser; i++) {
                snprintf(b, sizeof b, " %.17g %d", cs[i]->gap, (int) cs[i]->equality);
                out << " " << (tag.count(cs[i]->left) ? tag[cs[i]->left] : "?") << " " << (tag.count(cs[i]->right) ? tag[cs[i]->right] : "?") << b;
            }
            out << "\n";
            std::ostringstream ks; size_t nk = 0;
            for (size_t i = 0; i < alg.extraConstraints.size(); i++) {
                ClusterContainmentConstraints *ccc = dynamic_cast<ClusterContainmentConstraints *>(alg.extraConstraints[i]);
                if (!ccc) continue;
                vpsc::Constraints kc;
                ccc->generateSeparationConstraints((vpsc::Dim) dim, vs, kc, alg.boundingBoxes);
                for (size_t j = 0; j < kc.size(); j++) {
                    snprintf(b, sizeof b, " %.17g", kc[j]->gap);
                    ks << " " << (tag.count(kc[j]->left) ? tag[kc[j]->left] : "?") << " " << (tag.count(kc[j]->right) ? tag[kc[j]->right] : "?") << b;
                    nk++; delete kc[j];
                }
            }
            out << "K " << nk << ks.str() << "\n";
            std::ostringstream fs; size_t nf = 0;
            for (size_t i = 0; i < alg.extraConstraints.size(); i++) {
                SeparationConstraint *sc = dynamic_cast<SeparationConstraint *>(alg.extraConstraints[i]);
                if (!sc) continue;
                vpsc::Constraints kc;
                sc->generateSeparationConstraints((vpsc::Dim) dim, vs, kc, alg.boundingBoxes);
                for (size_t j = 0; j < kc.size(); j++) {
                    snprintf(b, sizeof b, " %.17g %d", kc[j]->gap, (int) kc[j]->equality);
                    fs << " " << (tag.count(kc[j]->left) ? tag[kc[j]->left] : "?") << " " << (tag.count(kc[j]->right) ? tag[kc[j]->right] : "?") << b;
                    nf++; delete kc[j];
                }
            }
            out << "F " << nf << fs.str() << "\n";
            for (size_t i = 0; i < cs.size(); i++) delete cs[i];
            for (size_t i = 0; i < vs.size(); i++) delete vs[i];
        }
        for (size_t i = 0; i < alg.extraConstraints.size(); i++) delete alg.extraConstraints[i];
        alg.extraConstraints.clear();
    } catch (InvalidVariableIndexException &e) { out.str(""); for (int k = 0; k < 8; k++) out << "ERR idx\n";
    } catch (vpsc::CriticalFailure &e) { out.str(""); for (int k = 0; k < 8; k++) out << "ERR assert\n";
    } catch (...) { out.str(""); for (int k = 0; k < 8; k++) out << "ERR other\n"; }
    std::cout << out.str();
    for (size_t i = 0; i < sc.ccs.size(); i++) delete sc.ccs[i];
    delete sc.root;
    for (size_t i = 0; i < sc.rs.size(); i++) delete sc.rs[i];
}

static void layoutMode(Toks &tk)
{
    Scene sc; readScene(tk, sc);
    vpsc::Rectangles &rs = sc.rs; int n = sc.n; ListOfNodeIndexes &groups = sc.groups; RootCluster *root = sc.root;
    CompoundConstraints &ccs = sc.ccs; vector<std::pair<unsigned, unsigned> > &es = sc.es; double ideal = sc.ideal; int mode = sc.mode;
    UnsatisfiableConstraintInfos ux, uy;
    std::string exc;
    armWatchdog(g_limit);
    try {
        ConstrainedFDLayout alg(rs, es, ideal);
        alg.setConstraints(ccs);
        if (!sc.haveCalls) alg.setAvoidNodeOverlaps(true, groups);
        for (size_t i = 0; i < sc.calls.size(); i++) if (sc.calls[i].phase == 0) alg.setAvoidNodeOverlaps(sc.calls[i].avoid, sc.calls[i].groups);
        if (root) alg.setClusterHierarchy(root);
        alg.setUnsatisfiableConstraintInfo(&ux, &uy);
        g_phase = "makeFeasible";
        if (mode == 0 || mode == 2) alg.makeFeasible();
        for (size_t i = 0; i < sc.calls.size(); i++) if (sc.calls[i].phase == 1) alg.setAvoidNodeOverlaps(sc.calls[i].avoid, sc.calls[i].groups);
        g_phase = "run";
        if (mode == 0 || mode == 1) alg.run();
    } catch (InvalidVariableIndexException &e) { exc = "InvalidVariableIndexException";
    } catch (InvalidConstraint &e) { exc = "InvalidConstraint";
    } catch (vpsc::CriticalFailure &e) { exc = std::string("CriticalFailure ") + e.what();
    } catch (char *s) { exc = "char* (thrown by vpsc::IncSolver::satisfy)";
    } catch (std::exception &e) { exc = std::string("std::exception ") + e.what();
    } catch (...) { exc = "unknown exception"; }
    armWatchdog(0);
    std::ostringstream out; char b[256];
    out << "R";
    for (int i = 0; i < n; i++) {
        snprintf(b, sizeof b, " %.17g %.17g %.17g %.17g", rs[i]->getCentreX(), rs[i]->getCentreY(), rs[i]->width(), rs[i]->height());
        out << b;
    }
    for (int d = 0; d < 2; d++) {
        UnsatisfiableConstraintInfos &u = d ? uy : ux;
        out << (d ? " UY " : " UX ") << u.size();
        for (size_t i = 0; i < u.size(); i++) {
            int idx = -1;
            for (size_t j = 0; j < ccs.size(); j++) if (ccs[j] == u[i]->cc) idx = j;
            out << " " << idx;
        }
    }
    if (!exc.empty()) { for (size_t i = 0; i < exc.size(); i++) if (exc[i] == '\n') exc[i] = ' '; out << " EXC " << exc; }
    std::cout << out.str() << "\n";
    for (size_t i = 0; i < ux.size(); i++) delete ux[i];
    for (size_t i = 0; i < uy.size(); i++) delete uy[i];
    for (size_t i = 0; i < ccs.size(); i++) delete ccs[i];
    delete root;
    for (size_t i = 0; i < rs.size(); i++) delete rs[i];
}

int main(int argc, char **argv)
{
    std::string mode = argc > 1 ? argv[1] : "gen";
    if (argc > 2) g_limit = atoi(argv[2]);
    signal(SIGVTALRM, onVtAlarm);
    std::string line;
    while (std::getline(std::cin, line)) {
        if (line.empty()) continue;
        Toks tk; tk.p = 0;
        std::istringstream is(line); std::string w;
        while (is >> w) { if (w == "|") continue; tk.t.push_back(atol(w.c_str())); }
        try {
            if (mode == "gen") genMode(tk); else if (mode == "vars") varsMode(tk); else if (mode == "exempt") exemptMode(tk); else layoutMode(tk);
        } catch (std::string &s) { std::cout << "BADINPUT " << s << "\n"; }
        std::cout.flush();
    }
    return 0;
}
