// C19 harness (V part): orthogonal routing + OrthoPlanariser::planarise on graphs with given node boxes.
// Pipeline of libdialect/tests/planarise01.cpp, planarise02.cpp and hola.cpp:209-220:
//     LeaflessOrthoRouter lor(G, opts); lor.route();   OrthoPlanariser op(G); P = op.planarise();
// Input:  "P <n> <router 0=LeaflessOrthoRouter 1=RoutingAdapter(OrthogonalRouting) 2=explicit routes> <bufferScalar*1000> [<rounds>]"
//         starts a graph with nodes 0..n-1, "n <i> <cx> <cy> <w> <h>" places node i, "e <a> <b>" adds an edge.
//         With router 0 every node needs degree >= 2 (the router asserts it).
//         rounds = 2: a SECOND round on the SAME Graph object (layout changed, re-route, re-planarise): "m <i> <cx> <cy>" = Node::setCentre
//         of node i before round 2; the edges are then routed again (router 0/1: a fresh router object of the same kind, which records the
//         routes with Edge::setRoute as in round 1; router 2: Edge::setRoute of the explicit routes "r <round> <edge index> <k> x1 y1 .. xk yk")
//         and a fresh OrthoPlanariser(G) planarises the same Graph again.  Round 2 output follows a line "ROUND 2" in the same format
//         (plus "O <i> <cx> <cy>": the node centres in force in round 2).
// Output per graph (node names: originals keep 0..n-1; nodes created by the planariser are n, n+1, ... in id order):
//   ## <k>
//   R <a> <b> <m> x1 y1 ... xm ym     the orthogonal route recorded in the edge a-b (input of the planariser)
//   N <name> <cx> <cy> <orig 0|1>     nodes of the planarised graph
//   E <name> <name>                   edges of the planarised graph (straight, centre to centre)
//   EXC-ROUTE <what>                  assertion/exception while ROUTING (libavoid; no routed graph, nothing to planarise)
//   EXC <what>                        assertion/exception in planarise()
//   CRASH <signal>                    the child process handling this graph died (each graph runs in a fork()ed child);
//                                     before any R line = while routing, after the R lines = in planarise()
// The verdict is given by the extracted verified checker planarise_ok (extract/c19_driver.ml, mode "plan").
#include <cstddef>
#include <cfloat>
#include <cmath>
#include <cstdio>
#include <cstdlib>
#include <string>
#include <vector>
#include <map>
#include <sstream>
#include <fstream>
#include <iostream>
#include <memory>
#include <unistd.h>
#include <sys/wait.h>
#include "libvpsc/assertions.h"
#include "libdialect/libdialect.h"
#include "libdialect/routing.h"
#include "libdialect/planarise.h"
#include "libdialect/opts.h"

using namespace dialect;
typedef std::pair<int, int> E;
struct NodeIn { double cx, cy, w, h; };
struct RouteIn { int round, edge; std::vector<Avoid::Point> pts; };
struct MoveIn { int node; double cx, cy; };
struct Extra { int rounds; std::vector<MoveIn> moves; std::vector<RouteIn> routes; Extra() : rounds(1) {} };

static void routeGraph(Graph_SP G, int routerKind, double bufScalar, int round, const std::vector<Edge_SP> &es, const Extra &x)
{
    HolaOpts opts;
    if (routerKind == 0) {
        LeaflessOrthoRouter lor(G, opts);
        if (bufScalar > 0) lor.setShapeBufferDistanceIELScalar(bufScalar);
        lor.route();
    } else if (routerKind == 1) {
        RoutingAdapter ra(Avoid::OrthogonalRouting);
        ra.router.setRoutingOption(Avoid::nudgeSharedPathsWithCommonEndPoint, false);
        ra.router.setRoutingParameter(Avoid::crossingPenalty, opts.routingScalar_crossingPenalty * G->getIEL());
        ra.router.setRoutingParameter(Avoid::segmentPenalty, opts.routingScalar_segmentPenalty * G->getIEL());
        if (bufScalar > 0) ra.router.setRoutingParameter(Avoid::shapeBufferDistance, bufScalar * G->getIEL());
        ra.addNodes(G->getNodeLookup());
        ra.addEdges(G->getEdgeLookup());
        ra.route(RouteProcessing::REFINE_AND_RECORD);
    } else {
        for (auto &r : x.routes) if (r.round == round && r.edge >= 0 && r.edge < (int) es.size()) es[r.edge]->setRoute(r.pts);
    }
}

static void planariseAndPrint(Graph_SP G, int n, const std::map<id_type, int> &name0)
{
    std::map<id_type, int> name(name0);
    OrthoPlanariser op(G);
    Graph_SP P = op.planarise();
    int next = n;
    for (auto &p : P->getNodeLookup()) if (!name.count(p.first)) name[p.first] = next++;
    for (auto &p : P->getNodeLookup()) {
        Avoid::Point c = p.second->getCentre();
        int nm = name.at(p.first);
        printf("N %d %.17g %.17g %d\n", nm, c.x, c.y, nm < n ? 1 : 0);
    }
    for (auto &p : P->getEdgeLookup()) {
        auto ends = p.second->getEndIds();
        printf("E %d %d\n", name.at(ends.first), name.at(ends.second));
    }
}

static void runGraph(int k, int n, int routerKind, double bufScalar, const std::vector<NodeIn> &ns, const std::vector<E> &edges, const Extra &x)
{
    printf("## %d\n", k);
    fflush(stdout);
    const char *stage = "EXC-ROUTE";
    try {
        Graph_SP G = std::make_shared<Graph>();
        std::vector<Node_SP> nodes;
        std::map<id_type, int> name;
        for (int i = 0; i < n; i++) {
            Node_SP u = G->addNode(ns[i].cx, ns[i].cy, ns[i].w, ns[i].h);
            nodes.push_back(u); name[u->id()] = i;
        }
        std::vector<Edge_SP> es;
        for (auto e : edges) es.push_back(G->addEdge(nodes[e.first], nodes[e.second]));
        for (int round = 1; round <= x.rounds; ++round) {
            stage = "EXC-ROUTE";
            if (round > 1) {
                printf("ROUND %d\n", round);
                for (auto &m : x.moves) if (m.node >= 0 && m.node < n) nodes[m.node]->setCentre(m.cx, m.cy);
                for (int i = 0; i < n; i++) { Avoid::Point c = nodes[i]->getCentre(); printf("O %d %.17g %.17g\n", i, c.x, c.y); }
            }
            routeGraph(G, routerKind, bufScalar, round, es, x);
            for (size_t i = 0; i < es.size(); i++) {
                std::vector<Avoid::Point> r = es[i]->getRoute();
                printf("R %d %d %zu", edges[i].first, edges[i].second, r.size());
                for (auto &p : r) printf(" %.17g %.17g", p.x, p.y);
                printf("\n");
            }
            fflush(stdout);
            stage = "EXC";
            planariseAndPrint(G, n, name);
            fflush(stdout);
        }
    } catch (std::exception &e) {
        std::string w = e.what();
        for (auto &c : w) if (c == '\n') c = ' ';
        printf("%s %s\n", stage, w.c_str());
    } catch (vpsc::CriticalFailure &e) {
        std::string w = e.what();
        for (auto &c : w) if (c == '\n') c = ' ';
        printf("%s %s\n", stage, w.c_str());
    } catch (...) {
        printf("%s unknown\n", stage);
    }
    fflush(stdout);
}

// run one graph in a child process so that a crash inside the libraries (e.g. SIGSEGV in libavoid's nudging) is
// reported for that graph only
static void runGraphForked(int k, int n, int routerKind, double bufScalar, const std::vector<NodeIn> &ns, const std::vector<E> &edges, const Extra &x)
{
    fflush(stdout);
    pid_t pid = fork();
    if (pid == 0) { runGraph(k, n, routerKind, bufScalar, ns, edges, x); fflush(stdout); _exit(0); }
    if (pid < 0) { runGraph(k, n, routerKind, bufScalar, ns, edges, x); return; }
    int status = 0;
    waitpid(pid, &status, 0);
    if (WIFSIGNALED(status)) printf("CRASH %d\n", WTERMSIG(status));
    else if (WIFEXITED(status) && WEXITSTATUS(status) != 0) printf("CRASH exit %d\n", WEXITSTATUS(status));
    fflush(stdout);
}

int main(int argc, char **argv)
{
    if (argc < 2) return 2;
    std::ifstream in(argv[1]);
    std::string line;
    int k = 0, n = -1, rk = 0; double buf = 0;
    std::vector<NodeIn> ns; std::vector<E> edges; Extra x;
    while (std::getline(in, line)) {
        std::istringstream is(line);
        std::string op; is >> op;
        if (op == "P") {
            if (n >= 0) runGraphForked(k++, n, rk, buf, ns, edges, x);
            int b; is >> n >> rk >> b; buf = b / 1000.0;
            x = Extra(); int rounds = 1; if (is >> rounds) x.rounds = rounds;
            ns.assign(n, NodeIn{0, 0, 30, 30}); edges.clear();
        } else if (op == "m") { MoveIn m; is >> m.node >> m.cx >> m.cy; x.moves.push_back(m); }
        else if (op == "r") {
            RouteIn r; size_t cnt = 0; is >> r.round >> r.edge >> cnt;
            for (size_t j = 0; j < cnt; j++) { double px, py; is >> px >> py; r.pts.push_back(Avoid::Point(px, py)); }
            x.routes.push_back(r);
        } else if (op == "n") { int i; NodeIn v; is >> i >> v.cx >> v.cy >> v.w >> v.h; if (i >= 0 && i < n) ns[i] = v; }
        else if (op == "e") { int a, b; is >> a >> b; edges.push_back(E(a, b)); }
    }
    if (n >= 0) runGraphForked(k++, n, rk, buf, ns, edges, x);
    return 0;
}
