// C07 harness (DESIGN 5.7).  Two modes, one case per input line (whitespace separated integers; every
// real parameter is an integer k meaning k/16, so all values are dyadic and exact in binary64):
//
//   n (x X y Y)*n  ncc  cc*ncc  [ne (u v)*ne ideal mode overlap neighbour]
//   cc:  1 d l r g e | 2 d la ra g e | 3 d pos fixed k (s o)*k | 4 d pos k (s o)*k | 5 d sep k (a b)*k
//        | 6 d sep e k (a b)*k | 7 fixedpos k id*k | 8 xlo xhi ylo yhi w k (s hx hy)*k
//        (la, ra, a, b = positions of AlignmentConstraints (code 3) in the cc list)
//
// gen:    for dim X and Y (fresh objects each): n variables, generateVariables on every cc in order, then
//         generateSeparationConstraints on every cc in order, as colafd.cpp:976-985 / compound_constraints.cpp:1456-1463;
//         prints  "OK <naux> (des weight fixed)* F <k> id* C <m> (l r gap eq)*"  or  "ERR idx|cons|other"
// layout: mode 0 = ConstrainedFDLayout makeFeasible()+run(), 1 = run(), 2 = makeFeasible(),
//         3 = ConstrainedMajorizationLayout::run();
//         single-axis runs of ConstrainedFDLayout: 4 = run(true,false), 5 = run(false,true), 6 = makeFeasible()+run(true,false),
//         7 = makeFeasible()+run(false,true), 8 = run(false,false), 9 = makeFeasible()+run(false,false);
//         mode+16 = the same with the private switch rungekutta off (the other branch of the do-while body; only reachable
//         through the private field, used for the control-flow correspondence).
//         prints final rectangles and the reported unsatisfiable constraints (index of the creating compound constraint in
//         the cc list, -1 if none of them), and for run() modes "TR <rk> <xAxis> <yAxis> <iterations> <s>": s has one letter per
//         projection set-up during run() in program order (x / y = CompoundConstraint::updatePosition(dim), the virtual that
//         moveTo() and applyForcesAndConstraints() both call once after their solve), observed by a constraint-free probe
//         compound constraint appended to the layout's constraint list just before run().
// seq:    family "constraint objects re-used across makeFeasible() calls".  The layout part of the line is followed by
//           nops op*   with op = 1 (makeFeasible() on the current layout object) | 2 xa ya (run(xa, ya) on it)
//                               | 3 (destroy the layout object, build a fresh ConstrainedFDLayout over the SAME rectangles and the
//                                    SAME CompoundConstraint objects) | 4 k (node cx cy)*k (Rectangle::moveCentre, absolute, k/16)
//         One set of constraint objects lives through the whole sequence.  Every user constraint is an observer subclass
//         Obs<T> of the real class T: the four virtuals of the sub-constraint cursor protocol log and then call T's own method.
//         Prints one line  "SEQ ncalls (CALL opindex M|R R <rects> UX.. UY.. SUB ncc (combine n cur0 cur1 flags log)*ncc [EXC text])*":
//         the state after EVERY call (the unsatisfiable lists are emptied before each call), and per constraint object
//         shouldCombineSubConstraints(), _subConstraintInfo.size(), the cursor before / after, the `satisfied` flags and the
//         events I (markAllSubConstraintsAsInactive) R0/R1 (subConstraintsRemaining -> result) G<k>
//         (getCurrSubConstraintAlternatives, cursor at k) M<k>:<0|1> (markCurrSubConstraintAsActive(b), cursor at k).
// cml:    family "one ConstrainedMajorizationLayout object, several run() calls, the constraint set changed in between" (seeded C07-7).
//         The layout part of the line is followed by  nops op*  with op = 1 v k idx*k (push_back cc objects idx.. onto client vector v = 0|1)
//           | 2 v (setConstraints(&vector v)) | 3 xa ya (run(xa, ya)) | 4 xa ya (runOnce(xa, ya)) | 5 (setAvoidOverlaps())
//           | 6 u (setUnsatisfiableConstraintInfo(&ux[u], &uy[u]), u = 0|1).  ONE layout object for the whole line; both pairs of lists are
//         emptied before every run.  Prints  "CML ncalls (CALL opindex R <rects> UX k idx* UY k idx* STALE k IN v m idx* [EXC text])*":
//         after EVERY run()/runOnce() the rectangles, the lists currently registered (indices into the cc list of the line), the number
//         of entries that appeared in the pair NOT registered, and the vector in force (v = -1: none) with its members in order.
#include <cstddef>
#include <cfloat>
#include <cstdio>
#include <cstdlib>
#include <cstring>
#include <cmath>
#include <vector>
#include <string>
#include <utility>
#include <set>
#include <iostream>
#include <sstream>
#include <csignal>
#include <unistd.h>
#include <sys/time.h>
#include <libvpsc/rectangle.h>
#include <libvpsc/variable.h>
#include <libvpsc/constraint.h>
#include <libvpsc/assertions.h>
#define private public          // read access: ConstrainedFDLayout::ccs, done, rungekutta (after the standard headers)
#include <libcola/cola.h>
#undef private
#include <libcola/compound_constraints.h>
#include <libcola/exceptions.h>

using namespace cola;
using std::vector;

struct Toks {
    vector<long> t; size_t p;
    bool more() const { return p < t.size(); }
    long next() { if (p >= t.size()) { throw std::string("short input"); } return t[p++]; }
    double q() { return next() / 16.0; }
};

struct CCSpec { int code; vector<long> a; vector<long> list; };   // raw parameters

struct Case {
    int n; vector<double> x, X, y, Y;
    vector<CCSpec> specs;
    vector<std::pair<unsigned, unsigned> > es; double ideal; int mode, overlap, neighbour;
    bool hasLayout;
    struct Op { int code; bool xa, ya; vector<long> mv; };
    vector<Op> ops;
};
static bool g_cmlOps = false;      // mode cml: the op list uses the cml op codes

static void parseCase(Toks &tk, Case &c)
{
    c.n = tk.next();
    for (int i = 0; i < c.n; i++) { c.x.push_back(tk.q()); c.X.push_back(tk.q()); c.y.push_back(tk.q()); c.Y.push_back(tk.q()); }
    int ncc = tk.next();
    for (int i = 0; i < ncc; i++) {
        CCSpec s; s.code = tk.next();
        int nfix = 0, per = 0;
        switch (s.code) {
            case 1: case 2: nfix = 5; per = -1; break;
            case 3: nfix = 3; per = 2; break;
            case 4: nfix = 2; per = 2; break;
            case 5: nfix = 2; per = 2; break;
            case 6: nfix = 3; per = 2; break;
            case 7: nfix = 1; per = 1; break;
            case 8: nfix = 5; per = 3; break;
            default: throw std::string("bad cc code");
        }
        for (int k = 0; k < nfix; k++) s.a.push_back(tk.next());
        if (per > 0) { int k = tk.next(); for (int j = 0; j < k * per; j++) s.list.push_back(tk.next()); }
        c.specs.push_back(s);
    }
    c.hasLayout = tk.more();
    if (c.hasLayout) {
        int ne = tk.next();
        for (int i = 0; i < ne; i++) { unsigned u = tk.next(), v = tk.next(); c.es.push_back(std::make_pair(u, v)); }
        c.ideal = tk.q(); c.mode = tk.next(); c.overlap = tk.next(); c.neighbour = tk.next();
        if (tk.more()) {
            int nops = tk.next();
            for (int i = 0; i < nops; i++) {
                Case::Op o; o.code = tk.next(); o.xa = o.ya = true;
                if (g_cmlOps) {
                    if (o.code == 1) { o.mv.push_back(tk.next()); int k = tk.next(); for (int j = 0; j < k; j++) o.mv.push_back(tk.next()); }
                    else if (o.code == 2 || o.code == 6) o.mv.push_back(tk.next());
                    else if (o.code == 3 || o.code == 4) { o.xa = tk.next() != 0; o.ya = tk.next() != 0; }
                    else if (o.code != 5) throw std::string("bad cml op code");
                    c.ops.push_back(o);
                    continue;
                }
                if (o.code == 2) { o.xa = tk.next() != 0; o.ya = tk.next() != 0; }
                else if (o.code == 4) { int k = tk.next(); for (int j = 0; j < 3 * k; j++) o.mv.push_back(tk.next()); }
                else if (o.code != 1 && o.code != 3) throw std::string("bad op code");
                c.ops.push_back(o);
            }
        }
    }
}

static vpsc::Dim D(long d) { return d ? vpsc::YDIM : vpsc::XDIM; }

// observer of the sub-constraint cursor protocol (mode seq): a subclass of the real constraint class whose four protocol
// virtuals log and delegate; reads the protected cursor / flags of its own base.
struct ObsBase {
    mutable std::string log;
    virtual ~ObsBase() {}
    virtual size_t obsCursor() const = 0;
    virtual size_t obsN() const = 0;
    virtual std::string obsFlags() const = 0;
    void add(const std::string &t) const { if (!log.empty()) log += ','; log += t; }
};
template <class B> struct Obs : public B, public ObsBase {
    template <typename... A> explicit Obs(A&&... a) : B(std::forward<A>(a)...) {}
    void markAllSubConstraintsAsInactive(void) { add("I"); B::markAllSubConstraintsAsInactive(); }
    bool subConstraintsRemaining(void) const { bool r = B::subConstraintsRemaining(); add(r ? "R1" : "R0"); return r; }
    SubConstraintAlternatives getCurrSubConstraintAlternatives(vpsc::Variables vs[])
    { add("G" + std::to_string(this->_currSubConstraintIndex)); return B::getCurrSubConstraintAlternatives(vs); }
    void markCurrSubConstraintAsActive(const bool satisfiable)
    { add("M" + std::to_string(this->_currSubConstraintIndex) + (satisfiable ? ":1" : ":0")); B::markCurrSubConstraintAsActive(satisfiable); }
    size_t obsCursor() const { return this->_currSubConstraintIndex; }
    size_t obsN() const { return this->_subConstraintInfo.size(); }
    std::string obsFlags() const
    { std::string f; for (size_t i = 0; i < this->_subConstraintInfo.size(); i++) f += (this->_subConstraintInfo[i]->satisfied ? '1' : '0'); return f.empty() ? "-" : f; }
};
template <class T, typename... A> static T *mk(bool observe, A&&... a)
{
    if (observe) return new Obs<T>(std::forward<A>(a)...);
    return new T(std::forward<A>(a)...);
}

// build the compound constraints through the public API.  Returns false if a reference is not an alignment.
static bool build(const Case &c, vpsc::Rectangles &rs, CompoundConstraints &ccs, bool observe = false)
{
    ccs.assign(c.specs.size(), nullptr);
    // alignments first (they are referenced by pointer), keeping list positions
    for (size_t i = 0; i < c.specs.size(); i++) {
        const CCSpec &s = c.specs[i];
        if (s.code == 3) {
            AlignmentConstraint *ac = mk<AlignmentConstraint>(observe, D(s.a[0]), s.a[1] / 16.0);
            if (s.a[2]) ac->fixPos(s.a[1] / 16.0);
            for (size_t j = 0; j + 1 < s.list.size(); j += 2) ac->addShape(s.list[j], s.list[j + 1] / 16.0);
            ccs[i] = ac;
        }
    }
    for (size_t i = 0; i < c.specs.size(); i++) {
        const CCSpec &s = c.specs[i];
        switch (s.code) {
            case 1: ccs[i] = mk<SeparationConstraint>(observe, D(s.a[0]), (unsigned) s.a[1], (unsigned) s.a[2], s.a[3] / 16.0, s.a[4] != 0); break;
            case 2: {
                if (s.a[1] >= (long) ccs.size() || s.a[2] >= (long) ccs.size()) return false;
                AlignmentConstraint *l = dynamic_cast<AlignmentConstraint *>(ccs[s.a[1]]);
                AlignmentConstraint *r = dynamic_cast<AlignmentConstraint *>(ccs[s.a[2]]);
                if (!l || !r || c.specs[s.a[1]].code != 3 || c.specs[s.a[2]].code != 3) return false;
                ccs[i] = mk<SeparationConstraint>(observe, D(s.a[0]), l, r, s.a[3] / 16.0, s.a[4] != 0); break; }
            case 3: break;
            case 4: { BoundaryConstraint *b = mk<BoundaryConstraint>(observe, D(s.a[0])); b->position = s.a[1] / 16.0;
                for (size_t j = 0; j + 1 < s.list.size(); j += 2) b->addShape(s.list[j], s.list[j + 1] / 16.0);
                ccs[i] = b; break; }
            case 5: { DistributionConstraint *d = mk<DistributionConstraint>(observe, D(s.a[0])); d->setSeparation(s.a[1] / 16.0);
                for (size_t j = 0; j + 1 < s.list.size(); j += 2) {
                    if (s.list[j] >= (long) ccs.size() || s.list[j + 1] >= (long) ccs.size()) return false;
                    AlignmentConstraint *l = dynamic_cast<AlignmentConstraint *>(ccs[s.list[j]]);
                    AlignmentConstraint *r = dynamic_cast<AlignmentConstraint *>(ccs[s.list[j + 1]]);
                    if (!l || !r || c.specs[s.list[j]].code != 3 || c.specs[s.list[j + 1]].code != 3) return false;
                    d->addAlignmentPair(l, r); }
                ccs[i] = d; break; }
            case 6: { MultiSeparationConstraint *m = mk<MultiSeparationConstraint>(observe, D(s.a[0]), s.a[1] / 16.0, s.a[2] != 0);
                for (size_t j = 0; j + 1 < s.list.size(); j += 2) {
                    if (s.list[j] >= (long) ccs.size() || s.list[j + 1] >= (long) ccs.size()) return false;
                    AlignmentConstraint *l = dynamic_cast<AlignmentConstraint *>(ccs[s.list[j]]);
                    AlignmentConstraint *r = dynamic_cast<AlignmentConstraint *>(ccs[s.list[j + 1]]);
                    if (!l || !r || c.specs[s.list[j]].code != 3 || c.specs[s.list[j + 1]].code != 3) return false;
                    m->addAlignmentPair(l, r); }
                ccs[i] = m; break; }
            case 7: { std::vector<unsigned> ids; for (size_t j = 0; j < s.list.size(); j++) ids.push_back(s.list[j]);
                ccs[i] = mk<FixedRelativeConstraint>(observe, rs, ids, s.a[0] != 0); break; }
            case 8: { PageBoundaryConstraints *p = mk<PageBoundaryConstraints>(observe, s.a[0] / 16.0, s.a[1] / 16.0, s.a[2] / 16.0, s.a[3] / 16.0, s.a[4] / 16.0);
                for (size_t j = 0; j + 2 < s.list.size(); j += 3) p->addShape(s.list[j], s.list[j + 1] / 16.0, s.list[j + 2] / 16.0);
                ccs[i] = p; break; }
        }
    }
    return true;
}

static void genMode(const Case &c)
{
    for (int dim = 0; dim < 2; dim++) {
        vpsc::Rectangles rs;
        for (int i = 0; i < c.n; i++) rs.push_back(new vpsc::Rectangle(c.x[i], c.X[i], c.y[i], c.Y[i]));
        CompoundConstraints ccs;
        vpsc::Variables vs; vpsc::Constraints cs;
        std::ostringstream out;
        try {
            if (!build(c, rs, ccs)) { out << "SKIP"; }
            else {
                for (int i = 0; i < c.n; i++) vs.push_back(new vpsc::Variable(i, dim == 0 ? rs[i]->getCentreX() : rs[i]->getCentreY()));
                for (size_t i = 0; i < ccs.size(); i++) ccs[i]->generateVariables((vpsc::Dim) dim, vs);
                for (size_t i = 0; i < ccs.size(); i++) ccs[i]->generateSeparationConstraints((vpsc::Dim) dim, vs, cs, rs);
                char b[128];
                out << "OK " << (vs.size() - c.n);
                for (size_t i = c.n; i < vs.size(); i++) {
                    snprintf(b, sizeof b, " %.17g %.17g %d", vs[i]->desiredPosition, vs[i]->weight, (int) vs[i]->fixedDesiredPosition);
                    out << b;
                    if ((size_t) vs[i]->id != i) out << " BADID";
                }
                std::vector<int> fx;
                for (int i = 0; i < c.n; i++) if (vs[i]->fixedDesiredPosition || vs[i]->weight != 1) {
                    if (!(vs[i]->fixedDesiredPosition && vs[i]->weight == 100000)) out << " BADFIX";
                    fx.push_back(i);
                }
                out << " F " << fx.size();
                for (size_t i = 0; i < fx.size(); i++) out << " " << fx[i];
                out << " C " << cs.size();
                for (size_t i = 0; i < cs.size(); i++) {
                    snprintf(b, sizeof b, " %d %d %.17g %d", cs[i]->left->id, cs[i]->right->id, cs[i]->gap, (int) cs[i]->equality);
                    out << b;
                    if (cs[i]->creator == nullptr) out << " NOCREATOR";
                }
            }
        } catch (InvalidVariableIndexException &e) { out.str(""); out << "ERR idx";
        } catch (InvalidConstraint &e) { out.str(""); out << "ERR cons";
        } catch (vpsc::CriticalFailure &e) { out.str(""); out << "ERR assert " << e.what();
        } catch (...) { out.str(""); out << "ERR other"; }
        std::cout << out.str() << "\n";
        for (size_t i = 0; i < cs.size(); i++) delete cs[i];
        for (size_t i = 0; i < vs.size(); i++) delete vs[i];
        for (size_t i = 0; i < ccs.size(); i++) delete ccs[i];
        for (size_t i = 0; i < rs.size(); i++) delete rs[i];
    }
}

// watchdog on process CPU time (robust against machine load): a layout call that burns more than LIMIT seconds of
// CPU is reported as "HANG <phase>" and the process exits (the driver restarts it for the remaining cases).
static volatile const char *g_phase = "";
static int g_limit = 6;
static void onVtAlarm(int)
{
    const char *p = (const char *) g_phase;
    char buf[96]; int n = snprintf(buf, sizeof buf, "HANG %s\n", p);
    if (write(1, buf, n)) {}
    _exit(3);
}
static void armWatchdog(int secs)
{
    struct itimerval it; it.it_interval.tv_sec = 0; it.it_interval.tv_usec = 0; it.it_value.tv_sec = secs; it.it_value.tv_usec = 0;
    setitimer(ITIMER_VIRTUAL, &it, nullptr);
}

// probe: generates no variables and no constraints; logs which dimension is being set up / written back
struct TraceProbe : public CompoundConstraint {
    std::string log;
    TraceProbe() : CompoundConstraint(vpsc::XDIM) {}
    void generateVariables(const vpsc::Dim, vpsc::Variables &) {}
    void generateSeparationConstraints(const vpsc::Dim, vpsc::Variables &, vpsc::Constraints &, vpsc::Rectangles &) {}
    void updatePosition(const vpsc::Dim dim) { log += (dim == vpsc::XDIM ? 'x' : 'y'); }
    std::string toString(void) const { return "TraceProbe()"; }
    SubConstraintAlternatives getCurrSubConstraintAlternatives(vpsc::Variables[]) { return SubConstraintAlternatives(); }
};

static void layoutMode(const Case &c)
{
    armWatchdog(g_limit);
    vpsc::Rectangles rs;
    for (int i = 0; i < c.n; i++) rs.push_back(new vpsc::Rectangle(c.x[i], c.X[i], c.y[i], c.Y[i]));
    CompoundConstraints ccs;
    UnsatisfiableConstraintInfos ux, uy;
    std::ostringstream out;
    std::string exc;
    const int base = c.mode & 15;
    const bool rkOff = (c.mode & 16) != 0;
    const bool doMF = (base == 0 || base == 2 || base == 6 || base == 7 || base == 9);
    const bool doRun = (base == 0 || base == 1 || (base >= 4 && base <= 9));
    const bool xAxis = (base == 0 || base == 1 || base == 4 || base == 6);
    const bool yAxis = (base == 0 || base == 1 || base == 5 || base == 7);
    TraceProbe probe;
    long iters = -1;
    try {
        if (!build(c, rs, ccs)) { std::cout << "SKIP\n"; return; }
        if (base == 3) {
            ConstrainedMajorizationLayout alg(rs, c.es, nullptr, c.ideal, StandardEdgeLengths, nullptr, nullptr, c.neighbour != 0);
            alg.setConstraints(&ccs);
            if (c.overlap) alg.setAvoidOverlaps(false);
            alg.setUnsatisfiableConstraintInfo(&ux, &uy);
            g_phase = "majorization-run";
            alg.run();
        } else {
            ConstrainedFDLayout alg(rs, c.es, c.ideal);
            alg.setConstraints(ccs);
            if (c.overlap) alg.setAvoidNodeOverlaps(true);
            if (c.neighbour) alg.setUseNeighbourStress(true);
            alg.setUnsatisfiableConstraintInfo(&ux, &uy);
            if (rkOff) alg.rungekutta = false;
            g_phase = "makeFeasible";
            if (doMF) alg.makeFeasible();
            g_phase = "run";
            if (doRun) {
                alg.ccs.push_back(&probe);            // after makeFeasible(): its search never sees the probe
                struct Pop { ConstrainedFDLayout &a; ~Pop() { a.ccs.pop_back(); } } pop = { alg };
                alg.run(xAxis, yAxis);
                iters = alg.done->iterations;
            }
        }
    } catch (InvalidVariableIndexException &e) { exc = "InvalidVariableIndexException";
    } catch (InvalidConstraint &e) { exc = "InvalidConstraint";
    } catch (vpsc::CriticalFailure &e) { exc = std::string("CriticalFailure ") + e.what();
    } catch (char *s) { exc = "char* (thrown by vpsc::IncSolver::satisfy; text not printed: it points into a destroyed temporary)";
    } catch (std::exception &e) { exc = std::string("std::exception ") + e.what();
    } catch (...) { exc = "unknown exception"; }
    armWatchdog(0);
    char b[256];
    out << "R";
    for (int i = 0; i < c.n; i++) {
        snprintf(b, sizeof b, " %.17g %.17g %.17g %.17g", rs[i]->getCentreX(), rs[i]->getCentreY(), rs[i]->width(), rs[i]->height());
        out << b;
    }
    for (int d = 0; d < 2; d++) {
        UnsatisfiableConstraintInfos &u = d ? uy : ux;
        out << (d ? " UY " : " UX ") << u.size();
        for (size_t i = 0; i < u.size(); i++) {
            int idx = -1;
            for (size_t j = 0; j < ccs.size(); j++) if (ccs[j] == u[i]->cc) idx = j;
            out << " " << idx;
        }
    }
    // actual page margins
    for (size_t j = 0; j < ccs.size(); j++) {
        PageBoundaryConstraints *p = dynamic_cast<PageBoundaryConstraints *>(ccs[j]);
        if (p) {
            snprintf(b, sizeof b, " PG %d %.17g %.17g %.17g %.17g", (int) j, p->getActualLeftMargin(vpsc::XDIM), p->getActualRightMargin(vpsc::XDIM),
                     p->getActualLeftMargin(vpsc::YDIM), p->getActualRightMargin(vpsc::YDIM));
            out << b;
        }
    }
    if (doRun && base != 3 && iters >= 0)
        out << " TR " << (rkOff ? 0 : 1) << " " << (int) xAxis << " " << (int) yAxis << " " << iters << " " << (probe.log.empty() ? "-" : probe.log);
    if (!exc.empty()) { for (size_t i = 0; i < exc.size(); i++) if (exc[i] == '\n') exc[i] = ' '; out << " EXC " << exc; }
    std::cout << out.str() << "\n";
    for (size_t i = 0; i < ux.size(); i++) delete ux[i];
    for (size_t i = 0; i < uy.size(); i++) delete uy[i];
    for (size_t i = 0; i < ccs.size(); i++) delete ccs[i];
    for (size_t i = 0; i < rs.size(); i++) delete rs[i];
}

// mode seq: one set of constraint objects through a sequence of makeFeasible() / run() calls, rectangle moves and fresh layout objects
static void seqMode(const Case &c)
{
    armWatchdog(g_limit);
    vpsc::Rectangles rs;
    for (int i = 0; i < c.n; i++) rs.push_back(new vpsc::Rectangle(c.x[i], c.X[i], c.y[i], c.Y[i]));
    CompoundConstraints ccs;
    UnsatisfiableConstraintInfos ux, uy;
    std::ostringstream out;
    ConstrainedFDLayout *alg = nullptr;
    int ncalls = 0;
    bool built = false;
    try { built = build(c, rs, ccs, true); } catch (...) { built = false; }
    if (!built) { std::cout << "SKIP\n"; armWatchdog(0); return; }
    struct Mk { static ConstrainedFDLayout *layout(const Case &c, vpsc::Rectangles &rs, CompoundConstraints &ccs,
                                                   UnsatisfiableConstraintInfos *ux, UnsatisfiableConstraintInfos *uy) {
        ConstrainedFDLayout *a = new ConstrainedFDLayout(rs, c.es, c.ideal);
        a->setConstraints(ccs);
        if (c.overlap) a->setAvoidNodeOverlaps(true);
        if (c.neighbour) a->setUseNeighbourStress(true);
        a->setUnsatisfiableConstraintInfo(ux, uy);
        return a; } };
    bool stop = false;
    for (size_t k = 0; k < c.ops.size() && !stop; k++) {
        const Case::Op &o = c.ops[k];
        std::string exc;
        try {
            if (o.code == 3 || alg == nullptr) {
                if (alg) { delete alg; alg = nullptr; }
                g_phase = "seq-construct";
                alg = Mk::layout(c, rs, ccs, &ux, &uy);
                if (o.code == 3) continue;
            }
            if (o.code == 4) {
                for (size_t j = 0; j + 2 < o.mv.size(); j += 3)
                    if (o.mv[j] >= 0 && o.mv[j] < c.n) rs[o.mv[j]]->moveCentre(o.mv[j + 1] / 16.0, o.mv[j + 2] / 16.0);
                continue;
            }
        } catch (...) { exc = "exception while constructing the layout object"; }
        // a call under test
        for (size_t i = 0; i < ux.size(); i++) delete ux[i];
        for (size_t i = 0; i < uy.size(); i++) delete uy[i];
        ux.clear(); uy.clear();
        vector<size_t> cur0(ccs.size(), 0);
        for (size_t j = 0; j < ccs.size(); j++) {
            ObsBase *ob = dynamic_cast<ObsBase *>(ccs[j]);
            if (ob) { ob->log.clear(); cur0[j] = ob->obsCursor(); }
        }
        if (exc.empty()) {
            try {
                if (o.code == 1) { g_phase = "seq-makeFeasible"; alg->makeFeasible(); }
                else { g_phase = "seq-run"; alg->run(o.xa, o.ya); }
            } catch (InvalidVariableIndexException &e) { exc = "InvalidVariableIndexException";
            } catch (InvalidConstraint &e) { exc = "InvalidConstraint";
            } catch (vpsc::CriticalFailure &e) { exc = std::string("CriticalFailure ") + e.what();
            } catch (char *s) { exc = "char* (thrown by vpsc::IncSolver::satisfy)";
            } catch (std::exception &e) { exc = std::string("std::exception ") + e.what();
            } catch (...) { exc = "unknown exception"; }
        }
        ncalls++;
        char b[256];
        out << " CALL " << k << (o.code == 1 ? " M" : " R") << " R";
        for (int i = 0; i < c.n; i++) {
            snprintf(b, sizeof b, " %.17g %.17g %.17g %.17g", rs[i]->getCentreX(), rs[i]->getCentreY(), rs[i]->width(), rs[i]->height());
            out << b;
        }
        for (int d = 0; d < 2; d++) {
            UnsatisfiableConstraintInfos &u = d ? uy : ux;
            out << (d ? " UY " : " UX ") << u.size();
            for (size_t i = 0; i < u.size(); i++) {
                int idx = -1;
                for (size_t j = 0; j < ccs.size(); j++) if (ccs[j] == u[i]->cc) idx = j;
                out << " " << idx;
            }
        }
        out << " SUB " << ccs.size();
        for (size_t j = 0; j < ccs.size(); j++) {
            ObsBase *ob = dynamic_cast<ObsBase *>(ccs[j]);
            if (!ob) { out << " ? 0 0 0 - -"; continue; }
            out << " " << (ccs[j]->shouldCombineSubConstraints() ? 1 : 0) << " " << ob->obsN() << " " << cur0[j] << " " << ob->obsCursor()
                << " " << ob->obsFlags() << " " << (ob->log.empty() ? "-" : ob->log);
        }
        if (!exc.empty()) {
            for (size_t i = 0; i < exc.size(); i++) if (exc[i] == '\n' || exc[i] == ' ') exc[i] = '_';
            out << " EXC " << exc;
            stop = true;
        }
    }
    armWatchdog(0);
    std::cout << "SEQ " << ncalls << out.str() << "\n";
    if (alg) delete alg;
    for (size_t i = 0; i < ux.size(); i++) delete ux[i];
    for (size_t i = 0; i < uy.size(); i++) delete uy[i];
    for (size_t i = 0; i < ccs.size(); i++) delete ccs[i];
    for (size_t i = 0; i < rs.size(); i++) delete rs[i];
}

// mode cml: one ConstrainedMajorizationLayout object through several run() calls with the constraint set changed in between
static void cmlMode(const Case &c)
{
    armWatchdog(g_limit);
    vpsc::Rectangles rs;
    for (int i = 0; i < c.n; i++) rs.push_back(new vpsc::Rectangle(c.x[i], c.X[i], c.y[i], c.Y[i]));
    CompoundConstraints ccs;
    CompoundConstraints vec[2];
    vector<int> members[2];
    UnsatisfiableConstraintInfos ux[2], uy[2];
    std::ostringstream out;
    int ncalls = 0, curV = -1, curU = 0;
    bool built = false;
    try { built = build(c, rs, ccs); } catch (...) { built = false; }
    if (!built) { std::cout << "SKIP\n"; armWatchdog(0); return; }
    for (size_t k = 0; k < c.ops.size(); k++) {
        const Case::Op &o = c.ops[k];
        if (o.code == 1) for (size_t j = 1; j < o.mv.size(); j++) if (o.mv[0] < 0 || o.mv[0] > 1 || o.mv[j] < 0 || o.mv[j] >= (long) ccs.size()) { built = false; }
        if ((o.code == 2 || o.code == 6) && (o.mv[0] < 0 || o.mv[0] > 1)) built = false;
    }
    if (!built) { std::cout << "SKIP\n"; armWatchdog(0); for (size_t i = 0; i < ccs.size(); i++) delete ccs[i]; for (size_t i = 0; i < rs.size(); i++) delete rs[i]; return; }
    ConstrainedMajorizationLayout *alg = nullptr;
    std::string exc;
    try {
        g_phase = "cml-construct";
        alg = new ConstrainedMajorizationLayout(rs, c.es, nullptr, c.ideal, StandardEdgeLengths, nullptr, nullptr, c.neighbour != 0);
        alg->setUnsatisfiableConstraintInfo(&ux[0], &uy[0]);
    } catch (...) { exc = "exception while constructing the layout object"; }
    bool stop = false;
    for (size_t k = 0; k < c.ops.size() && !stop; k++) {
        const Case::Op &o = c.ops[k];
        if (exc.empty()) {
            if (o.code == 1) { for (size_t j = 1; j < o.mv.size(); j++) { vec[o.mv[0]].push_back(ccs[o.mv[j]]); members[o.mv[0]].push_back((int) o.mv[j]); } continue; }
            if (o.code == 2) { alg->setConstraints(&vec[o.mv[0]]); curV = (int) o.mv[0]; continue; }
            if (o.code == 5) { alg->setAvoidOverlaps(false); continue; }
            if (o.code == 6) { curU = (int) o.mv[0]; alg->setUnsatisfiableConstraintInfo(&ux[curU], &uy[curU]); continue; }
        }
        for (int u = 0; u < 2; u++) {
            for (size_t i = 0; i < ux[u].size(); i++) delete ux[u][i];
            for (size_t i = 0; i < uy[u].size(); i++) delete uy[u][i];
            ux[u].clear(); uy[u].clear();
        }
        if (exc.empty()) {
            try {
                if (o.code == 3) { g_phase = "cml-run"; alg->run(o.xa, o.ya); }
                else { g_phase = "cml-runOnce"; alg->runOnce(o.xa, o.ya); }
            } catch (InvalidVariableIndexException &e) { exc = "InvalidVariableIndexException";
            } catch (InvalidConstraint &e) { exc = "InvalidConstraint";
            } catch (vpsc::CriticalFailure &e) { exc = std::string("CriticalFailure ") + e.what();
            } catch (char *s) { exc = "char* (thrown by vpsc::IncSolver::satisfy)";
            } catch (std::exception &e) { exc = std::string("std::exception ") + e.what();
            } catch (...) { exc = "unknown exception"; }
        }
        ncalls++;
        char b[256];
        out << " CALL " << k << " R";
        for (int i = 0; i < c.n; i++) {
            snprintf(b, sizeof b, " %.17g %.17g %.17g %.17g", rs[i]->getCentreX(), rs[i]->getCentreY(), rs[i]->width(), rs[i]->height());
            out << b;
        }
        for (int d = 0; d < 2; d++) {
            UnsatisfiableConstraintInfos &u = d ? uy[curU] : ux[curU];
            out << (d ? " UY " : " UX ") << u.size();
            for (size_t i = 0; i < u.size(); i++) {
                int idx = -1;
                for (size_t j = 0; j < ccs.size(); j++) if (ccs[j] == u[i]->cc) idx = j;
                out << " " << idx;
            }
        }
        out << " STALE " << (ux[1 - curU].size() + uy[1 - curU].size());
        out << " IN " << curV << " " << (curV < 0 ? 0 : members[curV].size());
        if (curV >= 0) for (size_t j = 0; j < members[curV].size(); j++) out << " " << members[curV][j];
        if (!exc.empty()) {
            for (size_t i = 0; i < exc.size(); i++) if (exc[i] == '\n' || exc[i] == ' ') exc[i] = '_';
            out << " EXC " << exc;
            stop = true;
        }
    }
    armWatchdog(0);
    std::cout << "CML " << ncalls << out.str() << "\n";
    if (alg) delete alg;
    for (int u = 0; u < 2; u++) {
        for (size_t i = 0; i < ux[u].size(); i++) delete ux[u][i];
        for (size_t i = 0; i < uy[u].size(); i++) delete uy[u][i];
    }
    for (size_t i = 0; i < ccs.size(); i++) delete ccs[i];
    for (size_t i = 0; i < rs.size(); i++) delete rs[i];
}

int main(int argc, char **argv)
{
    std::string mode = argc > 1 ? argv[1] : "gen";
    if (argc > 2) g_limit = atoi(argv[2]);
    signal(SIGVTALRM, onVtAlarm);
    g_cmlOps = (mode == "cml");
    std::string line;
    // libcola prints warnings on stderr; keep stdout for results only
    while (std::getline(std::cin, line)) {
        if (line.empty()) continue;
        Toks tk; tk.p = 0;
        std::istringstream is(line); long v;
        while (is >> v) tk.t.push_back(v);
        Case c;
        try { parseCase(tk, c); } catch (std::string &s) { std::cout << "BADINPUT " << s << "\n"; if (mode == "gen") std::cout << "BADINPUT\n"; continue; }
        if (mode == "gen") genMode(c); else if (mode == "seq") seqMode(c); else if (mode == "cml") cmlMode(c); else layoutMode(c);
        std::cout.flush();
    }
    return 0;
}
