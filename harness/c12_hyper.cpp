// C12 harness: hyperedge scenes (shapes with centre pins as terminals, junctions, connectors) through libavoid built from
// /repo's working tree with hyperedge rerouting / improvement; after every transaction prints the live junctions and
// connectors (live = present in the router and not queued for removal), each connector's attachments and displayRoute(),
// junction positions, shape boxes and the reported new/deleted object lists (resolved through a pointer->id snapshot
// taken before the transaction: deleted connectors are already freed).  Scene language: see checks/c12.py.
#include <list>
#include <vector>
#include <map>
#include <set>
#include <string>
#include <sstream>
#include <fstream>
#include <iostream>
#include <algorithm>
#include <cstdio>
#include <cstdlib>
#include <cmath>
#include <cstddef>
#include <cfloat>
#define private public
#define protected public
#include "libavoid/libavoid.h"
using namespace Avoid;
#ifdef HAVE_H2
// hook H2 (tools/hooks/H2.patch): structural-edit log of the hyperedge rerouter / improver, written between the
// transaction's own records as lines starting with "H2 " (they precede the TX record of the transaction they belong to)
namespace Avoid { extern FILE *verif_hyper_log; }
#endif

struct Scene {
    Router *r;
    std::vector<ShapeRef *> shapes;
    std::map<const void *, int> shapeIdx;
    std::vector<JunctionRef *> juncs;
    std::vector<ConnRef *> conns;
    size_t nreg;
    std::map<const void *, unsigned> knownC, knownJ;   // objects the client knows to be live
};

static double num(const std::string &s)
{
    size_t k = s.find('/');
    if (k == std::string::npos) return atof(s.c_str());
    return atof(s.substr(0, k).c_str()) / atof(s.substr(k + 1).c_str());
}

static ConnEnd readEnd(std::istringstream &is, Scene &sc)
{
    std::string k; is >> k;
    if (k == "S") { int s; unsigned c; is >> s >> c; return ConnEnd(sc.shapes[s], c); }
    if (k == "P") { std::string a, b; is >> a >> b; return ConnEnd(Point(num(a), num(b))); }
    int j; is >> j; return ConnEnd(sc.juncs[j]);
}

static bool queuedForRemoval(Router *r, JunctionRef *j)
{
    for (ActionInfoList::iterator a = r->actionList.begin(); a != r->actionList.end(); ++a)
        if (a->type == JunctionRemove && a->objPtr == j) return true;
    return false;
}

static void snapshot(Scene &sc, std::map<const void *, unsigned> &cs, std::map<const void *, unsigned> &js)
{
    cs.clear(); js.clear();
    for (ConnRefList::iterator i = sc.r->connRefs.begin(); i != sc.r->connRefs.end(); ++i) cs[*i] = (*i)->id();
    for (ObstacleList::iterator o = sc.r->m_obstacles.begin(); o != sc.r->m_obstacles.end(); ++o)
    {
        JunctionRef *j = dynamic_cast<JunctionRef *> (*o);
        if (j && !queuedForRemoval(sc.r, j)) js[j] = j->id();
    }
}

static void printList(const char *tag, const std::vector<long> &v)
{
    printf("%s", tag);
    for (size_t i = 0; i < v.size(); ++i) printf(" %ld", v[i]);
    printf("\n");
}

static void dump(Scene &sc, int tx, bool processed, std::map<const void *, unsigned> &cBefore,
        std::map<const void *, unsigned> &jBefore)
{
    printf("TX %d %d\n", tx, (int) processed);
    std::map<const void *, unsigned> cAfter, jAfter;
    snapshot(sc, cAfter, jAfter);
    std::vector<long> v;
    for (std::map<const void *, unsigned>::iterator i = cBefore.begin(); i != cBefore.end(); ++i) v.push_back(i->second);
    std::sort(v.begin(), v.end()); printList("CBEFORE", v); v.clear();
    for (std::map<const void *, unsigned>::iterator i = jBefore.begin(); i != jBefore.end(); ++i) v.push_back(i->second);
    std::sort(v.begin(), v.end()); printList("JBEFORE", v); v.clear();
    for (size_t s = 0; s < sc.shapes.size(); ++s)
    {
        Box bb = sc.shapes[s]->polygon().offsetBoundingBox(0.0);
        printf("SHAPEBOX %zu %.17g %.17g %.17g %.17g\n", s, bb.min.x, bb.min.y, bb.max.x, bb.max.y);
        for (ShapeConnectionPinSet::iterator p = sc.shapes[s]->m_connection_pins.begin();
                p != sc.shapes[s]->m_connection_pins.end(); ++p)
        {
            Point q = (*p)->position();
            printf("SHAPEPIN %zu %u %.17g %.17g\n", s, (*p)->m_class_id, q.x, q.y);
        }
    }
    for (ObstacleList::iterator o = sc.r->m_obstacles.begin(); o != sc.r->m_obstacles.end(); ++o)
    {
        JunctionRef *j = dynamic_cast<JunctionRef *> (*o);
        if (!j) continue;
        Point p = j->position(), rp = j->recommendedPosition();
        printf("JUNC %u %d %.17g %.17g %.17g %.17g\n", j->id(), (int) !queuedForRemoval(sc.r, j), p.x, p.y, rp.x, rp.y);
    }
    for (ConnRefList::iterator i = sc.r->connRefs.begin(); i != sc.r->connRefs.end(); ++i)
    {
        ConnRef *c = *i;
        std::pair<ConnEnd, ConnEnd> e = c->endpointConnEnds();
        printf("CONN %u", c->id());
        ConnEnd *ce[2] = { &e.first, &e.second };
        for (int s = 0; s < 2; ++s)
        {
            if (ce[s]->junction()) printf(" J %u", ce[s]->junction()->id());
            else if (ce[s]->shape()) printf(" S %d %u", sc.shapeIdx[ce[s]->shape()], ce[s]->pinClassId());
            else { Point p = ce[s]->position(); printf(" P %.17g %.17g", p.x, p.y); }
        }
        const PolyLine &rt = c->displayRoute();
        printf(" ROUTE %zu", rt.size());
        for (size_t k = 0; k < rt.size(); ++k) printf(" %.17g %.17g", rt.ps[k].x, rt.ps[k].y);
        printf("\n");
    }
    // reported lists (improver + every registered rerouting), resolved through the pointer snapshots
    std::vector<long> newC, delC, newJ, delJ;
    std::vector<HyperedgeNewAndDeletedObjectLists> lists;
    lists.push_back(sc.r->newAndDeletedObjectListsFromHyperedgeImprovement());
    for (size_t idx = 0; idx < sc.nreg && idx < sc.r->hyperedgeRerouter()->m_new_junctions_vector.size(); ++idx)
    {
        HyperedgeNewAndDeletedObjectLists l;
        l.newJunctionList = sc.r->hyperedgeRerouter()->m_new_junctions_vector[idx];
        l.newConnectorList = sc.r->hyperedgeRerouter()->m_new_connectors_vector[idx];
        if (idx < sc.r->hyperedgeRerouter()->m_deleted_junctions_vector.size())
        {
            l.deletedJunctionList = sc.r->hyperedgeRerouter()->m_deleted_junctions_vector[idx];
            l.deletedConnectorList = sc.r->hyperedgeRerouter()->m_deleted_connectors_vector[idx];
        }
        lists.push_back(l);
    }
    // connectors created and deleted inside the transaction are known to neither snapshot (and are freed): they get a
    // per-transaction token <= -10 so that they cancel between the new and the deleted list
    std::map<const void *, long> transient;
    for (size_t k = 0; k < lists.size(); ++k)
    {
        HyperedgeNewAndDeletedObjectLists &l = lists[k];
        for (ConnRefList::iterator i = l.newConnectorList.begin(); i != l.newConnectorList.end(); ++i)
        {
            if (cAfter.count(*i)) newC.push_back((long) cAfter[*i]);
            else { if (!transient.count(*i)) { long tk = -10 - (long) transient.size(); transient[*i] = tk; } newC.push_back(transient[*i]); }
        }
    }
    for (size_t k = 0; k < lists.size(); ++k)
    {
        HyperedgeNewAndDeletedObjectLists &l = lists[k];
        for (ConnRefList::iterator i = l.deletedConnectorList.begin(); i != l.deletedConnectorList.end(); ++i)
        {
            if (cBefore.count(*i)) delC.push_back((long) cBefore[*i]);
            else if (transient.count(*i)) delC.push_back(transient[*i]);
            else delC.push_back(-1);
        }
        // junctions stay allocated until the next transaction (queued JunctionRemove): their ids can be read
        for (JunctionRefList::iterator i = l.newJunctionList.begin(); i != l.newJunctionList.end(); ++i)
            newJ.push_back((*i)->id());
        for (JunctionRefList::iterator i = l.deletedJunctionList.begin(); i != l.deletedJunctionList.end(); ++i)
            delJ.push_back((*i)->id());
    }
    printList("NEWC", newC); printList("DELC", delC); printList("NEWJ", newJ); printList("DELJ", delJ);
    printf("ENDTX\n");
}

int main(int argc, char **argv)
{
    std::ifstream in(argv[1]);
    std::string line;
    setvbuf(stdout, NULL, _IOLBF, 0);      // a crash inside libavoid must not lose the op log written so far
    Scene sc; sc.r = nullptr;
    int tx = 0; bool dead = false; std::string sid;
    while (std::getline(in, line))
    {
        std::istringstream is(line);
        std::string cmd; is >> cmd;
        if (cmd == "SCENE")
        {
            int opt; std::string nd;
            is >> sid >> opt >> nd;
            sc = Scene(); dead = false; tx = 0; sc.nreg = 0;
            sc.r = new Router(OrthogonalRouting);
            sc.r->setRoutingOption(improveHyperedgeRoutesMovingJunctions, opt >= 1);
            sc.r->setRoutingOption(improveHyperedgeRoutesMovingAddingAndDeletingJunctions, opt == 2);
            sc.r->setRoutingParameter(idealNudgingDistance, num(nd));
            printf("SCENE %s\n", sid.c_str());
            continue;
        }
        if (cmd == "END")
        {
            printf("ENDSCENE %s\n", sid.c_str());
            fflush(stdout);
            if (sc.r && !dead)
            {
                try { delete sc.r; } catch (vpsc::CriticalFailure &f) { }
            }
            sc.r = nullptr;
            continue;
        }
        if (dead || !sc.r) continue;
        try
        {
            if (cmd == "SHAPE")
            {
                int idx; std::string a, b, c, d; is >> idx >> a >> b >> c >> d;
                Rectangle rect(Point(num(a), num(b)), Point(num(c), num(d)));
                ShapeRef *s = new ShapeRef(sc.r, rect, 1000 + idx);
                new ShapeConnectionPin(s, 1, ATTACH_POS_CENTRE, ATTACH_POS_CENTRE, true, 0.0, ConnDirNone);
                sc.shapeIdx[s] = idx;
                sc.shapes.push_back(s);
            }
            else if (cmd == "OBSTACLE")
            {
                std::string a, b, c, d; is >> a >> b >> c >> d;
                Rectangle rect(Point(num(a), num(b)), Point(num(c), num(d)));
                new ShapeRef(sc.r, rect);
            }
            else if (cmd == "JUNCTION")
            {
                int idx; std::string a, b; is >> idx >> a >> b;
                sc.juncs.push_back(new JunctionRef(sc.r, Point(num(a), num(b)), 3000 + idx));
                sc.knownJ[sc.juncs.back()] = sc.juncs.back()->id();
            }
            else if (cmd == "CONN")
            {
                int idx; is >> idx;
                ConnEnd a = readEnd(is, sc); ConnEnd b = readEnd(is, sc);
                ConnRef *c = new ConnRef(sc.r, a, b, 2000 + idx);
                c->setRoutingType(ConnType_Orthogonal);
                sc.conns.push_back(c);
                sc.knownC[c] = c->id();
            }
            else if (cmd == "REROUTE_J")
            {
                int j; is >> j;
                sc.r->hyperedgeRerouter()->registerHyperedgeForRerouting(sc.juncs[j]);
                sc.nreg++;
            }
            else if (cmd == "REROUTE_T")
            {
                int n; is >> n; ConnEndList l;
                for (int k = 0; k < n; ++k) l.push_back(readEnd(is, sc));
                sc.r->hyperedgeRerouter()->registerHyperedgeForRerouting(l);
                sc.nreg++;
            }
            else if (cmd == "MOVE")
            {
                int s; std::string dx, dy; is >> s >> dx >> dy;
                sc.r->moveShape(sc.shapes[s], num(dx), num(dy));
            }
            else if (cmd == "APPLYREC")
            {
                // the documented client protocol after a transaction: move every live junction to its recommendedPosition()
                // (mode 0: every junction, also when that is where it already is; mode 1: only those whose recommendation differs)
                int mode = 0; is >> mode;
                std::vector<JunctionRef *> js;
                for (ObstacleList::iterator o = sc.r->m_obstacles.begin(); o != sc.r->m_obstacles.end(); ++o)
                {
                    JunctionRef *j = dynamic_cast<JunctionRef *> (*o);
                    if (j && !queuedForRemoval(sc.r, j)) js.push_back(j);
                }
                for (size_t k = 0; k < js.size(); ++k)
                {
                    Point p = js[k]->position(), rp = js[k]->recommendedPosition();
                    bool same = (p.x == rp.x && p.y == rp.y);
                    if (mode == 1 && same) continue;
                    printf("RECMOVE %u %d %.17g %.17g %.17g %.17g\n", js[k]->id(), (int) same, p.x, p.y, rp.x, rp.y);
                    sc.r->moveJunction(js[k], rp);
                }
            }
            else if (cmd == "RMJ")
            {
                // the documented client API (junction.h): a junction with exactly two connectors is removed, its two connectors
                // become one.  One connector is deleted at once (the client knows: it is taken out of the known set), the junction
                // is queued for deletion (likewise).  Prints "RMJ <junction id> <merged connector id | -1> <deleted connector id | -1>"
                int j; is >> j;
                JunctionRef *jr = sc.juncs.at(j);
                if (!jr || !sc.knownJ.count(jr) || sc.knownJ[jr] != (unsigned) (3000 + j)) { printf("RMJ %d -2 -2 0\n", 3000 + j); }   // no longer live (improvement deleted it)
                else
                {
                    unsigned jid = jr->id();
                    std::map<const void *, unsigned> before;
                    for (ConnRefList::iterator i = sc.r->connRefs.begin(); i != sc.r->connRefs.end(); ++i) before[*i] = (*i)->id();
                    size_t nfollow = jr->m_following_conns.size();
                    ConnRef *merged = jr->removeJunctionAndMergeConnectors();
                    long mergedId = merged ? (long) merged->id() : -1, deletedId = -1;
                    for (ConnRefList::iterator i = sc.r->connRefs.begin(); i != sc.r->connRefs.end(); ++i) before.erase(*i);
                    for (std::map<const void *, unsigned>::iterator i = before.begin(); i != before.end(); ++i)
                    {
                        deletedId = i->second;
                        sc.knownC.erase(i->first);
                    }
                    if (merged) { sc.knownJ.erase(jr); sc.juncs[j] = nullptr; }
                    printf("RMJ %u %ld %ld %zu\n", jid, mergedId, deletedId, nfollow);
                }
            }
            else if (cmd == "TX")
            {
                std::map<const void *, unsigned> cBefore = sc.knownC, jBefore = sc.knownJ;
#ifdef HAVE_H2
                Avoid::verif_hyper_log = stdout;
                printf("H2 TXBEGIN %d\n", tx);
#endif
                bool processed = sc.r->processTransaction();
#ifdef HAVE_H2
                Avoid::verif_hyper_log = NULL;
#endif
                dump(sc, tx++, processed, cBefore, jBefore);
                snapshot(sc, sc.knownC, sc.knownJ);
                sc.nreg = 0;
            }
        }
        catch (vpsc::CriticalFailure &f)
        {
            std::string w = f.what();
            for (size_t k = 0; k < w.size(); ++k) if (w[k] == '\n') w[k] = '|';
            printf("ASSERT %s\n", w.c_str());
            dead = true;
#ifdef HAVE_H2
            Avoid::verif_hyper_log = NULL;
#endif
        }
        fflush(stdout);
    }
    return 0;
}
