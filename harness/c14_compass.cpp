// C14 (Compass leaf of the HOLA pipeline): prints Compass::cardinalDirection / Compass::compassDirection of the compiled
// library for every pair of lattice points p0 in BASES, p1 = p0 + (dx,dy), dx,dy in {-R..R} scaled by S in SCALES.
// One line per pair: x0 y0 x1 y1 card comp   (comp = -1: std::runtime_error, the coincident-points contract)
#include <cstddef>
#include <cfloat>
#include <cmath>
#include <cstdio>
#include <cstdlib>
#include <stdexcept>
#include "libavoid/libavoid.h"
#include "libdialect/ortho.h"
int main(int argc, char **argv) {
    int R = argc > 1 ? atoi(argv[1]) : 3;
    const double bases[3][2] = {{0, 0}, {1, -2}, {-7.5, 3.25}};
    const double scales[3] = {1, 0.125, 1024};
    for (int b = 0; b < 3; ++b) for (int s = 0; s < 3; ++s)
        for (int dx = -R; dx <= R; ++dx) for (int dy = -R; dy <= R; ++dy) {
            Avoid::Point p0(bases[b][0], bases[b][1]);
            Avoid::Point p1(bases[b][0] + dx * scales[s], bases[b][1] + dy * scales[s]);
            int card = (int) dialect::Compass::cardinalDirection(p0, p1);
            int comp;
            try { comp = (int) dialect::Compass::compassDirection(p0, p1); }
            catch (std::runtime_error &) { comp = -1; }
            printf("%.17g %.17g %.17g %.17g %d %d\n", p0.x, p0.y, p1.x, p1.y, card, comp);
        }
    // the direction predicates of ortho.h:  PRED d isVertical isHorizontal isIncreasing isDecreasing [card versions, d < 4, else -1 x4]
    for (int d = 0; d < 8; ++d) {
        dialect::CompassDir c = (dialect::CompassDir) d;
        printf("PRED %d %d %d %d %d", d, (int) dialect::Compass::isVertical(c), (int) dialect::Compass::isHorizontal(c),
               (int) dialect::Compass::isIncreasing(c), (int) dialect::Compass::isDecreasing(c));
        if (d < 4) {
            dialect::CardinalDir k = (dialect::CardinalDir) d;
            printf(" %d %d %d %d\n", (int) dialect::Compass::isVerticalCard(k), (int) dialect::Compass::isHorizontalCard(k),
                   (int) dialect::Compass::isIncreasingCard(k), (int) dialect::Compass::isDecreasingCard(k));
        } else printf(" -1 -1 -1 -1\n");
    }
    for (int d = 0; d < 8; ++d) {
        Avoid::Point v = dialect::Compass::vectorSigns((dialect::CompassDir) d);
        printf("VSIGN %d %.17g %.17g\n", d, v.x, v.y);
    }
    for (int a = 0; a < 4; ++a) for (int b = 0; b < 4; ++b)
        printf("PAIR %d %d %d %d\n", a, b, (int) dialect::Compass::sameDimension((dialect::CardinalDir) a, (dialect::CardinalDir) b),
               (int) dialect::Compass::arePerpendicular((dialect::CardinalDir) a, (dialect::CardinalDir) b));
    return 0;
}
