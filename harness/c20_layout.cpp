// C20 part (d) harness (DESIGN 5.20): libcola layouts repeated in ONE process.  One command per stdin line:
//
//   J <k> <seed>        unrelated allocation: k blocks of pseudo-random sizes filled with 0xA5, most of them freed in scrambled order
//   L <algo> <flags> <n> (cx cy w h)*n <ne> (u v)*ne <ideal> <ncc> cc*
//                       algo 0 = cola::ConstrainedFDLayout(rs, es, ideal).run()
//                            1 = the same with makeFeasible() before run()
//                            2 = cola::ConstrainedMajorizationLayout(rs, es, nullptr, ideal).run()
//                       flags bit 0: setAvoidNodeOverlaps(true) / setAvoidOverlaps(true)
//                       cc = "S dim l r gap eq"  (cola::SeparationConstraint)  |  "A dim position k (id offset)*k"  (cola::AlignmentConstraint(dim, position))
//                       every object (rectangles, constraints, layout) is constructed for the call and destroyed after it; NOTHING else
//                       is reset between commands.  Prints "L <x y>*n | <stress>" (hex floats; stress = ConstrainedFDLayout::computeStress()
//                       after run(), 0 for algo 2) or "LX <what>" when the library throws.
//   F <fill> [seed]     from now on every block handed out by the global operator new (the library's own allocations included) is pre-filled:
//                       0 not at all, 1 0x00, 2 0xA5, 3 0xFF, 4 pseudo-random bytes, 5 doubles 100.0, 6 pseudo-random plausible doubles -
//                       a deterministic stand-in for "whatever the recycled heap block held before"
// numbers are decimal strings (dyadic => exact).
#include <cstddef>
#include <cfloat>
#include <cstdio>
#include <cstdlib>
#include <cstring>
#include <cmath>
#include <vector>
#include <string>
#include <sstream>
#include <iostream>
#include <algorithm>
#include <exception>
#include <new>
#define private public
#include "libvpsc/rectangle.h"
#include "libvpsc/assertions.h"
#include "libcola/cola.h"
#undef private
#include "libcola/compound_constraints.h"

static int g_fill = 0;
static unsigned long g_fs = 88172645463325252UL;
static void fill_block(void *p, size_t n)
{
    unsigned char *b = (unsigned char *) p;
    switch (g_fill) {
        case 1: memset(p, 0x00, n); break;
        case 2: memset(p, 0xA5, n); break;
        case 3: memset(p, 0xFF, n); break;
        case 4: for (size_t i = 0; i < n; i++) { g_fs ^= g_fs << 13; g_fs ^= g_fs >> 7; g_fs ^= g_fs << 17; b[i] = (unsigned char) (g_fs >> 24); } break;
        case 5: { double v = 100.0; for (size_t i = 0; i + 8 <= n; i += 8) memcpy(b + i, &v, 8); } break;
        case 6: { static const double vs[] = {0.5, 3.0, 100.0, 1e4, -50.0, 1.0, 1e6, 7.25};
                  for (size_t i = 0; i < n; i++) b[i] = 0x01;
                  for (size_t i = 0; i + 8 <= n; i += 8) { g_fs ^= g_fs << 13; g_fs ^= g_fs >> 7; g_fs ^= g_fs << 17; memcpy(b + i, &vs[(g_fs >> 20) & 7], 8); } } break;
        default: break;
    }
}
void *operator new(size_t n) { void *p = malloc(n ? n : 1); if (!p) throw std::bad_alloc(); if (g_fill) fill_block(p, n); return p; }
void *operator new[](size_t n) { void *p = malloc(n ? n : 1); if (!p) throw std::bad_alloc(); if (g_fill) fill_block(p, n); return p; }
void operator delete(void *p) noexcept { free(p); }
void operator delete[](void *p) noexcept { free(p); }

static std::vector<void*> g_kept;
static unsigned long g_s = 1;
static unsigned rnd() { g_s = g_s * 6364136223846793005UL + 1442695040888963407UL; return (unsigned)(g_s >> 33); }
static double num(std::istream &in) { std::string s; in >> s; return strtod(s.c_str(), 0); }

static void junk(int k, unsigned long seed)
{
    g_s = seed;
    for (size_t i = 0; i < g_kept.size(); i++) free(g_kept[i]);
    g_kept.clear();
    std::vector<void*> v;
    static const size_t sizes[] = {16, 24, 32, 40, 48, 56, 64, 72, 88, 104, 120, 136, 200, 400, 1000, 2000};
    for (int i = 0; i < k; i++) {
        size_t sz = sizes[rnd() % 16];
        void *p = malloc(sz);
        memset(p, 0xA5, sz);
        v.push_back(p);
    }
    for (size_t i = v.size(); i > 1; i--) std::swap(v[i - 1], v[rnd() % i]);
    for (size_t i = 0; i < v.size(); i++) { if (rnd() % 4) free(v[i]); else g_kept.push_back(v[i]); }
}

int main()
{
    std::string line;
    while (std::getline(std::cin, line)) {
        if (line.empty()) continue;
        std::istringstream in(line);
        char tag; in >> tag;
        if (tag == 'J') {
            int k; unsigned long seed; in >> k >> seed;
            junk(k, seed);
            printf("J\n");
        } else if (tag == 'F') {
            int f; in >> f; unsigned long seed = 0; in >> seed;
            g_fill = f; if (seed) g_fs = seed;
            printf("F %d\n", f);
        } else if (tag == 'L') {
            int algo, flags, n, ne, ncc; in >> algo >> flags >> n;
            vpsc::Rectangles rs;
            for (int i = 0; i < n; i++) {
                double cx = num(in), cy = num(in), w = num(in), h = num(in);
                rs.push_back(new vpsc::Rectangle(cx - w / 2, cx + w / 2, cy - h / 2, cy + h / 2));
            }
            in >> ne;
            std::vector<cola::Edge> es;
            for (int i = 0; i < ne; i++) { unsigned u, v; in >> u >> v; es.push_back(cola::Edge(u, v)); }
            double ideal = num(in);
            in >> ncc;
            cola::CompoundConstraints ccs;
            for (int i = 0; i < ncc; i++) {
                std::string t; in >> t;
                if (t == "S") {
                    int d; unsigned l, r; in >> d >> l >> r; double g = num(in); int eq; in >> eq;
                    ccs.push_back(new cola::SeparationConstraint(d ? vpsc::YDIM : vpsc::XDIM, l, r, g, eq != 0));
                } else {
                    int d, k; in >> d; double ap = num(in); in >> k;
                    cola::AlignmentConstraint *a = new cola::AlignmentConstraint(d ? vpsc::YDIM : vpsc::XDIM, ap);
                    for (int j = 0; j < k; j++) { unsigned id; in >> id; double off = num(in); a->addShape(id, off); }
                    ccs.push_back(a);
                }
            }
            int exc = 0; std::string what; double stress = 0;
            try {
                // the layout object lives on the heap (operator new, see F), like its rectangles and constraints
                if (algo == 2) {
                    cola::ConstrainedMajorizationLayout *alg = new cola::ConstrainedMajorizationLayout(rs, es, nullptr, ideal);
                    if (ncc) alg->setConstraints(&ccs);
                    if (flags & 1) alg->setAvoidOverlaps(true);
                    alg->run();
                    delete alg;
                } else {
                    cola::ConstrainedFDLayout *alg = new cola::ConstrainedFDLayout(rs, es, ideal);
                    if (ncc) alg->setConstraints(ccs);
                    if (flags & 1) alg->setAvoidNodeOverlaps(true);
                    if (algo == 1) alg->makeFeasible();
                    alg->run();
                    stress = alg->computeStress();
                    delete alg;
                }
            }
            catch (vpsc::CriticalFailure &f) { exc = 1; std::ostringstream o; o << "assert:" << f.file << ":" << f.line << ":" << f.expr; what = o.str(); }
            catch (std::exception &e) { exc = 1; what = std::string("exception:") + e.what(); }
            catch (...) { exc = 1; what = "exception:unknown"; }
            if (exc) {
                size_t sl = what.rfind('/');
                if (what.compare(0, 7, "assert:") == 0 && sl != std::string::npos) what = "assert:" + what.substr(sl + 1);
                for (size_t i = 0; i < what.size(); i++) if (what[i] == ' ') what[i] = '_';
                printf("LX %s\n", what.c_str());
            } else {
                printf("L");
                for (int i = 0; i < n; i++) printf(" %a %a", rs[i]->getCentreX(), rs[i]->getCentreY());
                printf(" | %a\n", stress);
            }
            for (size_t i = 0; i < ccs.size(); i++) delete ccs[i];
            for (int i = 0; i < n; i++) delete rs[i];
        } else printf("? %s\n", line.c_str());
        fflush(stdout);
    }
    return 0;
}
