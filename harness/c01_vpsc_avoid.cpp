// C01/C02 harness, second build: the same program against the solver copy in libavoid/vpsc.cpp (namespace Avoid).
// (harness source hash: touch this file when c01_vpsc.cpp changes -- rev 5: ops R, P (object reuse))
#define USE_AVOID_NS 1
#include "c01_vpsc.cpp"
