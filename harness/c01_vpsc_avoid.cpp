// C01/C02 harness, second build: the same program against the solver copy in libavoid/vpsc.cpp (namespace Avoid).
// (harness source hash: touch this file when c01_vpsc.cpp changes -- rev 4: op W, thrown index)
#define USE_AVOID_NS 1
#include "c01_vpsc.cpp"
