// C09 harness (DESIGN 5.9): drives vpsc::generateXConstraints / generateYConstraints / removeoverlaps of the
// library built from /repo's working tree.  One command per stdin line, one result line per command.
//
//   G <mode> <scale> <xb> <yb> <pk> <pdir> <n>  x X y Y ...     mode 0 = generateYConstraints,
//                                                               1 = generateXConstraints(useNeighbourLists=false),
//                                                               2 = generateXConstraints(useNeighbourLists=true)
//                                                               10,11,12 = the same with every Variable::id == 0
//                                                               20,21,22 = the same with caller-chosen ids: n ids follow
//                                                                          the rectangles (duplicates allowed: ids are
//                                                                          "useful in log files" only, variable.h:51)
//   Q <scale> <xb> <yb> <k> { <ovl> <third> <nf> f.. <n> x X y Y ... }*k    k removeoverlaps calls in ONE process without
//                                                               resetting the borders in between (the caller's borders are set
//                                                               once); ovl 0 = removeoverlaps(rs,fixed,third), 1 = (rs,fixed),
//                                                               2 = (rs).  After EACH call: exc, Rectangle::xBorder, yBorder,
//                                                               width()/height() of a witness rectangle that is in no call, and
//                                                               per rectangle width() height() before / after + the raw box.
//   S <n> <m> (desired weight)*n (l r gap)*m     the static vpsc::Solver on hex-float data; prints P finalPositions
//   M <scale> <xb> <yb> u(4) v(4) p             the small Rectangle methods (getters, overlapX/Y, moveCentreX/Y)
//   R <third> <scale> <xb> <yb> <pk> <pdir> <nf> f.. <n> x X y Y ...   removeoverlaps(rs, fixed, third)
//
// every coordinate / border is the integer given divided by <scale> (a power of two => exact in binary64).
// <pk> <pdir>: allocator priming before the call: malloc pk blocks of sizeof(Node)=56 bytes and free them in
// ascending (1) / descending (2) order (0 = none) so that the following Node allocations come back in a
// different address order (DESIGN 5.20).
// Output numbers are C99 hex floats (exact).
#include <cstddef>
#include <cfloat>
#include <cstdio>
#include <cstdlib>
#include <cstring>
#include <vector>
#include <set>
#include <string>
#include <sstream>
#include <iostream>
#include <algorithm>
#define private public
#include "libvpsc/rectangle.h"
#include "libvpsc/variable.h"
#include "libvpsc/constraint.h"
#include "libvpsc/solve_VPSC.h"
#include "libvpsc/exceptions.h"
#include "libvpsc/assertions.h"
#undef private
#ifdef NDEBUG
// flavour `ndebug` (COLA_ASSERT compiled out): assertions.h does not declare CriticalFailure there; never thrown
namespace vpsc { class CriticalFailure { public: std::string file, expr; int line; }; }
#endif
using namespace vpsc;

// Allocator priming.  glibc's per-thread cache (tcache) for a chunk size is a LIFO list of at most 7 chunks: after
// draining it, k fresh chunks are freed in ascending or descending address order, so that the next k malloc(56)
// calls (the Node objects of the scan line) return them in the opposite order.  The effect is verified (prime_ok).
static std::vector<void*> g_drain;
static int prime_ok = 1;
static bool prime_once(int k, int dir)
{
    std::vector<void*> v;
    for (int i = 0; i < k; i++) v.push_back(malloc(56));
    std::sort(v.begin(), v.end());
    if (dir == 2) std::reverse(v.begin(), v.end());
    for (int i = 0; i < k; i++) free(v[i]);
    // verify: the chunks come back in reverse order of freeing; then put them back the same way
    std::vector<void*> t;
    bool ok = true;
    for (int i = 0; i < k; i++) t.push_back(malloc(56));
    for (int i = 0; i < k; i++) if (t[i] != v[k - 1 - i]) ok = false;
    if (ok) { for (int i = k - 1; i >= 0; i--) free(t[i]); }
    else { for (int i = 0; i < k; i++) g_drain.push_back(t[i]); }   // keep them out of the way and retry
    return ok;
}
static void prime(int k, int dir)
{
    prime_ok = 1;
    if (dir == 0 || k <= 0) return;
    if (k > 7) k = 7;
    prime_ok = 0;
    for (int attempt = 0; attempt < 40 && !prime_ok; attempt++) {
        for (int i = 0; i < 64; i++) g_drain.push_back(malloc(56));    // empty the cache and the fast bin of this size
        if (prime_once(k, dir)) prime_ok = 1;
    }
}
static void unprime()
{
    // the drained chunks are deliberately kept (64 bytes each): freeing them would refill the bins that the next
    // priming has to empty again, and the pool would grow with every command
    g_drain.clear();
}

int main()
{
    std::string line;
    while (std::getline(std::cin, line)) {
        if (line.empty()) continue;
        std::istringstream in(line);
        char tag; in >> tag;
        if (tag == 'G') {
            int mode, pk, pdir, n; long scale, xb, yb;
            in >> mode >> scale >> xb >> yb >> pk >> pdir >> n;
            // modes 10,11,12: as 0,1,2 but every Variable gets id 0 (ids are documentation only, variable.h:51)
            bool givenids = mode >= 20; if (givenids) mode -= 20;
            bool dupids = mode >= 10; if (dupids) mode -= 10;
            Rectangles rs; Variables vs;
            for (int i = 0; i < n; i++) {
                long a, b, c, d; in >> a >> b >> c >> d;
                rs.push_back(new Rectangle((double)a / scale, (double)b / scale, (double)c / scale, (double)d / scale));
                vs.push_back(new Variable(dupids ? 0 : i, 0, 1));
            }
            if (givenids) for (int i = 0; i < n; i++) { int id = i; in >> id; vs[i]->id = id; }
            Rectangle::setXBorder((double)xb / scale);
            Rectangle::setYBorder((double)yb / scale);
            Constraints cs;
            int exc = 0; std::string what;
            prime(pk, pdir);
            try {
                if (mode == 0) generateYConstraints(rs, vs, cs);
                else generateXConstraints(rs, vs, cs, mode == 2);
            } catch (CriticalFailure &f) { exc = 3; std::ostringstream o; o << f.file << ":" << f.line << ":" << f.expr; what = o.str(); }
            catch (...) { exc = 2; }
            unprime();
            Rectangle::setXBorder(0); Rectangle::setYBorder(0);
            if (!prime_ok) exc += 10;
            printf("C %d %zu", exc, cs.size());
            for (size_t i = 0; i < cs.size(); i++) {
                // report variables by their index in vars (== id unless the duplicate-id mode is on)
                int li = (int)(std::find(vs.begin(), vs.end(), cs[i]->left) - vs.begin());
                int ri = (int)(std::find(vs.begin(), vs.end(), cs[i]->right) - vs.begin());
                printf(" %d %d %a", li, ri, cs[i]->gap);
            }
            printf(" D");
            for (int i = 0; i < n; i++) printf(" %a", vs[i]->desiredPosition);
            if (exc == 3) printf(" # %s", what.c_str());
            printf("\n");
            for (size_t i = 0; i < cs.size(); i++) delete cs[i];
            for (int i = 0; i < n; i++) { delete rs[i]; delete vs[i]; }
        } else if (tag == 'R') {
            int third, pk, pdir, nf, n; long scale, xb, yb;
            in >> third >> scale >> xb >> yb >> pk >> pdir >> nf;
            std::set<unsigned> fixed;
            for (int i = 0; i < nf; i++) { unsigned f; in >> f; fixed.insert(f); }
            in >> n;
            Rectangles rs;
            for (int i = 0; i < n; i++) {
                long a, b, c, d; in >> a >> b >> c >> d;
                rs.push_back(new Rectangle((double)a / scale, (double)b / scale, (double)c / scale, (double)d / scale));
            }
            Rectangle::setXBorder((double)xb / scale);
            Rectangle::setYBorder((double)yb / scale);
            int exc = 0; std::string what;
            prime(pk, pdir);
            try { removeoverlaps(rs, fixed, third != 0); }
            catch (UnsatisfiedConstraint &u) { exc = 1; }
            catch (CriticalFailure &f) { exc = 3; std::ostringstream o; o << f.file << ":" << f.line << ":" << f.expr; what = o.str(); }
            catch (...) { exc = 2; }
            unprime();
            if (!prime_ok) exc += 10;
            printf("R %d %a %a", exc, Rectangle::xBorder, Rectangle::yBorder);
            for (int i = 0; i < n; i++) printf(" %a %a %a %a", rs[i]->minX, rs[i]->maxX, rs[i]->minY, rs[i]->maxY);
            if (exc == 3) printf(" # %s", what.c_str());
            printf("\n");
            Rectangle::setXBorder(0); Rectangle::setYBorder(0);
            for (int i = 0; i < n; i++) delete rs[i];
        } else if (tag == 'Q') {
            long scale, xb, yb; int k;
            in >> scale >> xb >> yb >> k;
            Rectangle::setXBorder((double)xb / scale);
            Rectangle::setYBorder((double)yb / scale);
            Rectangle witness(0, 3, 0, 5);
            printf("Q %d", k);
            for (int c = 0; c < k; c++) {
                int ovl, third, nf, n;
                in >> ovl >> third >> nf;
                std::set<unsigned> fixed;
                for (int i = 0; i < nf; i++) { unsigned f; in >> f; fixed.insert(f); }
                in >> n;
                Rectangles rs;
                std::vector<double> w0, h0;
                for (int i = 0; i < n; i++) {
                    long a, b, cc, d; in >> a >> b >> cc >> d;
                    rs.push_back(new Rectangle((double)a / scale, (double)b / scale, (double)cc / scale, (double)d / scale));
                    w0.push_back(rs[i]->width()); h0.push_back(rs[i]->height());
                }
                int exc = 0; std::string what;
                try {
                    if (ovl == 0) removeoverlaps(rs, fixed, third != 0);
                    else if (ovl == 1) removeoverlaps(rs, fixed);
                    else removeoverlaps(rs);
                }
                catch (UnsatisfiedConstraint &u) { exc = 1; }
                catch (CriticalFailure &f) { exc = 3; std::ostringstream o; o << f.file << ":" << f.line << ":" << f.expr; what = o.str(); }
                catch (...) { exc = 2; }
                for (size_t q = 0; q < what.size(); q++) if (what[q] == ' ' || what[q] == '|') what[q] = '_';
                printf(" | %d %s %a %a %a %a %d", exc, exc == 3 ? what.c_str() : "-", Rectangle::xBorder, Rectangle::yBorder,
                       witness.width(), witness.height(), n);
                for (int i = 0; i < n; i++)
                    printf(" %a %a %a %a %a %a %a %a", w0[i], h0[i], rs[i]->width(), rs[i]->height(),
                           rs[i]->minX, rs[i]->maxX, rs[i]->minY, rs[i]->maxY);
                for (int i = 0; i < n; i++) delete rs[i];
            }
            printf("\n");
            Rectangle::setXBorder(0); Rectangle::setYBorder(0);
        } else if (tag == 'S') {
            // S <n> <m>  desired weight ...  l r gap ...   (hex floats): vpsc::Solver(vs,cs).solve(), prints finalPosition
            int n, m; in >> n >> m;
            Variables vs; Constraints cs;
            for (int i = 0; i < n; i++) { std::string a, b; in >> a >> b; vs.push_back(new Variable(i, strtod(a.c_str(), 0), strtod(b.c_str(), 0))); }
            for (int i = 0; i < m; i++) { int l, r; std::string g; in >> l >> r >> g; cs.push_back(new Constraint(vs[l], vs[r], strtod(g.c_str(), 0))); }
            int exc = 0;
            try { Solver sv(vs, cs); sv.solve(); }
            catch (...) { exc = 1; }
            if (exc) printf("PX\n");
            else { printf("P"); for (int i = 0; i < n; i++) printf(" %a", vs[i]->finalPosition); printf("\n"); }
            for (int i = 0; i < m; i++) delete cs[i];
            for (int i = 0; i < n; i++) delete vs[i];
        } else if (tag == 'M') {
            // M <scale> <xb> <yb>  u(4) v(4) p : the small Rectangle methods, for the correspondence of Rect/RectBase.v
            long scale, xb, yb, a[8], p; in >> scale >> xb >> yb;
            for (int i = 0; i < 8; i++) in >> a[i];
            in >> p;
            Rectangle::setXBorder((double)xb / scale); Rectangle::setYBorder((double)yb / scale);
            Rectangle u((double)a[0] / scale, (double)a[1] / scale, (double)a[2] / scale, (double)a[3] / scale);
            Rectangle v((double)a[4] / scale, (double)a[5] / scale, (double)a[6] / scale, (double)a[7] / scale);
            Rectangle mx(u), my(u);
            mx.moveCentreX((double)p / scale); my.moveCentreY((double)p / scale);
            printf("M %a %a %a %a %a %a %a %a %a %a %a %a %a %a %a %a %a %a\n", u.getMinX(), u.getMaxX(), u.getMinY(), u.getMaxY(),
                   u.getCentreX(), u.getCentreY(), u.width(), u.height(), u.overlapX(&v), u.overlapY(&v),
                   mx.minX, mx.maxX, mx.minY, mx.maxY, my.minX, my.maxX, my.minY, my.maxY);
            Rectangle::setXBorder(0); Rectangle::setYBorder(0);
        } else {
            printf("? %s\n", line.c_str());
        }
        fflush(stdout);
    }
    return 0;
}
