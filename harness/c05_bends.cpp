// C05 harness.
//  mode `bends R`: exhaustive sweep of the compiled Avoid::bends over all relative positions in {-R..R}^2 and all 16
//                  pairs of single directions, for three base points / scales (quarter units; all exactly representable).
//                  One line per case: bx by s dx dy cd dd value   (same order as extract/c05_*_driver.ml)
//  mode `routes` : stdin scenes  "S pen ns nc" / ns x "x0 y0 x1 y1" / nc x "sx sy dx dy sdirs ddirs" / "E";
//                  orthogonal routing, nudging off (idealNudgingDistance 0) so that route() is the raw search result;
//                  prints per connector "R n x0 y0 ..." (%.17g) and "E" per scene.
//  mode `seq`    : SEVERAL ROUTINGS WITH DIFFERENT PARAMETERS IN ONE PROCESS (per-process state: function-local statics, caches).  stdin steps
//                  "S pen keep ns nc" / boxes / conns   new Router (the previous one is deleted first unless keep = 1: then it stays alive to the end)
//                  "T pen mode [k x0 y0 x1 y1]"         on the CURRENT router: setRoutingParameter(segmentPenalty, pen), then mode 0 nothing more,
//                                                       1 makePathInvalid() on every connector, 2 moveShape(shape k, new rectangle); processTransaction()
//                  after every step the routes of the current router's connectors ("R n .." / "X") and "E" are printed.
#include <cstdio>
#include <cstdlib>
#include <cstring>
#include <vector>
#include <iostream>
#include "libavoid/libavoid.h"

namespace Avoid { int bends(const Point& curr, unsigned int currDir, const Point& dest, unsigned int destDir); }
using namespace Avoid;

static int bends_mode(int R)
{
    const int bases[3][3] = {{0, 0, 4}, {6, -9, 1}, {-20, 12, 8}};
    const unsigned dirs[4] = {1, 2, 4, 8};
    for (int b = 0; b < 3; ++b) {
        int bx = bases[b][0], by = bases[b][1], s = bases[b][2];
        for (int dx = -R; dx <= R; ++dx) for (int dy = -R; dy <= R; ++dy)
            for (int c = 0; c < 4; ++c) for (int d = 0; d < 4; ++d) {
                Point curr(bx / 4.0, by / 4.0), dest((bx + s * dx) / 4.0, (by + s * dy) / 4.0);
                int v = -99;
                try { v = bends(curr, dirs[c], dest, dirs[d]); } catch (...) { v = -98; }
                printf("%d %d %d %d %d %u %u %d\n", bx, by, s, dx, dy, dirs[c], dirs[d], v);
            }
    }
    return 0;
}

static int routes_mode()
{
    char tag;
    while (std::cin >> tag) {
        if (tag != 'S') break;
        int ns, nc; double pen;
        std::cin >> pen >> ns >> nc;
        Router *router = new Router(OrthogonalRouting);
        router->setRoutingParameter(segmentPenalty, pen);
        router->setRoutingParameter(idealNudgingDistance, 0);
        router->setRoutingOption(nudgeOrthogonalSegmentsConnectedToShapes, false);
        for (int i = 0; i < ns; i++) {
            double x0, y0, x1, y1; std::cin >> x0 >> y0 >> x1 >> y1;
            Polygon p(4);
            p.ps[0] = Point(x1, y0); p.ps[1] = Point(x1, y1); p.ps[2] = Point(x0, y1); p.ps[3] = Point(x0, y0);
            new ShapeRef(router, p, i + 1);
        }
        std::vector<ConnRef*> conns;
        for (int i = 0; i < nc; i++) {
            double sx, sy, dx, dy; unsigned sdir, ddir; std::cin >> sx >> sy >> dx >> dy >> sdir >> ddir;
            // sdir/ddir: libavoid ConnDirFlags (Up 1, Down 2, Left 4, Right 8, All 15) = pin direction restrictions
            conns.push_back(new ConnRef(router, ConnEnd(Point(sx, sy), (ConnDirFlags) sdir),
                                        ConnEnd(Point(dx, dy), (ConnDirFlags) ddir), 100 + i));
        }
        try {
            router->processTransaction();
            for (int i = 0; i < nc; i++) {
                const PolyLine &r = conns[i]->route();
                printf("R %zu", r.size());
                for (size_t j = 0; j < r.size(); j++) printf(" %.17g %.17g", r.ps[j].x, r.ps[j].y);
                printf("\n");
            }
        } catch (...) {
            for (int i = 0; i < nc; i++) printf("X\n");
        }
        std::cin >> tag; // E
        printf("E\n");
        delete router;
    }
    return 0;
}

static void print_routes(Router *router, std::vector<ConnRef*> &conns)
{
    try {
        router->processTransaction();
        for (size_t i = 0; i < conns.size(); i++) {
            const PolyLine &r = conns[i]->route();
            printf("R %zu", r.size());
            for (size_t j = 0; j < r.size(); j++) printf(" %.17g %.17g", r.ps[j].x, r.ps[j].y);
            printf("\n");
        }
    } catch (...) {
        for (size_t i = 0; i < conns.size(); i++) printf("X\n");
    }
    printf("E\n");
}

static Polygon rect_poly(double x0, double y0, double x1, double y1)
{
    Polygon p(4);
    p.ps[0] = Point(x1, y0); p.ps[1] = Point(x1, y1); p.ps[2] = Point(x0, y1); p.ps[3] = Point(x0, y0);
    return p;
}

static int seq_mode()
{
    char tag;
    Router *router = nullptr;
    std::vector<Router*> kept;
    std::vector<ShapeRef*> shapes;
    std::vector<ConnRef*> conns;
    while (std::cin >> tag) {
        if (tag == 'S') {
            int keep, ns, nc; double pen;
            std::cin >> pen >> keep >> ns >> nc;
            if (router) { if (keep) kept.push_back(router); else delete router; }
            shapes.clear(); conns.clear();
            router = new Router(OrthogonalRouting);
            router->setRoutingParameter(segmentPenalty, pen);
            router->setRoutingParameter(idealNudgingDistance, 0);
            router->setRoutingOption(nudgeOrthogonalSegmentsConnectedToShapes, false);
            for (int i = 0; i < ns; i++) {
                double x0, y0, x1, y1; std::cin >> x0 >> y0 >> x1 >> y1;
                Polygon p = rect_poly(x0, y0, x1, y1);
                shapes.push_back(new ShapeRef(router, p, i + 1));
            }
            for (int i = 0; i < nc; i++) {
                double sx, sy, dx, dy; unsigned sdir, ddir; std::cin >> sx >> sy >> dx >> dy >> sdir >> ddir;
                conns.push_back(new ConnRef(router, ConnEnd(Point(sx, sy), (ConnDirFlags) sdir),
                                            ConnEnd(Point(dx, dy), (ConnDirFlags) ddir), 100 + i));
            }
            print_routes(router, conns);
        } else if (tag == 'T') {
            double pen; int mode;
            std::cin >> pen >> mode;
            int k = 0; double x0 = 0, y0 = 0, x1 = 0, y1 = 0;
            if (mode == 2) std::cin >> k >> x0 >> y0 >> x1 >> y1;
            if (!router) { printf("E\n"); continue; }
            try {
                router->setRoutingParameter(segmentPenalty, pen);
                if (mode == 1) for (size_t i = 0; i < conns.size(); i++) conns[i]->makePathInvalid();
                if (mode == 2 && k >= 0 && k < (int) shapes.size()) router->moveShape(shapes[k], rect_poly(x0, y0, x1, y1));
            } catch (...) { }
            print_routes(router, conns);
        } else break;
    }
    delete router;
    for (size_t i = 0; i < kept.size(); i++) delete kept[i];
    return 0;
}

int main(int argc, char **argv)
{
    if (argc > 1 && !strcmp(argv[1], "seq")) return seq_mode();
    if (argc > 1 && !strcmp(argv[1], "bends")) return bends_mode(argc > 2 ? atoi(argv[2]) : 2);
    return routes_mode();
}
