// C05 harness.
//  mode `bends R`: exhaustive sweep of the compiled Avoid::bends over all relative positions in {-R..R}^2 and all 16
//                  pairs of single directions, for three base points / scales (quarter units; all exactly representable).
//                  One line per case: bx by s dx dy cd dd value   (same order as extract/c05_*_driver.ml)
//  mode `routes` : stdin scenes  "S pen ns nc" / ns x "x0 y0 x1 y1" / nc x "sx sy dx dy sdirs ddirs" / "E";
//                  orthogonal routing, nudging off (idealNudgingDistance 0) so that route() is the raw search result;
//                  prints per connector "R n x0 y0 ..." (%.17g) and "E" per scene.
#include <cstdio>
#include <cstdlib>
#include <cstring>
#include <vector>
#include <iostream>
#include "libavoid/libavoid.h"

namespace Avoid { int bends(const Point& curr, unsigned int currDir, const Point& dest, unsigned int destDir); }
using namespace Avoid;

static int bends_mode(int R)
{
    const int bases[3][3] = {{0, 0, 4}, {6, -9, 1}, {-20, 12, 8}};
    const unsigned dirs[4] = {1, 2, 4, 8};
    for (int b = 0; b < 3; ++b) {
        int bx = bases[b][0], by = bases[b][1], s = bases[b][2];
        for (int dx = -R; dx <= R; ++dx) for (int dy = -R; dy <= R; ++dy)
            for (int c = 0; c < 4; ++c) for (int d = 0; d < 4; ++d) {
                Point curr(bx / 4.0, by / 4.0), dest((bx + s * dx) / 4.0, (by + s * dy) / 4.0);
                int v = -99;
                try { v = bends(curr, dirs[c], dest, dirs[d]); } catch (...) { v = -98; }
                printf("%d %d %d %d %d %u %u %d\n", bx, by, s, dx, dy, dirs[c], dirs[d], v);
            }
    }
    return 0;
}

static int routes_mode()
{
    char tag;
    while (std::cin >> tag) {
        if (tag != 'S') break;
        int ns, nc; double pen;
        std::cin >> pen >> ns >> nc;
        Router *router = new Router(OrthogonalRouting);
        router->setRoutingParameter(segmentPenalty, pen);
        router->setRoutingParameter(idealNudgingDistance, 0);
        router->setRoutingOption(nudgeOrthogonalSegmentsConnectedToShapes, false);
        for (int i = 0; i < ns; i++) {
            double x0, y0, x1, y1; std::cin >> x0 >> y0 >> x1 >> y1;
            Polygon p(4);
            p.ps[0] = Point(x1, y0); p.ps[1] = Point(x1, y1); p.ps[2] = Point(x0, y1); p.ps[3] = Point(x0, y0);
            new ShapeRef(router, p, i + 1);
        }
        std::vector<ConnRef*> conns;
        for (int i = 0; i < nc; i++) {
            double sx, sy, dx, dy; unsigned sdir, ddir; std::cin >> sx >> sy >> dx >> dy >> sdir >> ddir;
            // sdir/ddir: libavoid ConnDirFlags (Up 1, Down 2, Left 4, Right 8, All 15) = pin direction restrictions
            conns.push_back(new ConnRef(router, ConnEnd(Point(sx, sy), (ConnDirFlags) sdir),
                                        ConnEnd(Point(dx, dy), (ConnDirFlags) ddir), 100 + i));
        }
        try {
            router->processTransaction();
            for (int i = 0; i < nc; i++) {
                const PolyLine &r = conns[i]->route();
                printf("R %zu", r.size());
                for (size_t j = 0; j < r.size(); j++) printf(" %.17g %.17g", r.ps[j].x, r.ps[j].y);
                printf("\n");
            }
        } catch (...) {
            for (int i = 0; i < nc; i++) printf("X\n");
        }
        std::cin >> tag; // E
        printf("E\n");
        delete router;
    }
    return 0;
}

int main(int argc, char **argv)
{
    if (argc > 1 && !strcmp(argv[1], "bends")) return bends_mode(argc > 2 ? atoi(argv[2]) : 2);
    return routes_mode();
}
