// C03 correspondence for the per-shape blocking loops (DESIGN 5.3, 9.10): runs the REAL EdgeInf::firstBlocker (graph.cpp)
// and the REAL Router::newBlockingShape (router.cpp) on one visibility edge (e1, e2) and one polygon, and prints whether
// each of them reports the edge as blocked.  The answers are compared with the extracted decider spec_shapeBlocks
// (= blocked_by_shape = the cpp2v translation of newBlockingShape's loop, Avoid/BlockingGen.v).
//
// Input, one query per line:   B k x1 y1 .. xk yk  e1x e1y e2x e2y
//                              D k' x y ..  k x y ..  e1x e1y e2x e2y      (a first polygon, shape 1, then the polygon under test, shape 2:
//                                                     firstBlocker walks both, so the per-shape reset of the flag is exercised)
// Output per query:            B <firstBlocker != 0> <newBlockingShape (polygon under test) blocked the edge>      or   EXC <what>
//
// Per query a fresh polyline Router holds the polygon as shape 1 (made active by processTransaction(), so its vertices are
// in Router::vertices, which firstBlocker walks); the edge joins two free-standing vertices with shape-like ids (not
// connector endpoints: no containment exemption, inPoly is not consulted).  For newBlockingShape the edge is first put
// into the visibility graph (setDist) and the shape is re-submitted with its own polygon; "blocked" = the edge has left
// the visibility graph with blocker 1.
#include <cstdio>
#include <cstdlib>
#include <string>
#include <iostream>
#include <sstream>
#define private public
#define protected public
#include "libavoid/libavoid.h"
#include "libvpsc/assertions.h"
#undef private
#undef protected

using namespace Avoid;

int main()
{
    std::string line;
    while (std::getline(std::cin, line))
    {
        std::istringstream in(line);
        std::string tag;
        if (!(in >> tag) || (tag != "B" && tag != "D")) continue;
        int k; in >> k;
        Polygon first(k);
        if (tag == "D")
        {
            for (int j = 0; j < k; ++j) { double x, y; in >> x >> y; first.ps[j] = Point(x, y); }
            in >> k;
        }
        Polygon poly(k);
        for (int j = 0; j < k; ++j) { double x, y; in >> x >> y; poly.ps[j] = Point(x, y); }
        const int pid = (tag == "D") ? 2 : 1;
        double ax, ay, bx, by; in >> ax >> ay >> bx >> by;
        try
        {
            Router *router = new Router(PolyLineRouting);
            router->setTransactionUse(true);
            if (tag == "D") new ShapeRef(router, first, 1);
            new ShapeRef(router, poly, pid);
            router->processTransaction();
            VertInf *a = new VertInf(router, VertID(7, 0), Point(ax, ay), false);
            VertInf *b = new VertInf(router, VertID(8, 0), Point(bx, by), false);
            EdgeInf *e = new EdgeInf(a, b);
            int fb = e->firstBlocker();
            e->setDist(1.0);
            router->newBlockingShape(poly, pid);
            bool nb = !(e->m_added && e->m_visible);
            if (nb && e->blocker() != pid) { printf("EXC edge left the visibility graph with blocker %d\n", e->blocker()); }
            else printf("B %d %d\n", fb != 0 ? 1 : 0, nb ? 1 : 0);
            // router, vertices and edge are leaked deliberately (see c03_route.cpp)
        }
        catch (vpsc::CriticalFailure& f) {
            std::string w = f.what(); for (size_t i = 0; i < w.size(); ++i) if (w[i] == '\n') w[i] = ' ';
            printf("EXC %s\n", w.c_str()); }
        catch (std::exception& ex) { printf("EXC %s\n", ex.what()); }
        catch (...) { printf("EXC unknown (assertion)\n"); }
        fflush(stdout);
    }
    return 0;
}
