// C16 harness: runs the compiled libavoid geometry predicates on exhaustive integer grids.
// Output (stdout): one section per function, "## name" then one result per line-chunk.
// The OCaml driver extract/c16_driver.ml enumerates the *same* tuples in the same order.
#include <cstdio>
#include <cstdlib>
#include <cstring>
#include <vector>
#include <string>
#include <cstddef>
#include <cfloat>
#include <cmath>
#include <iostream>
#include "libavoid/libavoid.h"
#include "libavoid/geometry.h"
#include "libvpsc/rectangle.h"
// linesegment.h (header-only class + two non-inline demo functions that rectangle.o of libvpsc also defines: rename
// this translation unit's copies).  The harness calls this copy of LineSegment::Intersect directly and the copy
// compiled into libvpsc through vpsc::Rectangle::lineIntersections.
#define DoLineSegmentIntersection c16_DoLineSegmentIntersection
#define test c16_linesegment_test
#include "libvpsc/linesegment.h"
#undef test
#undef DoLineSegmentIntersection

using namespace Avoid;

static int G = 5;       // grid side for point tuples
static int GP = 4;      // grid side for polygon vertices
static std::string out;

static void flush_section(const char *name)
{
    printf("## %s %zu\n", name, out.size());
    // 100 results per line keeps lines short
    for (size_t i = 0; i < out.size(); i += 100) {
        fwrite(out.data() + i, 1, std::min<size_t>(100, out.size() - i), stdout);
        fputc('\n', stdout);
    }
    out.clear();
}

static char sgnc(int v) { return v < 0 ? '-' : (v > 0 ? '+' : '0'); }

// LineSegment::Intersect on integer points; the out-parameter starts as (-77,-77).
// result char: '0' + code (PARALLEL 0, COINCIDENT 1, NOT_INTERSECTING 2, INTERSECTING 3), + 4 if the out-parameter was
// written although the result is not INTERSECTING.
static char ls_intersect(double ax, double ay, double bx, double by, double cx, double cy, double dx, double dy,
                         double *x, double *y)
{
    linesegment::LineSegment s(linesegment::Vector(ax, ay), linesegment::Vector(bx, by));
    linesegment::LineSegment o(linesegment::Vector(cx, cy), linesegment::Vector(dx, dy));
    linesegment::Vector iv(-77, -77);
    int r = (int) s.Intersect(o, iv);
    *x = iv.x_; *y = iv.y_;
    bool touched = !(iv.x_ == -77 && iv.y_ == -77);
    return (char) ('0' + r + ((r != linesegment::LineSegment::INTERSECTING && touched) ? 4 : 0));
}

// Random-stream mode ("rand"): reads lines "ax ay bx by cx cy dx dy qx qy" (integers, |v| <= 2^20) from stdin and
// prints one line per tuple: a fixed-position string of discrete results, then the numeric results.
//   pos 0 vecDir(a,b,c)  1 pointOnLine(a,b,c)  2 colinear(a,b,c)  3 inBetween(a,b,c) ('.' if not collinear)
//   4 segmentIntersect(a,b,c,d)  5,6 segmentShapeIntersect(a,b,c,d,seen=0/1) as 2*result+flag
//   7,8 inValidRegion(ig=0/1,a,b,c,d)  9 cornerSide(a,b,c,d)  10 segmentIntersectPoint code  11 rayIntersectPoint code
//   12-14 inPoly([a;b;c;d], q', false) for q' = a, q, d   15-17 the same with countBorder = true
//   18-20 inPolyGen([a;b;c;d], q') for q' = a, q, d
//   21 LineSegment(a,b).Intersect(LineSegment(c,d))  22 LineSegment(c,d).Intersect(LineSegment(a,b))
// then: sip.x sip.y (or "- -")  ray.x ray.y (or "- -")  manhattanDist(a,b)  ls.x ls.y of position 21 (or "- -")
static int rand_mode()
{
    long v[10];
    char line[512];
    while (fgets(line, sizeof line, stdin)) {
        if (sscanf(line, "%ld %ld %ld %ld %ld %ld %ld %ld %ld %ld", v, v+1, v+2, v+3, v+4, v+5, v+6, v+7, v+8, v+9) != 10)
            continue;
        Point a(v[0], v[1]), b(v[2], v[3]), c(v[4], v[5]), d(v[6], v[7]), q(v[8], v[9]);
        std::string o;
        int vd = vecDir(a, b, c);
        o.push_back(sgnc(vd));
        o.push_back(pointOnLine(a, b, c) ? '1' : '0');
        o.push_back(colinear(a, b, c) ? '1' : '0');
        o.push_back(vd == 0 ? (inBetween(a, b, c) ? '1' : '0') : '.');
        o.push_back(segmentIntersect(a, b, c, d) ? '1' : '0');
        for (int seen = 0; seen < 2; ++seen) {
            bool s = seen;
            bool r = segmentShapeIntersect(a, b, c, d, s);
            o.push_back('0' + (r ? 2 : 0) + (s ? 1 : 0));
        }
        for (int ig = 0; ig < 2; ++ig) o.push_back(inValidRegion(ig, a, b, c, d) ? '1' : '0');
        o.push_back(sgnc(cornerSide(a, b, c, d)));
        double sx = -77, sy = -77, rx = -77, ry = -77;
        int sc = segmentIntersectPoint(a, b, c, d, &sx, &sy);
        int rc = rayIntersectPoint(a, b, c, d, &rx, &ry);
        o.push_back('0' + sc);
        o.push_back('0' + rc);
        Polygon poly(4);
        poly.ps[0] = a; poly.ps[1] = b; poly.ps[2] = c; poly.ps[3] = d;
        const Point *qs[3] = { &a, &q, &d };
        for (int cb = 0; cb < 2; ++cb) for (int k = 0; k < 3; ++k) o.push_back(inPoly(poly, *qs[k], cb) ? '1' : '0');
        for (int k = 0; k < 3; ++k) o.push_back(inPolyGen(poly, *qs[k]) ? '1' : '0');
        double lx, ly, lx2, ly2;
        char l1 = ls_intersect(v[0], v[1], v[2], v[3], v[4], v[5], v[6], v[7], &lx, &ly);
        o.push_back(l1);
        o.push_back(ls_intersect(v[4], v[5], v[6], v[7], v[0], v[1], v[2], v[3], &lx2, &ly2));
        fputs(o.c_str(), stdout);
        if (sc == DO_INTERSECT) printf(" %.17g %.17g", sx, sy); else printf(" - -");
        if (rc == DO_INTERSECT) printf(" %.17g %.17g", rx, ry); else printf(" - -");
        printf(" %.17g", manhattanDist(a, b));
        if (l1 == '3') printf(" %.17g %.17g\n", lx, ly); else printf(" - -\n");
    }
    return 0;
}

int main(int argc, char **argv)
{
    if (argc > 1 && strcmp(argv[1], "rand") == 0) return rand_mode();
    if (argc > 1) G = atoi(argv[1]);
    if (argc > 2) GP = atoi(argv[2]);
    std::vector<Point> pts;
    for (int x = 0; x < G; ++x) for (int y = 0; y < G; ++y) pts.push_back(Point(x, y));
    size_t n = pts.size();

    // 3-point predicates
    for (size_t i = 0; i < n; ++i) for (size_t j = 0; j < n; ++j) for (size_t k = 0; k < n; ++k)
        out.push_back(sgnc(vecDir(pts[i], pts[j], pts[k])));
    flush_section("vecDir");
    for (size_t i = 0; i < n; ++i) for (size_t j = 0; j < n; ++j) for (size_t k = 0; k < n; ++k)
        out.push_back(pointOnLine(pts[i], pts[j], pts[k]) ? '1' : '0');
    flush_section("pointOnLine");
    for (size_t i = 0; i < n; ++i) for (size_t j = 0; j < n; ++j) for (size_t k = 0; k < n; ++k)
        out.push_back(colinear(pts[i], pts[j], pts[k]) ? '1' : '0');
    flush_section("colinear");
    // inBetween has the documented precondition "collinear": only those tuples
    for (size_t i = 0; i < n; ++i) for (size_t j = 0; j < n; ++j) for (size_t k = 0; k < n; ++k)
        if (vecDir(pts[i], pts[j], pts[k]) == 0)
            out.push_back(inBetween(pts[i], pts[j], pts[k]) ? '1' : '0');
        else
            out.push_back('.');
    flush_section("inBetween");

    // 4-point predicates
    for (size_t i = 0; i < n; ++i) for (size_t j = 0; j < n; ++j)
        for (size_t k = 0; k < n; ++k) for (size_t l = 0; l < n; ++l)
            out.push_back(segmentIntersect(pts[i], pts[j], pts[k], pts[l]) ? '1' : '0');
    flush_section("segmentIntersect");
    for (int seen = 0; seen < 2; ++seen)
    for (size_t i = 0; i < n; ++i) for (size_t j = 0; j < n; ++j)
        for (size_t k = 0; k < n; ++k) for (size_t l = 0; l < n; ++l) {
            bool s = seen;
            bool r = segmentShapeIntersect(pts[i], pts[j], pts[k], pts[l], s);
            out.push_back('0' + (r ? 2 : 0) + (s ? 1 : 0));
        }
    flush_section("segmentShapeIntersect");
    for (int ig = 0; ig < 2; ++ig)
    for (size_t i = 0; i < n; ++i) for (size_t j = 0; j < n; ++j)
        for (size_t k = 0; k < n; ++k) for (size_t l = 0; l < n; ++l)
            out.push_back(inValidRegion(ig, pts[i], pts[j], pts[k], pts[l]) ? '1' : '0');
    flush_section("inValidRegion");
    for (size_t i = 0; i < n; ++i) for (size_t j = 0; j < n; ++j)
        for (size_t k = 0; k < n; ++k) for (size_t l = 0; l < n; ++l)
            out.push_back(sgnc(cornerSide(pts[i], pts[j], pts[k], pts[l])));
    flush_section("cornerSide");
    for (size_t i = 0; i < n; ++i) for (size_t j = 0; j < n; ++j)
        for (size_t k = 0; k < n; ++k) for (size_t l = 0; l < n; ++l) {
            double x = -77, y = -77;
            int r = segmentIntersectPoint(pts[i], pts[j], pts[k], pts[l], &x, &y);
            out.push_back('0' + r);
        }
    flush_section("segmentIntersectPoint_code");
    for (size_t i = 0; i < n; ++i) for (size_t j = 0; j < n; ++j)
        for (size_t k = 0; k < n; ++k) for (size_t l = 0; l < n; ++l) {
            double x = -77, y = -77;
            int r = rayIntersectPoint(pts[i], pts[j], pts[k], pts[l], &x, &y);
            out.push_back('0' + r);
        }
    flush_section("rayIntersectPoint_code");
    // numeric outputs: print "x y" per DO_INTERSECT tuple
    printf("## segmentIntersectPoint_xy 0\n");
    for (size_t i = 0; i < n; ++i) for (size_t j = 0; j < n; ++j)
        for (size_t k = 0; k < n; ++k) for (size_t l = 0; l < n; ++l) {
            double x = -77, y = -77;
            int r = segmentIntersectPoint(pts[i], pts[j], pts[k], pts[l], &x, &y);
            if (r == DO_INTERSECT) printf("%zu %zu %zu %zu %.17g %.17g\n", i, j, k, l, x, y);
        }
    printf("## manhattanDist 0\n");
    for (size_t i = 0; i < n; ++i) for (size_t j = 0; j < n; ++j)
        printf("%.17g\n", manhattanDist(pts[i], pts[j]));

    // projection(a, b, c): foot of the perpendicular from b onto line a-c, for a != c
    printf("## projection_xy 0\n");
    for (size_t i = 0; i < n; ++i) for (size_t j = 0; j < n; ++j) for (size_t k = 0; k < n; ++k)
        if (!(pts[i] == pts[k])) {
            Point p = projection(pts[i], pts[j], pts[k]);
            printf("%zu %zu %zu %.17g %.17g\n", i, j, k, p.x, p.y);
        }

    // polygons: all triangles and quadrilaterals (any vertex order, incl. degenerate) on the GP grid
    std::vector<Point> pp;
    for (int x = 0; x < GP; ++x) for (int y = 0; y < GP; ++y) pp.push_back(Point(x, y));
    size_t m = pp.size();
    for (int cb = 0; cb < 2; ++cb)
    for (size_t a = 0; a < m; ++a) for (size_t b = 0; b < m; ++b) for (size_t c = 0; c < m; ++c) {
        Polygon poly(3);
        poly.ps[0] = pp[a]; poly.ps[1] = pp[b]; poly.ps[2] = pp[c];
        for (size_t q = 0; q < m; ++q) out.push_back(inPoly(poly, pp[q], cb) ? '1' : '0');
    }
    flush_section("inPoly3");
    for (size_t a = 0; a < m; ++a) for (size_t b = 0; b < m; ++b) for (size_t c = 0; c < m; ++c) {
        Polygon poly(3);
        poly.ps[0] = pp[a]; poly.ps[1] = pp[b]; poly.ps[2] = pp[c];
        for (size_t q = 0; q < m; ++q) out.push_back(inPolyGen(poly, pp[q]) ? '1' : '0');
    }
    flush_section("inPolyGen3");
    for (size_t a = 0; a < m; ++a) for (size_t b = 0; b < m; ++b) for (size_t c = 0; c < m; ++c)
    for (size_t d = 0; d < m; ++d) {
        Polygon poly(4);
        poly.ps[0] = pp[a]; poly.ps[1] = pp[b]; poly.ps[2] = pp[c]; poly.ps[3] = pp[d];
        for (size_t q = 0; q < m; ++q) out.push_back(inPoly(poly, pp[q], true) ? '1' : '0');
    }
    flush_section("inPoly4");
    for (size_t a = 0; a < m; ++a) for (size_t b = 0; b < m; ++b) for (size_t c = 0; c < m; ++c)
    for (size_t d = 0; d < m; ++d) {
        Polygon poly(4);
        poly.ps[0] = pp[a]; poly.ps[1] = pp[b]; poly.ps[2] = pp[c]; poly.ps[3] = pp[d];
        for (size_t q = 0; q < m; ++q) out.push_back(inPolyGen(poly, pp[q]) ? '1' : '0');
    }
    flush_section("inPolyGen4");

    // ---- libvpsc: LineSegment::Intersect on all pairs of segments of the G grid (including zero-length ones)
    for (size_t i = 0; i < n; ++i) for (size_t j = 0; j < n; ++j)
        for (size_t k = 0; k < n; ++k) for (size_t l = 0; l < n; ++l) {
            double x, y;
            out.push_back(ls_intersect(pts[i].x, pts[i].y, pts[j].x, pts[j].y, pts[k].x, pts[k].y, pts[l].x, pts[l].y, &x, &y));
        }
    flush_section("LineSegment_Intersect");
    printf("## LineSegment_Intersect_xy 0\n");
    for (size_t i = 0; i < n; ++i) for (size_t j = 0; j < n; ++j)
        for (size_t k = 0; k < n; ++k) for (size_t l = 0; l < n; ++l) {
            double x, y;
            char r = ls_intersect(pts[i].x, pts[i].y, pts[j].x, pts[j].y, pts[k].x, pts[k].y, pts[l].x, pts[l].y, &x, &y);
            if (r == '3') printf("%zu %zu %zu %zu %.17g %.17g\n", i, j, k, l, x, y);
        }
    // ---- vpsc::Rectangle::lineIntersections: all rectangles [x0,x1] x [y0,y1] with 0 <= x0 <= x1 < GR, 0 <= y0 <= y1 < GR
    // (zero width / height set through set_width / set_height: the constructor asserts x < X, y < Y) against all lines
    // between points of the grid [-1, GR]^2.  One char per case: 'A' + intersects + 2 top + 4 bottom + 8 left + 16 right.
    {
        int GR = (G <= 4) ? 4 : 5;
        if (argc > 3) GR = atoi(argv[3]);
        std::vector<std::pair<int,int> > lp;
        for (int x = -1; x <= GR; ++x) for (int y = -1; y <= GR; ++y) lp.push_back(std::make_pair(x, y));
        std::string xy;
        char buf[160];
        size_t ridx = 0;
        for (int x0 = 0; x0 < GR; ++x0) for (int x1 = x0; x1 < GR; ++x1)
        for (int y0 = 0; y0 < GR; ++y0) for (int y1 = y0; y1 < GR; ++y1, ++ridx) {
            vpsc::Rectangle r(x0, x0 + 1, y0, y0 + 1);
            r.set_width(x1 - x0);
            r.set_height(y1 - y0);
            for (size_t i = 0; i < lp.size(); ++i) for (size_t j = 0; j < lp.size(); ++j) {
                vpsc::RectangleIntersections ri;
                r.lineIntersections(lp[i].first, lp[i].second, lp[j].first, lp[j].second, ri);
                out.push_back((char) ('A' + (ri.intersects ? 1 : 0) + (ri.top ? 2 : 0) + (ri.bottom ? 4 : 0)
                                      + (ri.left ? 8 : 0) + (ri.right ? 16 : 0)));
                if (ri.top)    { snprintf(buf, sizeof buf, "%zu %zu %zu T %.17g %.17g\n", ridx, i, j, ri.topX, ri.topY); xy += buf; }
                if (ri.bottom) { snprintf(buf, sizeof buf, "%zu %zu %zu B %.17g %.17g\n", ridx, i, j, ri.bottomX, ri.bottomY); xy += buf; }
                if (ri.left)   { snprintf(buf, sizeof buf, "%zu %zu %zu L %.17g %.17g\n", ridx, i, j, ri.leftX, ri.leftY); xy += buf; }
                if (ri.right)  { snprintf(buf, sizeof buf, "%zu %zu %zu R %.17g %.17g\n", ridx, i, j, ri.rightX, ri.rightY); xy += buf; }
            }
        }
        flush_section("lineIntersections");
        printf("## lineIntersections_xy 0\n");
        fputs(xy.c_str(), stdout);
    }
    return 0;
}
