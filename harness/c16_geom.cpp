// C16 harness: runs the compiled libavoid geometry predicates on exhaustive integer grids.
// Output (stdout): one section per function, "## name" then one result per line-chunk.
// The OCaml driver extract/c16_driver.ml enumerates the *same* tuples in the same order.
#include <cstdio>
#include <cstdlib>
#include <cstring>
#include <vector>
#include <string>
#include "libavoid/libavoid.h"
#include "libavoid/geometry.h"

using namespace Avoid;

static int G = 5;       // grid side for point tuples
static int GP = 4;      // grid side for polygon vertices
static std::string out;

static void flush_section(const char *name)
{
    printf("## %s %zu\n", name, out.size());
    // 100 results per line keeps lines short
    for (size_t i = 0; i < out.size(); i += 100) {
        fwrite(out.data() + i, 1, std::min<size_t>(100, out.size() - i), stdout);
        fputc('\n', stdout);
    }
    out.clear();
}

static char sgnc(int v) { return v < 0 ? '-' : (v > 0 ? '+' : '0'); }

int main(int argc, char **argv)
{
    if (argc > 1) G = atoi(argv[1]);
    if (argc > 2) GP = atoi(argv[2]);
    std::vector<Point> pts;
    for (int x = 0; x < G; ++x) for (int y = 0; y < G; ++y) pts.push_back(Point(x, y));
    size_t n = pts.size();

    // 3-point predicates
    for (size_t i = 0; i < n; ++i) for (size_t j = 0; j < n; ++j) for (size_t k = 0; k < n; ++k)
        out.push_back(sgnc(vecDir(pts[i], pts[j], pts[k])));
    flush_section("vecDir");
    for (size_t i = 0; i < n; ++i) for (size_t j = 0; j < n; ++j) for (size_t k = 0; k < n; ++k)
        out.push_back(pointOnLine(pts[i], pts[j], pts[k]) ? '1' : '0');
    flush_section("pointOnLine");
    for (size_t i = 0; i < n; ++i) for (size_t j = 0; j < n; ++j) for (size_t k = 0; k < n; ++k)
        out.push_back(colinear(pts[i], pts[j], pts[k]) ? '1' : '0');
    flush_section("colinear");
    // inBetween has the documented precondition "collinear": only those tuples
    for (size_t i = 0; i < n; ++i) for (size_t j = 0; j < n; ++j) for (size_t k = 0; k < n; ++k)
        if (vecDir(pts[i], pts[j], pts[k]) == 0)
            out.push_back(inBetween(pts[i], pts[j], pts[k]) ? '1' : '0');
        else
            out.push_back('.');
    flush_section("inBetween");

    // 4-point predicates
    for (size_t i = 0; i < n; ++i) for (size_t j = 0; j < n; ++j)
        for (size_t k = 0; k < n; ++k) for (size_t l = 0; l < n; ++l)
            out.push_back(segmentIntersect(pts[i], pts[j], pts[k], pts[l]) ? '1' : '0');
    flush_section("segmentIntersect");
    for (int seen = 0; seen < 2; ++seen)
    for (size_t i = 0; i < n; ++i) for (size_t j = 0; j < n; ++j)
        for (size_t k = 0; k < n; ++k) for (size_t l = 0; l < n; ++l) {
            bool s = seen;
            bool r = segmentShapeIntersect(pts[i], pts[j], pts[k], pts[l], s);
            out.push_back('0' + (r ? 2 : 0) + (s ? 1 : 0));
        }
    flush_section("segmentShapeIntersect");
    for (int ig = 0; ig < 2; ++ig)
    for (size_t i = 0; i < n; ++i) for (size_t j = 0; j < n; ++j)
        for (size_t k = 0; k < n; ++k) for (size_t l = 0; l < n; ++l)
            out.push_back(inValidRegion(ig, pts[i], pts[j], pts[k], pts[l]) ? '1' : '0');
    flush_section("inValidRegion");
    for (size_t i = 0; i < n; ++i) for (size_t j = 0; j < n; ++j)
        for (size_t k = 0; k < n; ++k) for (size_t l = 0; l < n; ++l)
            out.push_back(sgnc(cornerSide(pts[i], pts[j], pts[k], pts[l])));
    flush_section("cornerSide");
    for (size_t i = 0; i < n; ++i) for (size_t j = 0; j < n; ++j)
        for (size_t k = 0; k < n; ++k) for (size_t l = 0; l < n; ++l) {
            double x = -77, y = -77;
            int r = segmentIntersectPoint(pts[i], pts[j], pts[k], pts[l], &x, &y);
            out.push_back('0' + r);
        }
    flush_section("segmentIntersectPoint_code");
    for (size_t i = 0; i < n; ++i) for (size_t j = 0; j < n; ++j)
        for (size_t k = 0; k < n; ++k) for (size_t l = 0; l < n; ++l) {
            double x = -77, y = -77;
            int r = rayIntersectPoint(pts[i], pts[j], pts[k], pts[l], &x, &y);
            out.push_back('0' + r);
        }
    flush_section("rayIntersectPoint_code");
    // numeric outputs: print "x y" per DO_INTERSECT tuple
    printf("## segmentIntersectPoint_xy 0\n");
    for (size_t i = 0; i < n; ++i) for (size_t j = 0; j < n; ++j)
        for (size_t k = 0; k < n; ++k) for (size_t l = 0; l < n; ++l) {
            double x = -77, y = -77;
            int r = segmentIntersectPoint(pts[i], pts[j], pts[k], pts[l], &x, &y);
            if (r == DO_INTERSECT) printf("%zu %zu %zu %zu %.17g %.17g\n", i, j, k, l, x, y);
        }
    printf("## manhattanDist 0\n");
    for (size_t i = 0; i < n; ++i) for (size_t j = 0; j < n; ++j)
        printf("%.17g\n", manhattanDist(pts[i], pts[j]));

    // polygons: all triangles and quadrilaterals (any vertex order, incl. degenerate) on the GP grid
    std::vector<Point> pp;
    for (int x = 0; x < GP; ++x) for (int y = 0; y < GP; ++y) pp.push_back(Point(x, y));
    size_t m = pp.size();
    for (int cb = 0; cb < 2; ++cb)
    for (size_t a = 0; a < m; ++a) for (size_t b = 0; b < m; ++b) for (size_t c = 0; c < m; ++c) {
        Polygon poly(3);
        poly.ps[0] = pp[a]; poly.ps[1] = pp[b]; poly.ps[2] = pp[c];
        for (size_t q = 0; q < m; ++q) out.push_back(inPoly(poly, pp[q], cb) ? '1' : '0');
    }
    flush_section("inPoly3");
    for (size_t a = 0; a < m; ++a) for (size_t b = 0; b < m; ++b) for (size_t c = 0; c < m; ++c) {
        Polygon poly(3);
        poly.ps[0] = pp[a]; poly.ps[1] = pp[b]; poly.ps[2] = pp[c];
        for (size_t q = 0; q < m; ++q) out.push_back(inPolyGen(poly, pp[q]) ? '1' : '0');
    }
    flush_section("inPolyGen3");
    for (size_t a = 0; a < m; ++a) for (size_t b = 0; b < m; ++b) for (size_t c = 0; c < m; ++c)
    for (size_t d = 0; d < m; ++d) {
        Polygon poly(4);
        poly.ps[0] = pp[a]; poly.ps[1] = pp[b]; poly.ps[2] = pp[c]; poly.ps[3] = pp[d];
        for (size_t q = 0; q < m; ++q) out.push_back(inPoly(poly, pp[q], true) ? '1' : '0');
    }
    flush_section("inPoly4");
    for (size_t a = 0; a < m; ++a) for (size_t b = 0; b < m; ++b) for (size_t c = 0; c < m; ++c)
    for (size_t d = 0; d < m; ++d) {
        Polygon poly(4);
        poly.ps[0] = pp[a]; poly.ps[1] = pp[b]; poly.ps[2] = pp[c]; poly.ps[3] = pp[d];
        for (size_t q = 0; q < m; ++q) out.push_back(inPolyGen(poly, pp[q]) ? '1' : '0');
    }
    flush_section("inPolyGen4");
    return 0;
}
