// C17 harness: shortest_paths::{floyd_warshall,johnsons,dijkstra}, ConstrainedFDLayout::readLinearD/G and
// PairingHeap, all compiled from /repo's working tree.  Reads cases from stdin, prints canonical results.
//
// input records (text):
//   S <id> <n> <m> <weighted 0|1>          then m lines "u v num den"   (edge u-v, weight num/den)
//        -> floyd_warshall, johnsons, dijkstra from every source
//   L <id> <n> <m> <weighted 0|1> <ideal_num> <ideal_den>   then m lines "u v num den"
//        -> ConstrainedFDLayout(rs, es, ideal, eLengths).readLinearD() / readLinearG()
//   H <id> <mode 0|1> <nops>               then nops lines, one op each:
//        I h key | F h | D h | X h | K h r dec | M a b
//        mode 0: PairingHeap<int> (std::less);  mode 1: PairingHeap<pair<int,int>, CmpFirst> (key,id)
// output: numbers as C99 hex floats (%a), the sentinel numeric_limits<double>::max() as "M".
#include <cstddef>
#include <cfloat>
#include <cstdio>
#include <cstdlib>
#include <cstring>
#include <vector>
#include <valarray>
#include <string>
#include <map>
#include <limits>
#include <utility>
#include <functional>
#include <iostream>
#include <sstream>
#define private public
#define protected public
#include "libvpsc/pairing_heap.h"
#include "libvpsc/rectangle.h"
#include "libcola/shortest_paths.h"
#include "libcola/cola.h"
#undef private
#undef protected

typedef std::pair<unsigned, unsigned> Edge;

static void print_val(double v)
{
    if (v == std::numeric_limits<double>::max()) fputs(" M", stdout);
    else printf(" %a", v);
}
static void print_matrix(const char *tag, unsigned n, double **D)
{
    fputs(tag, stdout);
    for (unsigned i = 0; i < n; ++i) for (unsigned j = 0; j < n; ++j) print_val(D[i][j]);
    fputc('\n', stdout);
}
static double **alloc(unsigned n)
{
    double **D = new double*[n];
    for (unsigned i = 0; i < n; ++i) { D[i] = new double[n]; for (unsigned j = 0; j < n; ++j) D[i][j] = -12345.0; }
    return D;
}
static void release(unsigned n, double **D)
{
    for (unsigned i = 0; i < n; ++i) delete[] D[i];
    delete[] D;
}

static bool read_edges(unsigned m, std::vector<Edge> &es, std::vector<double> &ws)
{
    for (unsigned e = 0; e < m; ++e) {
        unsigned u, v; long long num, den;
        if (scanf("%u %u %lld %lld", &u, &v, &num, &den) != 4) return false;
        es.push_back(Edge(u, v));
        ws.push_back((double) num / (double) den);
    }
    return true;
}

static void do_sp(const char *id, unsigned n, const std::vector<Edge> &es, const std::vector<double> &ws, int weighted)
{
    std::valarray<double> w(weighted ? ws.size() : 0);
    if (weighted) for (size_t i = 0; i < ws.size(); ++i) w[i] = ws[i];
    printf("S %s %u\n", id, n);
    double **D = alloc(n);
    shortest_paths::floyd_warshall(n, D, es, w);
    print_matrix("FW", n, D);
    release(n, D);
    D = alloc(n);
    shortest_paths::johnsons(n, D, es, w);
    print_matrix("JO", n, D);
    release(n, D);
    D = alloc(n);
    for (unsigned s = 0; s < n; ++s) shortest_paths::dijkstra(s, n, D[s], es, w);
    print_matrix("DJ", n, D);
    release(n, D);
}

static void do_layout(const char *id, unsigned n, const std::vector<Edge> &es, const std::vector<double> &ws,
                      int weighted, double ideal)
{
    vpsc::Rectangles rs;
    for (unsigned i = 0; i < n; ++i) rs.push_back(new vpsc::Rectangle(10.0 * i, 10.0 * i + 4, 3.0 * i, 3.0 * i + 4));
    cola::EdgeLengths el;
    if (weighted) el = ws;
    cola::ConstrainedFDLayout alg(rs, es, ideal, el);
    std::vector<double> d = alg.readLinearD();
    std::vector<unsigned> g = alg.readLinearG();
    printf("L %s %u\n", id, n);
    fputs("LD", stdout);
    for (size_t i = 0; i < d.size(); ++i) print_val(d[i]);
    fputc('\n', stdout);
    fputs("LG", stdout);
    // G[i][i] is never written by computePathLengths (except through a self-loop edge): print "-" there
    for (unsigned i = 0; i < n; ++i) for (unsigned j = 0; j < n; ++j) {
        if (i == j) fputs(" -", stdout); else printf(" %u", g[n * i + j]);
    }
    fputc('\n', stdout);
    for (unsigned i = 0; i < n; ++i) delete rs[i];
}

// ---------------------------------------------------------------------------------------------- pairing heap
struct CmpFirst {
    bool operator()(const std::pair<int,int> &a, const std::pair<int,int> &b) const { return a.first < b.first; }
};
template <class T> struct Elt;
template <> struct Elt<int> {
    static int make(int key, int) { return key; }
    static int key(const int &e) { return e; }
    static void print(std::string &s, const int &e) { char b[32]; snprintf(b, sizeof b, "%d", e); s += b; }
};
template <> struct Elt<std::pair<int,int> > {
    static std::pair<int,int> make(int key, int id) { return std::make_pair(key, id); }
    static int key(const std::pair<int,int> &e) { return e.first; }
    static void print(std::string &s, const std::pair<int,int> &e) { char b[48]; snprintf(b, sizeof b, "%d.%d", e.first, e.second); s += b; }
};

template <class T>
static void dump(std::string &s, PairNode<T> *t)
{
    // a node and its child list (leftChild, then nextSibling chain), preorder
    Elt<T>::print(s, t->element);
    if (t->leftChild) {
        s += "[";
        bool first = true;
        for (PairNode<T> *c = t->leftChild; c; c = c->nextSibling) {
            if (!first) s += " ";
            first = false;
            dump(s, c);
        }
        s += "]";
    }
}

template <class T, class C>
static void do_heap(const char *id, int mode, unsigned nops)
{
    PairingHeap<T, C> *hp[2] = { new PairingHeap<T, C>(), new PairingHeap<T, C>() };
    std::vector<PairNode<T>*> node;      // by id
    std::vector<int> where;              // id -> heap index, -1 = deleted
    std::map<PairNode<T>*, int> idof;
    printf("H %s %d\n", id, mode);
    for (unsigned o = 0; o < nops; ++o) {
        char op[8]; int a = 0, b = 0, c = 0;
        if (scanf("%7s", op) != 1) break;
        std::string line;
        char buf[64];
        switch (op[0]) {
        case 'I': {
            if (scanf("%d %d", &a, &b) != 2) return;
            int nid = (int) node.size();
            PairNode<T> *p = hp[a]->insert(Elt<T>::make(b, nid));
            node.push_back(p); where.push_back(a); idof[p] = nid;
            snprintf(buf, sizeof buf, "I %d", nid); line = buf;
            break; }
        case 'F': {
            if (scanf("%d", &a) != 1) return;
            try { T v = hp[a]->findMin(); line = "F "; Elt<T>::print(line, v); }
            catch (Underflow &) { line = "F U"; }
            break; }
        case 'D': case 'X': {
            if (scanf("%d", &a) != 1) return;
            int rid = hp[a]->root ? idof[hp[a]->root] : -1;
            try {
                if (op[0] == 'D') { hp[a]->deleteMin(); line = "D"; }
                else { T v = hp[a]->extractMin(); line = "X "; Elt<T>::print(line, v); }
                where[rid] = -1;
            } catch (Underflow &) { line = std::string(1, op[0]) + " U"; }
            break; }
        case 'K': {
            if (scanf("%d %d %d", &a, &b, &c) != 3) return;
            std::vector<int> live;
            for (size_t i = 0; i < where.size(); ++i) if (where[i] == a) live.push_back((int) i);
            if (live.empty()) { line = "K -"; break; }
            int nid = live[b % live.size()];
            int nk = Elt<T>::key(node[nid]->element) - c;
            hp[a]->decreaseKey(node[nid], Elt<T>::make(nk, nid));
            snprintf(buf, sizeof buf, "K %d %d", nid, nk); line = buf;
            break; }
        case 'M': {
            if (scanf("%d %d", &a, &b) != 2) return;
            hp[a]->merge(hp[b]);
            for (size_t i = 0; i < where.size(); ++i) if (where[i] == b) where[i] = a;
            line = "M";
            break; }
        default: return;
        }
        // state of both heaps after the op: size and structure
        for (int h = 0; h < 2; ++h) {
            snprintf(buf, sizeof buf, " | %u ", hp[h]->size()); line += buf;
            if (hp[h]->root) dump(line, hp[h]->root); else line += "-";
        }
        puts(line.c_str());
    }
    delete hp[0]; delete hp[1];
}

int main()
{
    char kind[8], id[64];
    while (scanf("%7s %63s", kind, id) == 2) {
        if (kind[0] == 'S' || kind[0] == 'L') {
            unsigned n, m; int weighted; long long inum = 1, iden = 1;
            if (scanf("%u %u %d", &n, &m, &weighted) != 3) return 2;
            if (kind[0] == 'L' && scanf("%lld %lld", &inum, &iden) != 2) return 2;
            std::vector<Edge> es; std::vector<double> ws;
            if (!read_edges(m, es, ws)) return 2;
            if (kind[0] == 'S') do_sp(id, n, es, ws, weighted);
            else do_layout(id, n, es, ws, weighted, (double) inum / (double) iden);
        } else if (kind[0] == 'H') {
            int mode; unsigned nops;
            if (scanf("%d %u", &mode, &nops) != 2) return 2;
            if (mode == 0) do_heap<int, std::less<int> >(id, mode, nops);
            else do_heap<std::pair<int,int>, CmpFirst>(id, mode, nops);
        } else return 2;
        fflush(stdout);
    }
    return 0;
}
