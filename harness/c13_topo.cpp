// C13 harness.
//  mode `tri`   : stdin lines "dim left pn gn u1 u2 v1 v2 w1 w2" (integers; p = pn/8, g = gn/2^15, positions n/2^15, all exact
//                 in binary64).  Builds real topology::Node objects (rectangle centre = initial position, variable
//                 finalPosition = final position) and a real TriConstraint through its constructor, prints
//                 "%a %a %a %a" = maxSafeAlpha, slackAtInitial, slackAtFinal, slack(u2,v1,w2)   or "EXC <what>".
//  mode `layout <seed> <V> <extraEdges> <W>` : a seedable variant of libtopology/tests/beautify.cpp: random connected graph,
//                 random positions, unconstrained force-directed layout, overlap removal, libavoid poly-line routes turned
//                 into topology routes, then ConstrainedFDLayout with ColaTopologyAddon.  Prints the geometry before and
//                 after the topology-preserving run:
//                   "PHASE <name>" / "N <id> %a %a %a %a" (xmin ymin xmax ymax) / "P <edge> <src> <dst> <k> (<node> <kind> %a %a)*k" / "END"
//                 kind: libtopology RectIntersect (0 TR, 1 BR, 2 BL, 3 TL, 4 CENTRE).  "EXC <what>" if an assertion of the
//                 library (assertNoSegmentRectIntersection, assertConvexBends, assertFeasible, noOverlaps ...) fired.
//  mode `scenes` : stdin = explicit scenes (lattice-aligned and resize families of checks/c13.py); every scene runs in a
//                 fork()ed child (an NDEBUG build of a broken library may loop or crash):
//                   SCENE <tag>
//                   NODE x0 x1 y0 y1                         (id = order of appearance)
//                   EDGE k (node kind)*k                     (id = order; kinds as above, first/last = 4)
//                   MOVE dim k (id desired weight)*k         ColaTopologyAddon::moveTo: one TopologyConstraints, solve() until not interrupted
//                                                            + an "MI <op> ..." line (see move_info below): coords[] returned vs rectangle centres, and the state
//                                                            after the call compared with every iteration of a reference loop (the library's own
//                                                            TopologyConstraints::solve() repeated on a copy of the scene made before the call)
//                   RESIZE k (id x y w h)*k                  ColaTopologyAddon::handleResizes (topology::applyResizes)
//                   DRAG dim nsteps (k (id desired weight)*k)*nsteps
//                                                            ONE topology::TopologyConstraints(dim, nodes, edges, nullptr, vs, cs) kept alive over
//                                                            all steps (the usage of libtopology/tests/simple_bend.cpp): per step every node
//                                                            variable gets desiredPosition = its current centre, weight 1, then the listed
//                                                            (desired, weight) overrides, then tc.solve() until not interrupted (<= 100 times);
//                                                            the state is dumped after every step as "op<i>.s<j>" and at the end as "op<i>"
//                   LAYOUT iters nl (id x y)*nl nr (id x y w h)*nr   ConstrainedFDLayout::run with the addon, PreIteration locks (all
//                                                            iterations) and resizes (first iteration)
//                   ENDSCENE
//                 prints "SCENE <tag>", PHASE blocks ("before", "op<i>", and "op<i>.it<j>" per layout iteration), "EXC ..." and
//                 "ENDSCENE <tag> <ok|signal n|exit n|timeout>".
#include <cstdio>
#include <cstdlib>
#include <cstring>
#include <cstddef>
#include <cfloat>
#include <cmath>
#include <sys/time.h>
#include <sys/wait.h>
#include <unistd.h>
#include <signal.h>
#include <vector>
#include <string>
#include <iostream>
#include <sstream>
#include <valarray>
#include <algorithm>
#include <map>
#include <set>
#define private public
#define protected public
#include "libvpsc/rectangle.h"
#include "libvpsc/variable.h"
#include "libvpsc/constraint.h"
#include "libvpsc/solve_VPSC.h"
#include "libvpsc/assertions.h"
#include "libavoid/libavoid.h"
#include "libavoid/router.h"
#include "libcola/cola.h"
#include "libtopology/topology_graph.h"
#include "libtopology/topology_constraints.h"
#include "libtopology/cola_topology_addon.h"
#include "libtopology/topology_log.h"
#include "libcola/cola_log.h"
#undef private
#undef protected

static unsigned long long sm_state;
static unsigned long long sm_next() {
    sm_state += 0x9E3779B97F4A7C15ULL;
    unsigned long long z = sm_state;
    z = (z ^ (z >> 30)) * 0xBF58476D1CE4E5B9ULL;
    z = (z ^ (z >> 27)) * 0x94D049BB133111EBULL;
    return z ^ (z >> 31);
}
static double sm_unit() { return (double)(sm_next() >> 11) / 9007199254740992.0; }
static unsigned sm_below(unsigned n) { return (unsigned)(sm_next() % n); }

static int tri_mode()
{
    std::string line;
    while (std::getline(std::cin, line)) {
        if (line.empty()) continue;
        long dim, left, pn, gn, a[6];
        std::istringstream is(line);
        is >> dim >> left >> pn >> gn;
        for (int i = 0; i < 6; ++i) is >> a[i];
        double p = pn / 8.0, g = gn / 32768.0, x[6];
        for (int i = 0; i < 6; ++i) x[i] = a[i] / 32768.0;
        vpsc::Dim d = dim == 0 ? vpsc::XDIM : vpsc::YDIM;
        std::vector<vpsc::Rectangle*> rs;
        std::vector<vpsc::Variable*> vs;
        std::vector<topology::Node*> ns;
        try {
        for (int i = 0; i < 3; ++i) {
            double c = x[2 * i];
            vpsc::Rectangle *r = d == vpsc::XDIM ? new vpsc::Rectangle(c - 1, c + 1, -1, 1) : new vpsc::Rectangle(-1, 1, c - 1, c + 1);
            vpsc::Variable *v = new vpsc::Variable(i, x[2 * i + 1], 1);
            v->finalPosition = x[2 * i + 1];
            rs.push_back(r); vs.push_back(v);
            ns.push_back(new topology::Node(i, r, v));
        }
        } catch (...) { printf("EXC node construction\n"); continue; }
        try {
            topology::TriConstraint *t = new topology::TriConstraint(d, ns[0], ns[1], ns[2], p, g, left != 0);
            double m = t->maxSafeAlpha();
            printf("%a %a %a %a\n", m, t->slackAtInitial(), t->slackAtFinal(), t->slack(x[1], x[2], x[5]));
            delete t;
#ifndef NDEBUG
        } catch (vpsc::CriticalFailure &f) {
            printf("EXC %s\n", f.expr);
#endif
        } catch (...) {
            printf("EXC unknown\n");
        }
        for (size_t i = 0; i < ns.size(); ++i) { delete ns[i]; delete vs[i]; delete rs[i]; }
    }
    return 0;
}

static void dump(const char *phase, std::vector<topology::Node*> &tn, std::vector<topology::Edge*> &routes,
                 std::vector<cola::Edge> &es)
{
    printf("PHASE %s\n", phase);
    for (size_t i = 0; i < tn.size(); ++i) {
        vpsc::Rectangle *r = tn[i]->rect;
        printf("N %u %a %a %a %a\n", tn[i]->id, r->getMinX(), r->getMinY(), r->getMaxX(), r->getMaxY());
    }
    for (size_t i = 0; i < routes.size(); ++i) {
        topology::ConstEdgePoints pts;
        routes[i]->getPath(pts);
        printf("P %u %u %u %zu", routes[i]->id, es[routes[i]->id].first, es[routes[i]->id].second, pts.size());
        for (size_t j = 0; j < pts.size(); ++j)
            printf(" %u %d %a %a", pts[j]->node->id, (int) pts[j]->rectIntersect, pts[j]->posX(), pts[j]->posY());
        printf("\n");
    }
    printf("END\n");
}

// convergence test that also dumps the topology after every iteration of the topology-preserving run ("during layout")
struct DumpingTest : public cola::TestConvergence {
    std::vector<topology::Node*> *tn; std::vector<topology::Edge*> *routes; std::vector<cola::Edge> *es; bool on; int it; const char *prefix;
    DumpingTest(double tol, unsigned maxit) : cola::TestConvergence(tol, maxit), tn(nullptr), routes(nullptr), es(nullptr), on(false), it(0), prefix(nullptr) {}
    virtual bool operator()(const double new_stress, std::valarray<double> &X, std::valarray<double> &Y) {
        bool r = cola::TestConvergence::operator()(new_stress, X, Y);
        if (on) { char nm[64]; if (prefix) snprintf(nm, sizeof nm, "%s.it%d", prefix, ++it); else snprintf(nm, sizeof nm, "iter%d", ++it); dump(nm, *tn, *routes, *es); }
        return r;
    }
};

static double EXTRA_GAP = 1e-5;   // beautify.cpp uses 1e-5 (nodes end up touching); the check's main stream uses 0.5
static void removeoverlapsX(vpsc::Rectangles &rs, bool both)
{
    // as libtopology/tests/beautify.cpp
    unsigned n = rs.size();
    vpsc::Rectangle::setXBorder(EXTRA_GAP);
    vpsc::Rectangle::setYBorder(EXTRA_GAP);
    vpsc::Variables vs(n);
    for (unsigned i = 0; i < n; ++i) vs[i] = new vpsc::Variable(i, 0, 1);
    vpsc::Constraints cs;
    vpsc::generateXConstraints(rs, vs, cs, both);
    {
        vpsc::IncSolver s(vs, cs); s.solve();
    }
    for (unsigned i = 0; i < n; ++i) rs[i]->moveCentreX(vs[i]->finalPosition);
    for (size_t i = 0; i < cs.size(); ++i) delete cs[i];
    cs.clear();
    if (both) {
        vpsc::Rectangle::setXBorder(0);
        vpsc::generateYConstraints(rs, vs, cs);
        { vpsc::IncSolver s(vs, cs); s.solve(); }
        for (unsigned i = 0; i < n; ++i) rs[i]->moveCentreY(vs[i]->finalPosition);
        for (size_t i = 0; i < cs.size(); ++i) delete cs[i];
        cs.clear();
        vpsc::Rectangle::setYBorder(0);
        vpsc::generateXConstraints(rs, vs, cs, false);
        { vpsc::IncSolver s(vs, cs); s.solve(); }
        for (unsigned i = 0; i < n; ++i) rs[i]->moveCentreX(vs[i]->finalPosition);
        for (size_t i = 0; i < cs.size(); ++i) delete cs[i];
    }
    for (unsigned i = 0; i < n; ++i) delete vs[i];
    vpsc::Rectangle::setXBorder(0);
    vpsc::Rectangle::setYBorder(0);
}

static int layout_mode(unsigned long long seed, unsigned V, unsigned extra, double W, int both)
{
    sm_state = seed;
    std::vector<cola::Edge> es;
    cola::CompoundConstraints cy;
    std::set<std::pair<unsigned, unsigned> > have;
    for (unsigned v = 1; v < V; ++v) {            // random tree, edges directed downwards as in beautify.cpp
        unsigned u = sm_below(v);
        es.push_back(std::make_pair(u, v)); have.insert(std::make_pair(u, v));
        cy.push_back(new cola::SeparationConstraint(vpsc::YDIM, u, v, 5));
    }
    for (unsigned k = 0; k < extra; ++k) {
        unsigned a = sm_below(V), b = sm_below(V);
        if (a == b) continue;
        if (a > b) std::swap(a, b);
        if (have.count(std::make_pair(a, b))) continue;
        have.insert(std::make_pair(a, b));
        es.push_back(std::make_pair(a, b));
        cy.push_back(new cola::SeparationConstraint(vpsc::YDIM, a, b, 5));
    }
    std::vector<vpsc::Rectangle*> rs;
    std::vector<topology::Node*> tn;
    std::vector<topology::Edge*> routes;
    for (unsigned i = 0; i < V; ++i) {
        double x = sm_unit() * W, y = sm_unit() * W;
        double w = 10 + sm_below(31), h = 6 + sm_below(15);
        vpsc::Rectangle *r = new vpsc::Rectangle(x, x + w, y, y + h);
        rs.push_back(r);
        tn.push_back(new topology::Node(i, r));
    }
    double L = 40;
    try {
        DumpingTest test(0.01, 100);
        cola::ConstrainedFDLayout alg(rs, es, L, cola::StandardEdgeLengths, &test);
        alg.setConstraints(cy);
        alg.run();
        removeoverlapsX(rs, both != 0);
        // libavoid routes -> topology routes
        Avoid::Router *router = new Avoid::Router(Avoid::PolyLineRouting);
        router->UseLeesAlgorithm = true;
        router->InvisibilityGrph = false;
        for (unsigned i = 0; i < rs.size(); ++i) {
            Avoid::Rectangle shapeRect(Avoid::Point(rs[i]->getMinX(), rs[i]->getMinY()), Avoid::Point(rs[i]->getMaxX(), rs[i]->getMaxY()));
            new Avoid::ShapeRef(router, shapeRect, i + 1);
        }
        std::vector<Avoid::ConnRef*> conns(es.size());
        for (unsigned i = 0; i < es.size(); ++i) {
            vpsc::Rectangle *r0 = rs[es[i].first], *r1 = rs[es[i].second];
            conns[i] = new Avoid::ConnRef(router, Avoid::Point(r0->getCentreX(), r0->getCentreY()),
                                          Avoid::Point(r1->getCentreX(), r1->getCentreY()), i + rs.size() + 1);
        }
        router->processTransaction();
        for (unsigned i = 0; i < es.size(); ++i) {
            const Avoid::Polygon &route = conns[i]->route();
            std::vector<topology::EdgePoint*> eps;
            eps.push_back(new topology::EdgePoint(tn[es[i].first], topology::EdgePoint::CENTRE));
            for (size_t j = 1; j + 1 < route.size(); j++) {
                const Avoid::Point &p = route.ps[j];
                if (p.id < 1 || p.id > rs.size() || p.vn > 3) { printf("SKIP route point without shape corner\n"); return 0; }
                topology::EdgePoint::RectIntersect ri;
                switch (p.vn) {
                    case 0: ri = topology::EdgePoint::BR; break;
                    case 1: ri = topology::EdgePoint::TR; break;
                    case 2: ri = topology::EdgePoint::TL; break;
                    default: ri = topology::EdgePoint::BL; break;
                }
                eps.push_back(new topology::EdgePoint(tn[p.id - 1], ri));
            }
            eps.push_back(new topology::EdgePoint(tn[es[i].second], topology::EdgePoint::CENTRE));
            topology::Edge *er = new topology::Edge(i, L, eps);
            routes.push_back(er);
        }
        delete router;
        dump("before", tn, routes, es);
        test.reset();
        test.tn = &tn; test.routes = &routes; test.es = &es; test.on = true;
        topology::ColaTopologyAddon topo(tn, routes);
        alg.setTopology(&topo);
        alg.run();
        dump("after", tn, routes, es);
#ifndef NDEBUG
    } catch (vpsc::CriticalFailure &f) {
        printf("EXC %s | %s:%d\n", f.expr, f.file, f.line);
#endif
    } catch (const char *s) {
        printf("EXC %s\n", s);
    } catch (std::exception &e) {
        printf("EXC std %s\n", e.what());
    } catch (...) {
        printf("EXC unknown\n");
    }
    return 0;
}


// ------------------------------------------------------------------------------------------------ explicit scenes
struct ScenePre : public cola::PreIteration {
    cola::Locks lk; cola::Resizes rz; int calls;
    ScenePre() : cola::PreIteration(lk, rz), calls(0) {}
    virtual bool operator()() { if (++calls > 1) rz.clear(); changed = calls <= 2; return true; }
};

// copy of the current scene: same node ids / rectangles, every path rebuilt from its (node, corner) sequence
static void clone_scene(std::vector<topology::Node*> &tn, std::vector<topology::Edge*> &routes,
                        std::vector<vpsc::Rectangle*> &rs2, std::vector<topology::Node*> &tn2, std::vector<topology::Edge*> &routes2)
{
    for (size_t i = 0; i < tn.size(); ++i) {
        vpsc::Rectangle *r = tn[i]->rect;
        rs2.push_back(new vpsc::Rectangle(r->getMinX(), r->getMaxX(), r->getMinY(), r->getMaxY()));
        tn2.push_back(new topology::Node(tn[i]->id, rs2.back()));
    }
    for (size_t i = 0; i < routes.size(); ++i) {
        topology::ConstEdgePoints pts;
        routes[i]->getPath(pts);
        std::vector<topology::EdgePoint*> eps;
        for (size_t j = 0; j < pts.size(); ++j) eps.push_back(new topology::EdgePoint(tn2.at(pts[j]->node->id), pts[j]->rectIntersect));
        routes2.push_back(new topology::Edge(routes[i]->id, routes[i]->idealLength, eps));
    }
}

// "MI" line: observable behaviour of ColaTopologyAddon::moveTo against the loop model of coq/theories/Topology/MoveToModel.v
//   model: repeat { one TopologyConstraints::solve() = VPSC solve, safe step with alpha = min maxSafeAlpha, one topology event } while interrupted,
//          at most N times; then return the rectangle centres of the LAST state a safe step produced (no further move).
//   reference = that loop transcribed with the library's own solve() on a copy of the scene made before the call, run until solve() is no longer
//          interrupted (at most REF_MAX iterations, far beyond the addon's budget), node centres recorded after every iteration.
//   MI <op> n=<nodes> coords_eq_centres=<0|1> coords_dev=<max |coords - centre|> at_final=<0|1> ref_iters=<k> ref_converged=<0|1> ref_exc=<0|1> match_first=<k|-1> match_last=<k|-1> pos_match=<k|-1>
//           dev_min=<%g> dev_end=<%g> events=<change of the total number of path segments during moveTo: a lower bound on its topology events>
//   coords_eq_centres: coords[] returned by moveTo == rect centres, exactly;  at_final: every rect centre == its variable's finalPosition (the last step
//   had alpha = 1);  match_*: first / last reference iteration whose node centres (<= 1e-9) AND paths ((node, corner) sequences) equal those after moveTo;
//   -1: the state moveTo left behind is not the state after ANY number of safe steps (pos_match: first iteration whose node centres alone match).  The iteration cap is not observable directly (loopBreaker is a local of moveTo): it is inferred as
//   "match_last < ref_iters" (the reference went on, moveTo stopped) - on the unchanged tree then match_last == 100.
static const int REF_MAX = 600;
static long total_segments(std::vector<topology::Edge*> &routes)
{
    long s = 0;
    for (size_t i = 0; i < routes.size(); ++i) s += (long) routes[i]->nSegments;
    return s;
}
static std::string path_signature(std::vector<topology::Edge*> &routes)
{
    std::ostringstream o;
    for (size_t i = 0; i < routes.size(); ++i) {
        topology::ConstEdgePoints pts;
        routes[i]->getPath(pts);
        for (size_t j = 0; j < pts.size(); ++j) o << pts[j]->node->id << '.' << (int) pts[j]->rectIntersect << ' ';
        o << '|';
    }
    return o.str();
}
static void move_info(const char *nm, vpsc::Dim d, std::vector<topology::Node*> &tn, std::vector<topology::Edge*> &routes, long segs_before,
                      vpsc::Variables &vs, std::valarray<double> &coords, std::vector<topology::Node*> &tn2, std::vector<topology::Edge*> &routes2, vpsc::Variables &vs2, vpsc::Constraints &cs2)
{
    size_t n = tn.size();
    int ceq = 1, atf = 1;
    double cdev = 0;
    for (size_t i = 0; i < n; ++i) {
        double c = tn[i]->rect->getCentreD(d);
        if (!(coords[tn[i]->id] == c)) ceq = 0;
        if (!(fabs(coords[tn[i]->id] - c) <= cdev)) cdev = fabs(coords[tn[i]->id] - c);
        if (!(fabs(vs[i]->finalPosition - c) <= 1e-9)) atf = 0;
    }
    std::vector<std::vector<double> > rec;
    std::vector<std::string> recp;
    std::string sig = path_signature(routes);
    int ref_exc = 0, conv = 0;
    try {
        topology::setNodeVariables(tn2, vs2);
        topology::TopologyConstraints tc(d, tn2, routes2, nullptr, vs2, cs2);
        for (int it = 0; it < REF_MAX; ++it) {
            bool intr = tc.solve();
            std::vector<double> c(n);
            for (size_t i = 0; i < n; ++i) c[i] = tn2[i]->rect->getCentreD(d);
            rec.push_back(c);
            recp.push_back(path_signature(routes2));
            if (!intr) { conv = 1; break; }
        }
    } catch (...) {
        ref_exc = 1;
    }
    int mf = -1, ml = -1, pm = -1;
    double dmin = 1e300, dend = -1;
    for (size_t k = 0; k < rec.size(); ++k) {
        double dev = 0;
        for (size_t i = 0; i < n; ++i) dev = std::max(dev, fabs(rec[k][i] - tn[i]->rect->getCentreD(d)));
        if (dev <= 1e-9 && pm < 0) pm = (int) k + 1;
        if (dev <= 1e-9 && recp[k] == sig) { if (mf < 0) mf = (int) k + 1; ml = (int) k + 1; }
        if (dev < dmin) dmin = dev;
        dend = dev;
    }
    printf("MI %s n=%zu coords_eq_centres=%d coords_dev=%g at_final=%d ref_iters=%zu ref_converged=%d ref_exc=%d match_first=%d match_last=%d pos_match=%d dev_min=%g dev_end=%g events=%ld\n",
           nm, n, ceq, cdev, atf, rec.size(), conv, ref_exc, mf, ml, pm, rec.empty() ? -1.0 : dmin, dend, total_segments(routes) - segs_before);
}

static int run_scene(const std::vector<std::string> &lines)
{
    std::vector<vpsc::Rectangle*> rs;
    std::vector<topology::Node*> tn;
    std::vector<topology::Edge*> routes;
    std::vector<cola::Edge> es;
    bool dumped = false;
    int opno = 0, stepno = 0;
    char nm[48];
    try {
        for (size_t li = 0; li < lines.size(); ++li) {
            std::istringstream is(lines[li]);
            std::string cmd; is >> cmd;
            if (cmd == "NODE") {
                double x0, x1, y0, y1; is >> x0 >> x1 >> y0 >> y1;
                vpsc::Rectangle *r = new vpsc::Rectangle(x0, x1, y0, y1);
                rs.push_back(r);
                tn.push_back(new topology::Node(rs.size() - 1, r));
                continue;
            }
            if (cmd == "EDGE") {
                unsigned k; is >> k;
                std::vector<topology::EdgePoint*> eps;
                unsigned first = 0, last = 0;
                for (unsigned j = 0; j < k; ++j) {
                    unsigned nd; int kind; is >> nd >> kind;
                    if (j == 0) first = nd;
                    last = nd;
                    eps.push_back(new topology::EdgePoint(tn.at(nd), (topology::EdgePoint::RectIntersect) kind));
                }
                es.push_back(std::make_pair(first, last));
                routes.push_back(new topology::Edge(routes.size(), 40, eps));
                continue;
            }
            if (!dumped) { dump("before", tn, routes, es); dumped = true; }
            ++opno;
            snprintf(nm, sizeof nm, "op%d", opno);
            unsigned n = rs.size();
            if (cmd == "MOVE") {
                int dim; unsigned k; is >> dim >> k;
                vpsc::Dim d = dim == 0 ? vpsc::HORIZONTAL : vpsc::VERTICAL;
                std::valarray<double> coords(n);
                vpsc::Variables vs(n);
                vpsc::Constraints cs;
                for (unsigned i = 0; i < n; ++i) {
                    coords[i] = rs[i]->getCentreD(d);
                    vs[i] = new vpsc::Variable(i, coords[i]);
                }
                for (unsigned j = 0; j < k; ++j) {
                    unsigned id; double des, w; is >> id >> des >> w;
                    vs.at(id)->desiredPosition = des; vs[id]->weight = w;
                }
                // reference for the MI line: a copy of the scene (same ids, same paths, same desired positions / weights) made BEFORE the call
                std::vector<vpsc::Rectangle*> rs2;
                std::vector<topology::Node*> tn2;
                std::vector<topology::Edge*> routes2;
                vpsc::Variables vs2(n);
                vpsc::Constraints cs2;
                clone_scene(tn, routes, rs2, tn2, routes2);
                for (unsigned i = 0; i < n; ++i) {
                    vs2[i] = new vpsc::Variable(i, vs[i]->desiredPosition, vs[i]->weight);
                }
                long segs_before = total_segments(routes);
                topology::ColaTopologyAddon topo(tn, routes);
                topo.moveTo(d, vs, cs, coords, nullptr);
                dump(nm, tn, routes, es);
                move_info(nm, d, tn, routes, segs_before, vs, coords, tn2, routes2, vs2, cs2);
                for (size_t i = 0; i < vs.size(); ++i) delete vs[i];
                for (size_t i = 0; i < cs.size(); ++i) delete cs[i];
            } else if (cmd == "DRAG") {
                int dim; unsigned nsteps; is >> dim >> nsteps;
                vpsc::Dim d = dim == 0 ? vpsc::HORIZONTAL : vpsc::VERTICAL;
                vpsc::Variables vs(n);
                vpsc::Constraints cs;
                for (unsigned i = 0; i < n; ++i) vs[i] = new vpsc::Variable(i, rs[i]->getCentreD(d), 1);
                topology::setNodeVariables(tn, vs);
                {
                    topology::TopologyConstraints tc(d, tn, routes, nullptr, vs, cs);
                    for (unsigned st = 1; st <= nsteps; ++st) {
                        stepno = (int) st;
                        for (unsigned i = 0; i < n; ++i) { vs[i]->desiredPosition = rs[i]->getCentreD(d); vs[i]->weight = 1; }
                        unsigned k; is >> k;
                        for (unsigned j = 0; j < k; ++j) {
                            unsigned id; double des, w; is >> id >> des >> w;
                            vs.at(id)->desiredPosition = des; vs[id]->weight = w;
                        }
                        int loopBreaker = 100;
                        bool interrupted;
                        do { interrupted = tc.solve(); } while (interrupted && --loopBreaker > 0);
                        char nm2[64]; snprintf(nm2, sizeof nm2, "%s.s%u", nm, st);
                        dump(nm2, tn, routes, es);
                    }
                    stepno = 0;
                }
                for (size_t i = 0; i < vs.size(); ++i) delete vs[i];
                for (size_t i = 0; i < cs.size(); ++i) delete cs[i];
                dump(nm, tn, routes, es);
            } else if (cmd == "RESIZE") {
                unsigned k; is >> k;
                cola::Resizes rz;
                for (unsigned j = 0; j < k; ++j) {
                    unsigned id; double x, y, w, h; is >> id >> x >> y >> w >> h;
                    rz.push_back(cola::Resize(id, x, y, w, h));
                }
                std::valarray<double> X(n), Y(n);
                for (unsigned i = 0; i < n; ++i) { X[i] = rs[i]->getCentreX(); Y[i] = rs[i]->getCentreY(); }
                cola::CompoundConstraints ccs;
                topology::ColaTopologyAddon topo(tn, routes);
                topo.handleResizes(rz, n, X, Y, ccs, rs, nullptr);
                dump(nm, tn, routes, es);
            } else if (cmd == "LAYOUT") {
                unsigned iters, nl, nr; is >> iters >> nl;
                ScenePre pre;
                for (unsigned j = 0; j < nl; ++j) { unsigned id; double x, y; is >> id >> x >> y; pre.lk.push_back(cola::Lock(id, x, y)); }
                is >> nr;
                for (unsigned j = 0; j < nr; ++j) { unsigned id; double x, y, w, h; is >> id >> x >> y >> w >> h; pre.rz.push_back(cola::Resize(id, x, y, w, h)); }
                DumpingTest test(0.0001, iters);
                cola::ConstrainedFDLayout alg(rs, es, 40, cola::StandardEdgeLengths, &test, &pre);
                topology::ColaTopologyAddon topo(tn, routes);
                alg.setTopology(&topo);
                test.tn = &tn; test.routes = &routes; test.es = &es; test.on = true;
                test.prefix = nm;
                alg.run();
                dump(nm, tn, routes, es);
            } else {
                printf("EXC bad script line %s\n", lines[li].c_str());
                return 3;
            }
        }
#ifndef NDEBUG
    } catch (vpsc::CriticalFailure &f) {
        if (stepno) printf("EXC %s | %s:%d | %s | step%d | op%d\n", f.expr, f.file, f.line, f.function ? f.function : "?", stepno, opno);
        else printf("EXC %s | %s:%d | %s | op%d\n", f.expr, f.file, f.line, f.function ? f.function : "?", opno);
        snprintf(nm, sizeof nm, "op%d.atexc", opno);
        dump(nm, tn, routes, es);
#endif
    } catch (const char *s) {
        printf("EXC %s | op%d\n", s, opno);
    } catch (std::exception &e) {
        printf("EXC std %s | op%d\n", e.what(), opno);
    } catch (...) {
        printf("EXC unknown | op%d\n", opno);
    }
    return 0;
}

static int scenes_mode(int tmo)
{
    std::string line, tag;
    std::vector<std::string> cur;
    bool in = false;
    while (std::getline(std::cin, line)) {
        if (line.compare(0, 6, "SCENE ") == 0) { tag = line.substr(6); cur.clear(); in = true; continue; }
        if (line == "ENDSCENE" && in) {
            in = false;
            printf("SCENE %s\n", tag.c_str());
            fflush(stdout);
            pid_t pid = fork();
            if (pid == 0) {
                alarm(tmo);
                int rc = run_scene(cur);
                fflush(stdout);
                _exit(rc);
            }
            int st = 0;
            waitpid(pid, &st, 0);
            if (WIFSIGNALED(st) && WTERMSIG(st) == SIGALRM) printf("\nENDSCENE %s timeout\n", tag.c_str());
            else if (WIFSIGNALED(st)) printf("\nENDSCENE %s signal %d\n", tag.c_str(), WTERMSIG(st));
            else if (WEXITSTATUS(st) != 0) printf("\nENDSCENE %s exit %d\n", tag.c_str(), WEXITSTATUS(st));
            else printf("\nENDSCENE %s ok\n", tag.c_str());
            fflush(stdout);
            continue;
        }
        if (in && !line.empty()) cur.push_back(line);
    }
    return 0;
}

int main(int argc, char **argv)
{
    if (argc > 1 && !strcmp(argv[1], "scenes")) {
        topology::FILELog::ReportingLevel() = topology::logERROR;
        cola::FILELog::ReportingLevel() = cola::logERROR;
        return scenes_mode(argc > 2 ? atoi(argv[2]) : 10);
    }
    topology::FILELog::ReportingLevel() = topology::logERROR;
    cola::FILELog::ReportingLevel() = cola::logERROR;
    if (argc > 1 && !strcmp(argv[1], "tri")) return tri_mode();
    if (argc > 5 && !strcmp(argv[1], "layout"))
        return layout_mode(strtoull(argv[2], nullptr, 10), atoi(argv[3]), atoi(argv[4]), atof(argv[5]), (EXTRA_GAP = argc > 7 ? atof(argv[7]) : 1e-5, argc > 6 ? atoi(argv[6]) : 0));
    fprintf(stderr, "usage: c13_topo tri | layout <seed> <V> <extra> <W> [both [border]]\n");
    return 2;
}
