// C01/C02 harness: replays VPSC instances + op histories on the real solver (built from /repo's working tree).
// Input (file argv[1]), one instance after the other:
//   N <id> <n> <m> <nops> <kind>      kind: I = IncSolver, S = static Solver (ops must then be exactly one S or F)
//   v <des> <wt> <scl>                n lines, numbers as  p/q  (decimal integers, q a power of two mostly)
//   c <l> <r> <gap> <eq>              m lines
//   o S | o F | o A <l> <r> <gap> <eq> | o D <i> <d> | o W <i> <w>      nops lines
//   (W: the caller assigns the public field Variable::weight, w > 0, between solves - the lock / fixPos idiom)
//   o R <cnt> <j1> .. <jcnt> | o P <j>      object reuse across successive solvers (IncSolver only):
//     R: the current IncSolver is DESTROYED and a new IncSolver is constructed over the SAME Variable objects and the
//        listed Constraint OBJECTS (j = index in creation order: the m initial ones, then one per A op); like the
//        callers in libcola / libdialect / libtopology that re-use constraint objects, the harness resets the OUTPUT
//        flag Constraint::unsatisfiable of every object first; it never touches the solver-internal Constraint::active.
//     P: addConstraint() of an EXISTING constraint object that is not in the current solver (e.g. one that ended up
//        active in the previous solver).
//   Result lines list A/U flags in the order of the CURRENT solver's constraint list.
// Output per instance:  "I <id>"  then per S/F op one line
//   r <opidx> <status> P <hexfloat>*n B <blocklabel>*n A <01..> U <01..> F <finite> W <act_inv> [T <j>]
//   T <j> (static Solver, after a throw): index of the constraint the closing scan reported (-1 if unknown)
// status: ok | throw_char | throw_unsatisfied | throw_assert | throw_other | nonfinite
// Compile with -DUSE_AVOID_NS to exercise the copy in libavoid/vpsc.cpp (namespace Avoid, IncSolver only).
#include <cstddef>
#include <cfloat>
#include <cstdio>
#include <cstdlib>
#include <cstring>
#include <cmath>
#include <vector>
#include <string>
#include <map>
#include <iostream>
#include <sstream>
#define private public
#define protected public
#ifdef USE_AVOID_NS
#include "libavoid/vpsc.h"
namespace V = Avoid;
#else
#include "libvpsc/solve_VPSC.h"
#include "libvpsc/variable.h"
#include "libvpsc/constraint.h"
#include "libvpsc/block.h"
#include "libvpsc/blocks.h"
#include "libvpsc/exceptions.h"
#include "libvpsc/assertions.h"
namespace V = vpsc;
#endif
#undef private
#undef protected

static double rat(const char *s)
{
    long long p = 0, q = 1;
    const char *slash = strchr(s, '/');
    p = atoll(s);
    if (slash) q = atoll(slash + 1);
    return (double) p / (double) q;
}

struct Op { char kind; int a, b; double g; int eq; std::vector<int> ids; };

static void report(int opidx, const char *status, V::Variables &vs, V::Constraints &cs, int thrown = -2)
{
    printf("r %d %s P", opidx, status);
    bool finite = true;
    bool ok = strcmp(status, "ok") == 0;
    for (size_t i = 0; i < vs.size(); ++i) {
        // after an exception copyResult() has not run: report the solver's internal position() instead
        double p = (ok || vs[i]->block == nullptr) ? vs[i]->finalPosition : vs[i]->position();
        printf(" %a", p);
        if (!std::isfinite(p)) finite = false;
    }
    printf(" B");
    std::map<void *, int> label;
    for (size_t i = 0; i < vs.size(); ++i) {
        void *b = (void *) vs[i]->block;
        if (!label.count(b)) label[b] = (int) i;
        printf(" %d", label[b]);
    }
    printf(" A ");
    for (size_t j = 0; j < cs.size(); ++j) putchar(cs[j]->active ? '1' : '0');
    if (cs.empty()) putchar('-');
    printf(" U ");
    for (size_t j = 0; j < cs.size(); ++j) putchar(cs[j]->unsatisfiable ? '1' : '0');
    if (cs.empty()) putchar('-');
    // the invariant the model proofs call act_inv, evaluated on the real solver's state:
    // active => both ends in one block and offsets differ by exactly the gap (up to rounding)
    bool wf = true;
    for (size_t j = 0; j < cs.size(); ++j) {
        if (!cs[j]->active) continue;
        V::Variable *l = cs[j]->left, *r = cs[j]->right;
        double d = r->offset - l->offset - cs[j]->gap;
        double m = std::fabs(r->offset) + std::fabs(l->offset) + std::fabs(cs[j]->gap) + 1.0;
        if (l->block != r->block || std::fabs(d) > 1e-9 * m) wf = false;
    }
    printf(" F %d W %d", finite ? 1 : 0, wf ? 1 : 0);
    if (thrown != -2) printf(" T %d", thrown);
    printf("\n");
}

static void run_inc(std::vector<Op> &ops, V::Variables &vs, V::Constraints &objs)
{
    // objs: every Constraint object of this instance in creation order (owned by main); cs: the current solver's list
    V::Constraints cs(objs);
    cs.reserve(objs.size() + ops.size() + 4);
    V::IncSolver *solver = new V::IncSolver(vs, cs);
    for (size_t k = 0; k < ops.size(); ++k) {
        Op &o = ops[k];
        if (o.kind == 'A') {
            V::Constraint *c = new V::Constraint(vs[o.a], vs[o.b], o.g, o.eq != 0);
            objs.push_back(c);
            cs.push_back(c);          // Solver::cs is a reference to this vector; the final scan reads cs[i], i < m
            solver->addConstraint(c);
        } else if (o.kind == 'P') {
            V::Constraint *c = objs[o.a];
            cs.push_back(c);
            solver->addConstraint(c);
        } else if (o.kind == 'R') {
            delete solver;
            for (size_t j = 0; j < objs.size(); ++j) objs[j]->unsatisfiable = false;   // the caller's idiom (colafd.cpp:799, aca.cpp:1401)
            cs.clear();
            for (size_t j = 0; j < o.ids.size(); ++j) cs.push_back(objs[o.ids[j]]);
            solver = new V::IncSolver(vs, cs);
        } else if (o.kind == 'D') {
            vs[o.a]->desiredPosition = o.g;
        } else if (o.kind == 'W') {
            vs[o.a]->weight = o.g;
        } else {
            const char *status = "ok";
            try {
                if (o.kind == 'S') solver->solve(); else solver->satisfy();
            } catch (char *) { status = "throw_char";
            } catch (const char *) { status = "throw_char";
            } catch (V::UnsatisfiedConstraint &) { status = "throw_unsatisfied";
            } catch (V::UnsatisfiableException &) { status = "throw_unsatisfiable";
            } catch (vpsc::CriticalFailure &f) { status = "throw_assert"; fprintf(stderr, "%s\n", f.what().c_str());
            } catch (...) { status = "throw_other"; }
            report((int) k, status, vs, cs);
            if (strcmp(status, "ok") != 0) break;
        }
    }
    delete solver;
}

#ifndef USE_AVOID_NS
static void run_static(std::vector<Op> &ops, V::Variables &vs, V::Constraints &cs)
{
    V::Solver solver(vs, cs);
    for (size_t k = 0; k < ops.size(); ++k) {
        Op &o = ops[k];
        if (o.kind != 'S' && o.kind != 'F') continue;
        const char *status = "ok";
        int thrown = -2;
        try {
            if (o.kind == 'S') solver.solve(); else solver.satisfy();
        } catch (char *) { status = "throw_char";
        } catch (const char *) { status = "throw_char";
        } catch (V::UnsatisfiedConstraint &e) {
            status = "throw_unsatisfied";
            thrown = -1;
            for (size_t j = 0; j < cs.size(); ++j) if (cs[j] == &e.c) { thrown = (int) j; break; }
        } catch (V::UnsatisfiableException &) { status = "throw_unsatisfiable";
        } catch (vpsc::CriticalFailure &f) {
            // built with USE_ASSERT_EXCEPTIONS the COLA_ASSERT in front of `throw UnsatisfiedConstraint` in
            // Solver::refine() fires first: same report, the constraint is the first one the scan finds
            status = "throw_assert"; fprintf(stderr, "%s\n", f.what().c_str());
            thrown = -1;
            if (f.what().find("slack()>ZERO_UPPERBOUND") != std::string::npos) {
                status = "throw_unsatisfied";
                for (size_t j = 0; j < cs.size(); ++j) if (cs[j]->slack() < -1e-10) { thrown = (int) j; break; }
            }
        } catch (...) { status = "throw_other"; }
        report((int) k, status, vs, cs, thrown);
        return;                        // the static solver is single-shot
    }
}
#endif

int main(int argc, char **argv)
{
    if (argc < 2) { fprintf(stderr, "usage: c01_vpsc <instances>\n"); return 2; }
    FILE *f = fopen(argv[1], "r");
    if (!f) { perror("open"); return 2; }
    char line[4096];
    while (fgets(line, sizeof line, f)) {
        if (line[0] != 'N') continue;
        int id, n, m, nops; char kind;
        if (sscanf(line, "N %d %d %d %d %c", &id, &n, &m, &nops, &kind) != 5) { fprintf(stderr, "bad N line\n"); return 2; }
        V::Variables vs; V::Constraints cs; std::vector<Op> ops;
        char a[256], b[256], c[256];
        for (int i = 0; i < n; ++i) {
            if (!fgets(line, sizeof line, f) || sscanf(line, "v %255s %255s %255s", a, b, c) != 3) { fprintf(stderr, "bad v line\n"); return 2; }
            vs.push_back(new V::Variable(i, rat(a), rat(b), rat(c)));
        }
        for (int j = 0; j < m; ++j) {
            int l, r, eq;
            if (!fgets(line, sizeof line, f) || sscanf(line, "c %d %d %255s %d", &l, &r, a, &eq) != 4) { fprintf(stderr, "bad c line\n"); return 2; }
            cs.push_back(new V::Constraint(vs[l], vs[r], rat(a), eq != 0));
        }
        for (int k = 0; k < nops; ++k) {
            Op o; o.kind = '?'; o.a = o.b = 0; o.g = 0; o.eq = 0;
            if (!fgets(line, sizeof line, f)) { fprintf(stderr, "bad o line\n"); return 2; }
            if (line[2] == 'S' || line[2] == 'F') o.kind = line[2];
            else if (line[2] == 'A') { o.kind = 'A'; sscanf(line, "o A %d %d %255s %d", &o.a, &o.b, a, &o.eq); o.g = rat(a); }
            else if (line[2] == 'D') { o.kind = 'D'; sscanf(line, "o D %d %255s", &o.a, a); o.g = rat(a); }
            else if (line[2] == 'W') { o.kind = 'W'; sscanf(line, "o W %d %255s", &o.a, a); o.g = rat(a); }
            else if (line[2] == 'P') { o.kind = 'P'; sscanf(line, "o P %d", &o.a); }
            else if (line[2] == 'R') {
                o.kind = 'R';
                std::istringstream is(line + 3);
                int cnt = 0; is >> cnt;
                for (int q = 0; q < cnt; ++q) { int j = -1; is >> j; o.ids.push_back(j); }
            }
            ops.push_back(o);
        }
        printf("I %d\n", id);
#ifdef USE_AVOID_NS
        run_inc(ops, vs, cs);
#else
        if (kind == 'S') run_static(ops, vs, cs); else run_inc(ops, vs, cs);
#endif
        fflush(stdout);
        for (size_t j = 0; j < cs.size(); ++j) delete cs[j];
        for (size_t i = 0; i < vs.size(); ++i) delete vs[i];
    }
    fclose(f);
    return 0;
}
