// C18 harness: drives the real dialect::SepPair / SepMatrix / TGLF writer+reader.
// Modes (argv[1]):
//   enum            exhaustive sweeps over all SepPair states (2x2x3x3 kinds x 4x4 gaps {-2,-0.0,+0.0,2}):
//                   sections transform1 (7 transforms), transform2 (49 pairs), addsep (192 requests), cardinal
//   ops  <file>     interpreter of SepMatrix op sequences on a graph with 3 nodes: EVERY public mutator overload (addSep,
//                   addFixedRelativeSep 4-arg and position-based 2-arg, setCardinalOP, hAlign, vAlign, alignByEquatedCoord,
//                   free, clear, setSepPair, transform, transformClosedSubset, transformOpenSubset, removeNode(s),
//                   roundGapsUpward, setExtraBdryGap, setCorrespondingConstraints), queries (getCardinalDir, are?Aligned),
//                   M = move a node, Q = which records the present placement satisfies, D = dump
//   gen  <file>     generateSeparationConstraints on given pair + placement (+ transform applied by the real code)
//   tglf <file>     Graph::writeTglf(useExternalIds) -> buildGraphFromTglf: canonical dump of both graphs (nodes with and
//                   without external ids, controlled internal ids)
//   sub  [file]     transformClosedSubset / transformOpenSubset on arbitrary sparse matrices, one case per line (see modeSub)
// Numbers cross the boundary as integers scaled by 4 (all inputs are multiples of 0.25); gaps as sign char + |g|*4.
// The OCaml driver extract/c18_driver.ml produces the same text from the extracted Coq model.
#include <cstddef>
#include <cfloat>
#include <cmath>
#include <cstdio>
#include <cstdlib>
#include <cstring>
#include <string>
#include <vector>
#include <map>
#include <set>
#include <sstream>
#include <fstream>
#include <iostream>
#include <algorithm>
#include <memory>
#include <functional>
#include <deque>
#include <list>
#include <stack>
#include <queue>
#include <stdexcept>
#include <utility>
#include <cassert>
#include <iterator>
#include <numeric>
#include <limits>
#include <unordered_map>
#include <unordered_set>
#include <valarray>
#include <array>
#include <iomanip>
#include <ctime>
#include <cstdint>
#include <typeinfo>
#include <climits>
#define private public
#define protected public
#include "libdialect/libdialect.h"
#include "libdialect/io.h"
#include "libdialect/ortho.h"
#undef private
#undef protected

using namespace dialect;

static const double GAPS[4] = {-2.0, -0.0, 0.0, 2.0};
static const SepTransform TFS[7] = {SepTransform::ROTATE90CW, SepTransform::ROTATE90ACW, SepTransform::ROTATE180,
    SepTransform::FLIPV, SepTransform::FLIPH, SepTransform::FLIPMD, SepTransform::FLIPOD};
static const SepDir DIRS[8] = {SepDir::EAST, SepDir::SOUTH, SepDir::WEST, SepDir::NORTH,
    SepDir::RIGHT, SepDir::DOWN, SepDir::LEFT, SepDir::UP};
static const SepType STS[3] = {SepType::NONE, SepType::EQ, SepType::INEQ};
static const GapType GTS[2] = {GapType::CENTRE, GapType::BDRY};

static long q4(double v) { return lround(v * 4.0); }
static std::string gapstr(double g)
{
    char b[64];
    snprintf(b, sizeof b, "%c%ld", std::signbit(g) ? '-' : '+', q4(std::fabs(g)));
    return b;
}
static double parsegap(const std::string &s)
{
    double m = atol(s.c_str() + 1) / 4.0;
    return s[0] == '-' ? -m : m;
}
static std::string pairstr(const SepPair &sp)
{
    char b[128];
    snprintf(b, sizeof b, "%d %d %d %d %s %s", (int)sp.xgt, (int)sp.ygt, (int)sp.xst, (int)sp.yst,
             gapstr(sp.xgap).c_str(), gapstr(sp.ygap).c_str());
    return b;
}
static char cardc(CardinalDir d)
{
    switch (d) { case CardinalDir::EAST: return 'E'; case CardinalDir::SOUTH: return 'S';
                 case CardinalDir::WEST: return 'W'; case CardinalDir::NORTH: return 'N'; }
    return '?';
}

template <class F> static void forStates(F f)
{
    for (int a = 0; a < 2; a++) for (int b = 0; b < 2; b++) for (int c = 0; c < 3; c++) for (int d = 0; d < 3; d++)
    for (int i = 0; i < 4; i++) for (int j = 0; j < 4; j++) {
        SepPair sp;
        sp.xgt = GTS[a]; sp.ygt = GTS[b]; sp.xst = STS[c]; sp.yst = STS[d]; sp.xgap = GAPS[i]; sp.ygap = GAPS[j];
        f(sp);
    }
}

static int modeEnum()
{
    printf("## transform1\n");
    forStates([](const SepPair &s) { for (int t = 0; t < 7; t++) { SepPair r = s; r.transform(TFS[t]); puts(pairstr(r).c_str()); } });
    printf("## transform2\n");
    forStates([](const SepPair &s) { for (int t = 0; t < 7; t++) for (int u = 0; u < 7; u++) {
        SepPair r = s; r.transform(TFS[t]); r.transform(TFS[u]); puts(pairstr(r).c_str()); } });
    printf("## addsep\n");
    forStates([](const SepPair &s) { for (int g = 0; g < 2; g++) for (int d = 0; d < 8; d++) for (int t = 0; t < 3; t++)
        for (int k = 0; k < 4; k++) { SepPair r = s; r.addSep(GTS[g], DIRS[d], STS[t], GAPS[k]); puts(pairstr(r).c_str()); } });
    printf("## cardinal\n");
    forStates([](const SepPair &s) {
        char c = 'x';
        try { c = cardc(s.getCardinalDir()); } catch (std::runtime_error &) { c = 'x'; }
        printf("%d %d %d %d %d %c %d %d\n", (int)s.isVerticalCardinal(), (int)s.isHorizontalCardinal(), (int)s.isVAlign(),
               (int)s.isHAlign(), (int)s.isCardinal(), c, (int)s.hasConstraintInDim(vpsc::XDIM), (int)s.hasConstraintInDim(vpsc::YDIM));
    });
    return 0;
}

static std::string dumpMatrix(SepMatrix &m, const std::map<id_type, int> &ix)
{
    std::ostringstream ss;
    ss << "D";
    for (auto &p : m.m_sparseLookup) for (auto &q : p.second) {
        if (!q.second) continue;
        ss << " | " << ix.at(p.first) << " " << ix.at(q.first) << " " << pairstr(*q.second);
        if (ix.at(q.second->src) != ix.at(p.first) || ix.at(q.second->tgt) != ix.at(q.first)) ss << " BADSRC";
    }
    return ss.str();
}

// node sizes of the three nodes of mode ops (scaled by 4): fixed, the model driver uses the same table
static const long OPS_W[3] = {8, 16, 24}, OPS_H[3] = {24, 16, 8};

static std::set<id_type> maskIds(const std::vector<Node_SP> &nodes, int mask)
{
    std::set<id_type> s;
    for (int i = 0; i < 3; i++) if (mask & (1 << i)) s.insert(nodes[i]->id());
    return s;
}

static int modeOps(const char *file)
{
    std::ifstream in(file);
    std::string line;
    Graph *G = nullptr;
    std::vector<Node_SP> nodes;
    std::map<id_type, int> ix;
    static const CardinalDir CDS[4] = {CardinalDir::EAST, CardinalDir::SOUTH, CardinalDir::WEST, CardinalDir::NORTH};
    while (std::getline(in, line)) {
        std::istringstream is(line);
        std::string op; is >> op;
        if (op == "N") {
            delete G; G = new Graph(); nodes.clear(); ix.clear();
            for (int i = 0; i < 3; i++) {
                Node_SP u = Node::allocate(); u->setDims(OPS_W[i] / 4.0, OPS_H[i] / 4.0);
                G->addNode(u); nodes.push_back(u); ix[u->id()] = i;
            }
            if (!(nodes[0]->id() < nodes[1]->id() && nodes[1]->id() < nodes[2]->id())) { puts("IDORDER"); return 3; }
        } else if (op == "X") {
            long e; is >> e; G->getSepMatrix().setExtraBdryGap(e / 4.0);
        } else if (op == "M") {
            int i; long x, y; is >> i >> x >> y; nodes[i]->setCentre(x / 4.0, y / 4.0);
        } else if (op == "A") {
            int i, j, gt, sd, st; std::string g; is >> i >> j >> gt >> sd >> st >> g;
            try { G->getSepMatrix().addSep(nodes[i]->id(), nodes[j]->id(), GTS[gt], DIRS[sd], STS[st], parsegap(g)); }
            catch (std::runtime_error &) { puts("A!"); }
        } else if (op == "F") {
            int i, j; std::string dx, dy; is >> i >> j >> dx >> dy;
            try { G->getSepMatrix().addFixedRelativeSep(nodes[i]->id(), nodes[j]->id(), parsegap(dx), parsegap(dy)); }
            catch (std::runtime_error &) { puts("F!"); }
        } else if (op == "P") {             // the position-based overload
            int i, j; is >> i >> j;
            try { G->getSepMatrix().addFixedRelativeSep(nodes[i]->id(), nodes[j]->id()); }
            catch (std::runtime_error &) { puts("P!"); }
        } else if (op == "O") {
            int i, j, c; is >> i >> j >> c;
            try { G->getSepMatrix().setCardinalOP(nodes[i]->id(), nodes[j]->id(), CDS[c]); }
            catch (std::runtime_error &) { puts("O!"); }
        } else if (op == "h" || op == "v") {
            int i, j; is >> i >> j;
            try { if (op == "h") G->getSepMatrix().hAlign(nodes[i]->id(), nodes[j]->id());
                  else G->getSepMatrix().vAlign(nodes[i]->id(), nodes[j]->id()); }
            catch (std::runtime_error &) { printf("%s!\n", op.c_str()); }
        } else if (op == "E") {
            int i, j, d; is >> i >> j >> d;
            try { G->getSepMatrix().alignByEquatedCoord(nodes[i]->id(), nodes[j]->id(), d ? vpsc::YDIM : vpsc::XDIM); }
            catch (std::runtime_error &) { puts("E!"); }
        } else if (op == "R") {
            int i, j; is >> i >> j; G->getSepMatrix().free(nodes[i]->id(), nodes[j]->id());
        } else if (op == "Z") {
            G->getSepMatrix().clear();
        } else if (op == "S") {
            int i, j, xgt, ygt, xst, yst; std::string xg, yg; is >> i >> j >> xgt >> ygt >> xst >> yst >> xg >> yg;
            SepPair_SP sp = std::make_shared<SepPair>();
            sp->src = nodes[i]->id(); sp->tgt = nodes[j]->id();
            sp->xgt = GTS[xgt]; sp->ygt = GTS[ygt]; sp->xst = STS[xst]; sp->yst = STS[yst];
            sp->xgap = parsegap(xg); sp->ygap = parsegap(yg);
            try { G->getSepMatrix().setSepPair(nodes[i]->id(), nodes[j]->id(), sp); }
            catch (std::runtime_error &) { puts("S!"); }
        } else if (op == "C") {
            int i, j; is >> i >> j;
            char c;
            try { c = cardc(G->getSepMatrix().getCardinalDir(nodes[i]->id(), nodes[j]->id())); }
            catch (std::runtime_error &e) { c = (std::string(e.what()) == "No constraint.") ? 'n' : 'x'; }
            printf("C %c\n", c);
        } else if (op == "H") {
            int i, j; is >> i >> j; printf("H %d\n", (int)G->getSepMatrix().areHAligned(nodes[i]->id(), nodes[j]->id()));
        } else if (op == "V") {
            int i, j; is >> i >> j; printf("V %d\n", (int)G->getSepMatrix().areVAligned(nodes[i]->id(), nodes[j]->id()));
        } else if (op == "T") {
            int t; is >> t; G->getSepMatrix().transform(TFS[t]);
        } else if (op == "TC" || op == "TO") {
            int t, mask; is >> t >> mask;
            std::set<id_type> ids = maskIds(nodes, mask);
            if (op == "TC") G->getSepMatrix().transformClosedSubset(TFS[t], ids);
            else G->getSepMatrix().transformOpenSubset(TFS[t], ids);
        } else if (op == "RN") {
            int i; is >> i; G->getSepMatrix().removeNode(nodes[i]->id());
        } else if (op == "RM") {
            int mask; is >> mask;
            NodesById nb; for (int i = 0; i < 3; i++) if (mask & (1 << i)) nb.insert({nodes[i]->id(), nodes[i]});
            G->getSepMatrix().removeNodes(nb);
        } else if (op == "U") {
            G->getSepMatrix().roundGapsUpward();
        } else if (op == "K") {
            // a second graph holding the nodes of the mask (a Graph may share Node objects), empty matrix
            int mask; is >> mask;
            Graph H2;
            for (int i = 0; i < 3; i++) if (mask & (1 << i)) H2.addNode(nodes[i], false);
            G->getSepMatrix().setCorrespondingConstraints(H2.getSepMatrix());
            std::string d = dumpMatrix(H2.getSepMatrix(), ix); d[0] = 'K';
            puts(d.c_str());
        } else if (op == "Q") {
            // which stored records does the present placement satisfy, by the really generated vpsc constraints
            SepMatrix &m = G->getSepMatrix();
            ColaGraphRep &cgr = G->updateColaGraphRep();
            std::map<std::pair<int,int>, int> sat;
            for (auto &p : m.m_sparseLookup) for (auto &q : p.second) if (q.second) sat[{ix.at(p.first), ix.at(q.first)}] = 1;
            for (int d = 0; d < 2; d++) {
                vpsc::Variables vs; vpsc::Constraints cs; vpsc::Rectangles bbs;
                std::vector<double> pos(3, 0.0);
                for (int i = 0; i < 3; i++) { Avoid::Point c = nodes[i]->getCentre(); pos[cgr.id2ix.at(nodes[i]->id())] = d == 0 ? c.x : c.y; }
                for (int i = 0; i < 3; i++) vs.push_back(new vpsc::Variable(i, pos[i]));
                m.generateSeparationConstraints(d == 0 ? vpsc::XDIM : vpsc::YDIM, vs, cs, bbs);
                for (auto c : cs) {
                    double lhs = pos[c->left->id] + c->gap, rhs = pos[c->right->id];
                    bool ok = c->equality ? (lhs == rhs) : (lhs <= rhs);
                    int a = -1, b = -1;
                    for (int i = 0; i < 3; i++) { if ((int)cgr.id2ix.at(nodes[i]->id()) == c->left->id) a = i; if ((int)cgr.id2ix.at(nodes[i]->id()) == c->right->id) b = i; }
                    if (!ok) sat[{std::min(a, b), std::max(a, b)}] = 0;
                }
                for (auto c : cs) delete c;
                for (auto x : vs) delete x;
            }
            std::ostringstream ss; ss << "Q";
            for (auto &kv : sat) ss << " | " << kv.first.first << " " << kv.first.second << " " << kv.second;
            puts(ss.str().c_str());
        } else if (op == "D") {
            std::string d = dumpMatrix(G->getSepMatrix(), ix);
            char b[48]; snprintf(b, sizeof b, " | e %ld", q4(G->getSepMatrix().getExtraBdryGap()));
            puts((d + b).c_str());
        }
    }
    delete G;
    return 0;
}

static void tfPoint(int tf, double x, double y, double &X, double &Y)
{
    // rotations through the library's own plane maps, flips by hand (no library counterpart)
    Avoid::Point p(x, y), r = p;
    switch (tf) {
    case 0: break;
    case 1: r = Compass::getRotationFunction(CardinalDir::EAST, CardinalDir::SOUTH)(p); break;   // ROTATE90CW
    case 2: r = Compass::getRotationFunction(CardinalDir::EAST, CardinalDir::NORTH)(p); break;   // ROTATE90ACW
    case 3: r = Compass::getRotationFunction(CardinalDir::EAST, CardinalDir::WEST)(p); break;    // ROTATE180
    case 4: r = Avoid::Point(-x, y); break;     // FLIPV: over the vertical axis
    case 5: r = Avoid::Point(x, -y); break;     // FLIPH
    case 6: r = Avoid::Point(y, x); break;      // FLIPMD
    case 7: r = Avoid::Point(-y, -x); break;    // FLIPOD
    }
    X = r.x; Y = r.y;
}

static int modeGen(const char *file)
{
    std::ifstream in(file);
    std::string line;
    while (std::getline(in, line)) {
        std::istringstream is(line);
        int xgt, ygt, xst, yst, tf; std::string xg, yg; long e, v[8];
        if (!(is >> xgt >> ygt >> xst >> yst >> xg >> yg >> e)) continue;
        for (int i = 0; i < 8; i++) is >> v[i];
        is >> tf;
        double sx = v[0] / 4.0, sy = v[1] / 4.0, tx = v[2] / 4.0, ty = v[3] / 4.0,
               sw = v[4] / 4.0, sh = v[5] / 4.0, tw = v[6] / 4.0, th = v[7] / 4.0;
        double SX, SY, TX, TY;
        tfPoint(tf, sx, sy, SX, SY); tfPoint(tf, tx, ty, TX, TY);
        bool swaps = (tf == 1 || tf == 2 || tf == 6 || tf == 7);
        Graph G;
        Node_SP a = Node::allocate(), b = Node::allocate();
        a->setCentre(SX, SY); a->setDims(swaps ? sh : sw, swaps ? sw : sh);
        b->setCentre(TX, TY); b->setDims(swaps ? th : tw, swaps ? tw : th);
        G.addNode(a); G.addNode(b);
        SepMatrix &m = G.getSepMatrix();
        m.setExtraBdryGap(e / 4.0);
        SepPair_SP sp = std::make_shared<SepPair>();
        sp->src = a->id(); sp->tgt = b->id();
        sp->xgt = GTS[xgt]; sp->ygt = GTS[ygt]; sp->xst = STS[xst]; sp->yst = STS[yst];
        sp->xgap = parsegap(xg); sp->ygap = parsegap(yg);
        m.setSepPair(a->id(), b->id(), sp);
        if (tf > 0) m.transform(TFS[tf - 1]);
        ColaGraphRep &cgr = G.updateColaGraphRep();
        std::string out;
        for (int d = 0; d < 2; d++) {
            vpsc::Variables vs; vpsc::Constraints cs; vpsc::Rectangles bbs;
            double pos[2];
            pos[cgr.id2ix.at(a->id())] = d == 0 ? SX : SY;
            pos[cgr.id2ix.at(b->id())] = d == 0 ? TX : TY;
            vs.push_back(new vpsc::Variable(0, pos[0])); vs.push_back(new vpsc::Variable(1, pos[1]));
            m.generateSeparationConstraints(d == 0 ? vpsc::XDIM : vpsc::YDIM, vs, cs, bbs);
            char buf[128];
            if (cs.empty()) snprintf(buf, sizeof buf, "%c:none", d == 0 ? 'X' : 'Y');
            else {
                vpsc::Constraint *c = cs[0];
                // which end is src (=a)?
                int l = (c->left->id == (int)cgr.id2ix.at(a->id())) ? 0 : 1, r = (c->right->id == (int)cgr.id2ix.at(a->id())) ? 0 : 1;
                double lhs = pos[c->left->id] + c->gap, rhs = pos[c->right->id];
                bool sat = c->equality ? (lhs == rhs) : (lhs <= rhs);
                snprintf(buf, sizeof buf, "%c:%d %d %ld %d %d%s", d == 0 ? 'X' : 'Y', l, r, q4(c->gap), (int)c->equality, (int)sat,
                         cs.size() > 1 ? " EXTRA" : "");
            }
            out += buf; out += d == 0 ? " " : "";
            for (auto c : cs) delete c;
            for (auto x : vs) delete x;
        }
        printf("%s | %s\n", out.c_str(), pairstr(*sp).c_str());
    }
    return 0;
}

// canonical dump: nodes by rank in internal-id order (= file order after reading back) with internal and external id,
// edges as (rank src, rank tgt, route), pairs by (rank lo, rank hi)
static void dumpGraph(const char *tag, Graph &G)
{
    std::map<id_type, int> rank;
    std::vector<std::string> lines;
    int r = 0;
    for (auto &p : G.getNodeLookup()) {
        int e = p.second->getExternalId();
        rank[p.first] = r;
        Avoid::Point c = p.second->getCentre(); dimensions d = p.second->getDimensions();
        char b[200]; snprintf(b, sizeof b, "%s node %d %ld %ld %ld %ld id %u ext %d", tag, r, q4(c.x), q4(c.y), q4(d.first), q4(d.second),
                              (unsigned) p.first, e);
        lines.push_back(b);
        r++;
    }
    std::vector<std::string> el;
    for (auto &p : G.getEdgeLookup()) {
        auto ends = p.second->getEndIds();
        std::ostringstream ss; ss << tag << " edge " << rank[ends.first] << " " << rank[ends.second];
        for (auto pt : p.second->getRoute()) ss << " " << q4(pt.x) << " " << q4(pt.y);
        el.push_back(ss.str());
    }
    std::sort(el.begin(), el.end());
    lines.insert(lines.end(), el.begin(), el.end());
    SepMatrix &m = G.getSepMatrix();
    std::vector<std::string> pl;
    for (auto &p : m.m_sparseLookup) for (auto &q : p.second) {
        if (!q.second) continue;
        std::ostringstream ss; ss << tag << " pair " << rank[p.first] << " " << rank[q.first] << " " << pairstr(*q.second);
        pl.push_back(ss.str());
    }
    std::sort(pl.begin(), pl.end());
    lines.insert(lines.end(), pl.begin(), pl.end());
    for (auto &l : lines) puts(l.c_str());
    printf("%s extra %ld\n", tag, q4(m.getExtraBdryGap()));
}

// input:  G <useExternalIds 0|1> <first internal id>     start a graph; Node::nextID is set so that internal ids are known
//         n <ext | -1> cx cy w h                         node (-1: no external id)
//         s <k>                                          skip k internal ids
//         e <i> <j> route...                             edge between the i-th and j-th node of this graph
//         x <extra>                                      setExtraBdryGap
//         c <i> <j> gt dir st gap                        addSep between the i-th and j-th node
// every graph is processed in a fork()ed child: a crash of the reader on a malformed text cannot take the run down
static void tglfCase(Graph *G, bool useExt)
{
    std::string s;
    bool threw = false;
    try { s = G->writeTglf(useExt); } catch (std::runtime_error &e) { threw = true; printf("WRITE-THROWS %s\n", e.what()); }
    dumpGraph("A", *G);
    if (!threw) {
        std::istringstream ts(s); std::string l;
        while (std::getline(ts, l)) printf("T %s\n", l.c_str());
        fflush(stdout);
        try {
            Graph_SP H = buildGraphFromTglf(s);
            dumpGraph("B", *H);
            // idempotence of the text: writing the re-read graph (by its external ids) gives the same text
            std::string s2 = H->writeTglf(true);
            printf("TEXT %s\n", s == s2 ? "same" : "differs");
        } catch (std::exception &e) { printf("READ-THROWS %s\n", e.what()); }
    }
    fflush(stdout);
}

#include <sys/wait.h>
#include <unistd.h>
static int modeTglf(const char *file)
{
    std::ifstream in(file);
    std::string line;
    Graph *G = nullptr;
    std::vector<Node_SP> byIx;
    bool useExt = true;
    int caseNo = 0;
    auto finish = [&]() {
        if (!G) return;
        printf("## case %d\n", caseNo);
        fflush(stdout);
        pid_t pid = fork();
        if (pid == 0) { tglfCase(G, useExt); _exit(0); }
        int st = 0; waitpid(pid, &st, 0);
        if (!(WIFEXITED(st) && WEXITSTATUS(st) == 0)) printf("CRASH %d\n", st);
        caseNo++;
        delete G; G = nullptr; byIx.clear();
    };
    while (std::getline(in, line)) {
        std::istringstream is(line);
        std::string op; is >> op;
        if (op == "G") {
            finish(); G = new Graph();
            int ue = 1; long base = -1; is >> ue >> base; useExt = ue != 0;
            if (base >= 0) Node::nextID = (id_type) base;
        }
        else if (op == "n") {
            int e; long cx, cy, w, h; is >> e >> cx >> cy >> w >> h;
            Node_SP u = Node::allocate(); if (e >= 0) u->setExternalId(e); u->setCentre(cx / 4.0, cy / 4.0); u->setDims(w / 4.0, h / 4.0);
            G->addNode(u); byIx.push_back(u);
        } else if (op == "s") { long k; is >> k; Node::nextID += (id_type) k; }
        else if (op == "e") {
            int a, b; is >> a >> b; Edge_SP ed = Edge::allocate(byIx[a], byIx[b]);
            long x, y; while (is >> x >> y) ed->addRoutePoint(x / 4.0, y / 4.0);
            G->addEdge(ed);
        } else if (op == "x") { long e; is >> e; G->getSepMatrix().setExtraBdryGap(e / 4.0); }
        else if (op == "c") {
            int i, j, gt, sd, st; std::string g; is >> i >> j >> gt >> sd >> st >> g;
            G->getSepMatrix().addSep(byIx[i]->id(), byIx[j]->id(), GTS[gt], DIRS[sd], STS[st], parsegap(g));
        }
    }
    finish();
    return 0;
}

// ---- mode sub: SepMatrix::transformClosedSubset / transformOpenSubset on arbitrary sparse matrices (through the public
// Graph::transformClosedSubset / transformOpenSubset), one case per input line (file, or stdin when no file is given):
//     <rows> | <ops>
//     rows = ';'-separated  "i : j xgt ygt xst yst xgap ygap , j ..."   (raw ids, i < j; "i :" = a row left empty by
//            SepMatrix::free, which creates m_sparseLookup[i]);  built with setSepPair
//     ops  = ';'-separated  "O t id id ..." (transformOpenSubset) | "C t id id ..." (transformClosedSubset) | "T t"
// output per case:  D | i j xgt ygt xst yst xgap ygap | ... | r <first ids of m_sparseLookup in iteration order>
static std::vector<std::string> splitOn(const std::string &s, char c)
{
    std::vector<std::string> out; std::string cur;
    for (char ch : s) { if (ch == c) { out.push_back(cur); cur.clear(); } else cur += ch; }
    out.push_back(cur);
    return out;
}
static int modeSub(std::istream &in)
{
    std::string line;
    while (std::getline(in, line)) {
        if (line.find('|') == std::string::npos) continue;
        std::vector<std::string> parts = splitOn(line, '|');
        if (parts.size() != 2) { puts("BADCASE"); continue; }
        Graph G;
        SepMatrix &m = G.getSepMatrix();
        bool bad = false;
        for (const std::string &row : splitOn(parts[0], ';')) {
            size_t c = row.find(':');
            if (c == std::string::npos) continue;
            id_type i = (id_type) atol(row.substr(0, c).c_str());
            bool any = false;
            for (const std::string &cell : splitOn(row.substr(c + 1), ',')) {
                std::istringstream is(cell);
                long j; int xgt, ygt, xst, yst; std::string xg, yg;
                if (!(is >> j >> xgt >> ygt >> xst >> yst >> xg >> yg)) continue;
                SepPair_SP sp = std::make_shared<SepPair>();
                sp->src = i; sp->tgt = (id_type) j;
                sp->xgt = GTS[xgt]; sp->ygt = GTS[ygt]; sp->xst = STS[xst]; sp->yst = STS[yst];
                sp->xgap = parsegap(xg); sp->ygap = parsegap(yg);
                try { m.setSepPair(i, (id_type) j, sp); any = true; } catch (std::runtime_error &) { bad = true; }
            }
            if (!any) m.free(i, i + 1);     // leaves an empty row behind
        }
        if (bad) { puts("BADIDS"); continue; }
        for (const std::string &op : splitOn(parts[1], ';')) {
            std::istringstream is(op);
            std::string o; int t;
            if (!(is >> o >> t) || t < 0 || t > 6) continue;
            std::set<id_type> ids; long v;
            while (is >> v) ids.insert((id_type) v);
            if (o == "O") G.transformOpenSubset(TFS[t], ids);
            else if (o == "C") G.transformClosedSubset(TFS[t], ids);
            else if (o == "T") m.transform(TFS[t]);
        }
        std::ostringstream ss;
        ss << "D";
        for (auto &p : m.m_sparseLookup) for (auto &q : p.second) {
            if (!q.second) continue;
            ss << " | " << p.first << " " << q.first << " " << pairstr(*q.second);
            if (q.second->src != p.first || q.second->tgt != q.first) ss << " BADSRC";
        }
        ss << " | r";
        for (auto &p : m.m_sparseLookup) ss << " " << p.first;
        puts(ss.str().c_str());
    }
    return 0;
}

int main(int argc, char **argv)
{
    if (argc < 2) return 2;
    std::string mode = argv[1];
    if (mode == "enum") return modeEnum();
    if (mode == "ops" && argc > 2) return modeOps(argv[2]);
    if (mode == "gen" && argc > 2) return modeGen(argv[2]);
    if (mode == "tglf" && argc > 2) return modeTglf(argv[2]);
    if (mode == "sub") { if (argc > 2) { std::ifstream f(argv[2]); return modeSub(f); } return modeSub(std::cin); }
    return 2;
}
