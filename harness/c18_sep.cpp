// C18 harness: drives the real dialect::SepPair / SepMatrix / TGLF writer+reader.
// Modes (argv[1]):
//   enum            exhaustive sweeps over all SepPair states (2x2x3x3 kinds x 4x4 gaps {-2,-0.0,+0.0,2}):
//                   sections transform1 (7 transforms), transform2 (49 pairs), addsep (192 requests), cardinal
//   ops  <file>     interpreter of SepMatrix op sequences (addSep, addFixedRelativeSep, getCardinalDir, are?Aligned,
//                   transform, dump) on a graph with 3 nodes
//   gen  <file>     generateSeparationConstraints on given pair + placement (+ transform applied by the real code)
//   tglf <file>     Graph::writeTglf(true) -> buildGraphFromTglf: canonical dump of both graphs
// Numbers cross the boundary as integers scaled by 4 (all inputs are multiples of 0.25); gaps as sign char + |g|*4.
// The OCaml driver extract/c18_driver.ml produces the same text from the extracted Coq model.
#include <cstddef>
#include <cfloat>
#include <cmath>
#include <cstdio>
#include <cstdlib>
#include <cstring>
#include <string>
#include <vector>
#include <map>
#include <set>
#include <sstream>
#include <fstream>
#include <iostream>
#include <algorithm>
#include <memory>
#include <functional>
#include <deque>
#include <list>
#include <stack>
#include <queue>
#include <stdexcept>
#include <utility>
#include <cassert>
#include <iterator>
#include <numeric>
#include <limits>
#include <unordered_map>
#include <unordered_set>
#include <valarray>
#include <array>
#include <iomanip>
#include <ctime>
#include <cstdint>
#include <typeinfo>
#include <climits>
#define private public
#define protected public
#include "libdialect/libdialect.h"
#include "libdialect/io.h"
#include "libdialect/ortho.h"
#undef private
#undef protected

using namespace dialect;

static const double GAPS[4] = {-2.0, -0.0, 0.0, 2.0};
static const SepTransform TFS[7] = {SepTransform::ROTATE90CW, SepTransform::ROTATE90ACW, SepTransform::ROTATE180,
    SepTransform::FLIPV, SepTransform::FLIPH, SepTransform::FLIPMD, SepTransform::FLIPOD};
static const SepDir DIRS[8] = {SepDir::EAST, SepDir::SOUTH, SepDir::WEST, SepDir::NORTH,
    SepDir::RIGHT, SepDir::DOWN, SepDir::LEFT, SepDir::UP};
static const SepType STS[3] = {SepType::NONE, SepType::EQ, SepType::INEQ};
static const GapType GTS[2] = {GapType::CENTRE, GapType::BDRY};

static long q4(double v) { return lround(v * 4.0); }
static std::string gapstr(double g)
{
    char b[64];
    snprintf(b, sizeof b, "%c%ld", std::signbit(g) ? '-' : '+', q4(std::fabs(g)));
    return b;
}
static double parsegap(const std::string &s)
{
    double m = atol(s.c_str() + 1) / 4.0;
    return s[0] == '-' ? -m : m;
}
static std::string pairstr(const SepPair &sp)
{
    char b[128];
    snprintf(b, sizeof b, "%d %d %d %d %s %s", (int)sp.xgt, (int)sp.ygt, (int)sp.xst, (int)sp.yst,
             gapstr(sp.xgap).c_str(), gapstr(sp.ygap).c_str());
    return b;
}
static char cardc(CardinalDir d)
{
    switch (d) { case CardinalDir::EAST: return 'E'; case CardinalDir::SOUTH: return 'S';
                 case CardinalDir::WEST: return 'W'; case CardinalDir::NORTH: return 'N'; }
    return '?';
}

template <class F> static void forStates(F f)
{
    for (int a = 0; a < 2; a++) for (int b = 0; b < 2; b++) for (int c = 0; c < 3; c++) for (int d = 0; d < 3; d++)
    for (int i = 0; i < 4; i++) for (int j = 0; j < 4; j++) {
        SepPair sp;
        sp.xgt = GTS[a]; sp.ygt = GTS[b]; sp.xst = STS[c]; sp.yst = STS[d]; sp.xgap = GAPS[i]; sp.ygap = GAPS[j];
        f(sp);
    }
}

static int modeEnum()
{
    printf("## transform1\n");
    forStates([](const SepPair &s) { for (int t = 0; t < 7; t++) { SepPair r = s; r.transform(TFS[t]); puts(pairstr(r).c_str()); } });
    printf("## transform2\n");
    forStates([](const SepPair &s) { for (int t = 0; t < 7; t++) for (int u = 0; u < 7; u++) {
        SepPair r = s; r.transform(TFS[t]); r.transform(TFS[u]); puts(pairstr(r).c_str()); } });
    printf("## addsep\n");
    forStates([](const SepPair &s) { for (int g = 0; g < 2; g++) for (int d = 0; d < 8; d++) for (int t = 0; t < 3; t++)
        for (int k = 0; k < 4; k++) { SepPair r = s; r.addSep(GTS[g], DIRS[d], STS[t], GAPS[k]); puts(pairstr(r).c_str()); } });
    printf("## cardinal\n");
    forStates([](const SepPair &s) {
        char c = 'x';
        try { c = cardc(s.getCardinalDir()); } catch (std::runtime_error &) { c = 'x'; }
        printf("%d %d %d %d %d %c %d %d\n", (int)s.isVerticalCardinal(), (int)s.isHorizontalCardinal(), (int)s.isVAlign(),
               (int)s.isHAlign(), (int)s.isCardinal(), c, (int)s.hasConstraintInDim(vpsc::XDIM), (int)s.hasConstraintInDim(vpsc::YDIM));
    });
    return 0;
}

static std::string dumpMatrix(SepMatrix &m, const std::map<id_type, int> &ix)
{
    std::ostringstream ss;
    ss << "D";
    for (auto &p : m.m_sparseLookup) for (auto &q : p.second) {
        if (!q.second) continue;
        ss << " | " << ix.at(p.first) << " " << ix.at(q.first) << " " << pairstr(*q.second);
        if (ix.at(q.second->src) != ix.at(p.first) || ix.at(q.second->tgt) != ix.at(q.first)) ss << " BADSRC";
    }
    return ss.str();
}

static int modeOps(const char *file)
{
    std::ifstream in(file);
    std::string line;
    Graph *G = nullptr;
    std::vector<Node_SP> nodes;
    std::map<id_type, int> ix;
    while (std::getline(in, line)) {
        std::istringstream is(line);
        std::string op; is >> op;
        if (op == "N") {
            delete G; G = new Graph(); nodes.clear(); ix.clear();
            for (int i = 0; i < 3; i++) { Node_SP u = Node::allocate(); G->addNode(u); nodes.push_back(u); ix[u->id()] = i; }
            if (!(nodes[0]->id() < nodes[1]->id() && nodes[1]->id() < nodes[2]->id())) { puts("IDORDER"); return 3; }
        } else if (op == "X") {
            long e; is >> e; G->getSepMatrix().setExtraBdryGap(e / 4.0);
        } else if (op == "A") {
            int i, j, gt, sd, st; std::string g; is >> i >> j >> gt >> sd >> st >> g;
            try { G->getSepMatrix().addSep(nodes[i]->id(), nodes[j]->id(), GTS[gt], DIRS[sd], STS[st], parsegap(g)); }
            catch (std::runtime_error &) { puts("A!"); }
        } else if (op == "F") {
            int i, j; std::string dx, dy; is >> i >> j >> dx >> dy;
            try { G->getSepMatrix().addFixedRelativeSep(nodes[i]->id(), nodes[j]->id(), parsegap(dx), parsegap(dy)); }
            catch (std::runtime_error &) { puts("F!"); }
        } else if (op == "C") {
            int i, j; is >> i >> j;
            char c;
            try { c = cardc(G->getSepMatrix().getCardinalDir(nodes[i]->id(), nodes[j]->id())); }
            catch (std::runtime_error &e) { c = (std::string(e.what()) == "No constraint.") ? 'n' : 'x'; }
            printf("C %c\n", c);
        } else if (op == "H") {
            int i, j; is >> i >> j; printf("H %d\n", (int)G->getSepMatrix().areHAligned(nodes[i]->id(), nodes[j]->id()));
        } else if (op == "V") {
            int i, j; is >> i >> j; printf("V %d\n", (int)G->getSepMatrix().areVAligned(nodes[i]->id(), nodes[j]->id()));
        } else if (op == "T") {
            int t; is >> t; G->getSepMatrix().transform(TFS[t]);
        } else if (op == "D") {
            puts(dumpMatrix(G->getSepMatrix(), ix).c_str());
        }
    }
    delete G;
    return 0;
}

static void tfPoint(int tf, double x, double y, double &X, double &Y)
{
    // rotations through the library's own plane maps, flips by hand (no library counterpart)
    Avoid::Point p(x, y), r = p;
    switch (tf) {
    case 0: break;
    case 1: r = Compass::getRotationFunction(CardinalDir::EAST, CardinalDir::SOUTH)(p); break;   // ROTATE90CW
    case 2: r = Compass::getRotationFunction(CardinalDir::EAST, CardinalDir::NORTH)(p); break;   // ROTATE90ACW
    case 3: r = Compass::getRotationFunction(CardinalDir::EAST, CardinalDir::WEST)(p); break;    // ROTATE180
    case 4: r = Avoid::Point(-x, y); break;     // FLIPV: over the vertical axis
    case 5: r = Avoid::Point(x, -y); break;     // FLIPH
    case 6: r = Avoid::Point(y, x); break;      // FLIPMD
    case 7: r = Avoid::Point(-y, -x); break;    // FLIPOD
    }
    X = r.x; Y = r.y;
}

static int modeGen(const char *file)
{
    std::ifstream in(file);
    std::string line;
    while (std::getline(in, line)) {
        std::istringstream is(line);
        int xgt, ygt, xst, yst, tf; std::string xg, yg; long e, v[8];
        if (!(is >> xgt >> ygt >> xst >> yst >> xg >> yg >> e)) continue;
        for (int i = 0; i < 8; i++) is >> v[i];
        is >> tf;
        double sx = v[0] / 4.0, sy = v[1] / 4.0, tx = v[2] / 4.0, ty = v[3] / 4.0,
               sw = v[4] / 4.0, sh = v[5] / 4.0, tw = v[6] / 4.0, th = v[7] / 4.0;
        double SX, SY, TX, TY;
        tfPoint(tf, sx, sy, SX, SY); tfPoint(tf, tx, ty, TX, TY);
        bool swaps = (tf == 1 || tf == 2 || tf == 6 || tf == 7);
        Graph G;
        Node_SP a = Node::allocate(), b = Node::allocate();
        a->setCentre(SX, SY); a->setDims(swaps ? sh : sw, swaps ? sw : sh);
        b->setCentre(TX, TY); b->setDims(swaps ? th : tw, swaps ? tw : th);
        G.addNode(a); G.addNode(b);
        SepMatrix &m = G.getSepMatrix();
        m.setExtraBdryGap(e / 4.0);
        SepPair_SP sp = std::make_shared<SepPair>();
        sp->src = a->id(); sp->tgt = b->id();
        sp->xgt = GTS[xgt]; sp->ygt = GTS[ygt]; sp->xst = STS[xst]; sp->yst = STS[yst];
        sp->xgap = parsegap(xg); sp->ygap = parsegap(yg);
        m.setSepPair(a->id(), b->id(), sp);
        if (tf > 0) m.transform(TFS[tf - 1]);
        ColaGraphRep &cgr = G.updateColaGraphRep();
        std::string out;
        for (int d = 0; d < 2; d++) {
            vpsc::Variables vs; vpsc::Constraints cs; vpsc::Rectangles bbs;
            double pos[2];
            pos[cgr.id2ix.at(a->id())] = d == 0 ? SX : SY;
            pos[cgr.id2ix.at(b->id())] = d == 0 ? TX : TY;
            vs.push_back(new vpsc::Variable(0, pos[0])); vs.push_back(new vpsc::Variable(1, pos[1]));
            m.generateSeparationConstraints(d == 0 ? vpsc::XDIM : vpsc::YDIM, vs, cs, bbs);
            char buf[128];
            if (cs.empty()) snprintf(buf, sizeof buf, "%c:none", d == 0 ? 'X' : 'Y');
            else {
                vpsc::Constraint *c = cs[0];
                // which end is src (=a)?
                int l = (c->left->id == (int)cgr.id2ix.at(a->id())) ? 0 : 1, r = (c->right->id == (int)cgr.id2ix.at(a->id())) ? 0 : 1;
                double lhs = pos[c->left->id] + c->gap, rhs = pos[c->right->id];
                bool sat = c->equality ? (lhs == rhs) : (lhs <= rhs);
                snprintf(buf, sizeof buf, "%c:%d %d %ld %d %d%s", d == 0 ? 'X' : 'Y', l, r, q4(c->gap), (int)c->equality, (int)sat,
                         cs.size() > 1 ? " EXTRA" : "");
            }
            out += buf; out += d == 0 ? " " : "";
            for (auto c : cs) delete c;
            for (auto x : vs) delete x;
        }
        printf("%s | %s\n", out.c_str(), pairstr(*sp).c_str());
    }
    return 0;
}

// canonical dump: nodes by external id, edges as (ext src, ext tgt, route), pairs by (ext lo, ext hi)
static void dumpGraph(const char *tag, Graph &G)
{
    std::map<id_type, int> ext;
    std::vector<std::string> lines;
    id_type prev = 0; bool first = true, mono = true; int prevExt = -1;
    for (auto &p : G.getNodeLookup()) {
        int e = p.second->getExternalId();
        ext[p.first] = e;
        Avoid::Point c = p.second->getCentre(); dimensions d = p.second->getDimensions();
        char b[160]; snprintf(b, sizeof b, "%s node %d %ld %ld %ld %ld", tag, e, q4(c.x), q4(c.y), q4(d.first), q4(d.second));
        lines.push_back(b);
    }
    std::vector<std::string> el;
    for (auto &p : G.getEdgeLookup()) {
        auto ends = p.second->getEndIds();
        std::ostringstream ss; ss << tag << " edge " << ext[ends.first] << " " << ext[ends.second];
        for (auto pt : p.second->getRoute()) ss << " " << q4(pt.x) << " " << q4(pt.y);
        el.push_back(ss.str());
    }
    std::sort(el.begin(), el.end());
    lines.insert(lines.end(), el.begin(), el.end());
    SepMatrix &m = G.getSepMatrix();
    std::vector<std::string> pl;
    for (auto &p : m.m_sparseLookup) for (auto &q : p.second) {
        if (!q.second) continue;
        // report relative to external ids: src ext, tgt ext (the pair is directed src -> tgt)
        std::ostringstream ss; ss << tag << " pair " << ext[p.first] << " " << ext[q.first] << " " << pairstr(*q.second);
        pl.push_back(ss.str());
    }
    std::sort(pl.begin(), pl.end());
    lines.insert(lines.end(), pl.begin(), pl.end());
    for (auto &l : lines) puts(l.c_str());
    printf("%s extra %ld\n", tag, q4(m.getExtraBdryGap()));
}

static int modeTglf(const char *file)
{
    std::ifstream in(file);
    std::string line;
    Graph *G = nullptr;
    std::map<int, Node_SP> byExt;
    int caseNo = 0;
    auto finish = [&]() {
        if (!G) return;
        printf("## case %d\n", caseNo++);
        std::string s;
        bool threw = false;
        try { s = G->writeTglf(true); } catch (std::runtime_error &e) { threw = true; printf("WRITE-THROWS %s\n", e.what()); }
        dumpGraph("A", *G);
        if (!threw) {
            Graph_SP H = buildGraphFromTglf(s);
            dumpGraph("B", *H);
            // idempotence of the text: writing the re-read graph gives the same text
            std::string s2 = H->writeTglf(true);
            printf("TEXT %s\n", s == s2 ? "same" : "differs");
            std::istringstream ts(s); std::string l;
            while (std::getline(ts, l)) printf("T %s\n", l.c_str());
        }
        delete G; G = nullptr; byExt.clear();
    };
    while (std::getline(in, line)) {
        std::istringstream is(line);
        std::string op; is >> op;
        if (op == "G") { finish(); G = new Graph(); }
        else if (op == "n") {
            int e; long cx, cy, w, h; is >> e >> cx >> cy >> w >> h;
            Node_SP u = Node::allocate(); u->setExternalId(e); u->setCentre(cx / 4.0, cy / 4.0); u->setDims(w / 4.0, h / 4.0);
            G->addNode(u); byExt[e] = u;
        } else if (op == "e") {
            int a, b; is >> a >> b; Edge_SP ed = Edge::allocate(byExt[a], byExt[b]);
            long x, y; while (is >> x >> y) ed->addRoutePoint(x / 4.0, y / 4.0);
            G->addEdge(ed);
        } else if (op == "x") { long e; is >> e; G->getSepMatrix().setExtraBdryGap(e / 4.0); }
        else if (op == "c") {
            int i, j, gt, sd, st; std::string g; is >> i >> j >> gt >> sd >> st >> g;
            G->getSepMatrix().addSep(byExt[i]->id(), byExt[j]->id(), GTS[gt], DIRS[sd], STS[st], parsegap(g));
        }
    }
    finish();
    return 0;
}

int main(int argc, char **argv)
{
    if (argc < 2) return 2;
    std::string mode = argv[1];
    if (mode == "enum") return modeEnum();
    if (mode == "ops" && argc > 2) return modeOps(argv[2]);
    if (mode == "gen" && argc > 2) return modeGen(argv[2]);
    if (mode == "tglf" && argc > 2) return modeTglf(argv[2]);
    return 2;
}
