"""C13 scene families (explicit scenes replayed by `c13_topo scenes`): generators + scene symmetries + script writer.

Families (all coordinates are small integers, node sides on a coarse lattice so that many nodes share side coordinates exactly):
  pinch   an edge segment pinched between nodes that sit on both sides of ONE shared lattice line (the side of one node and the
          opposite side of another lie on exactly the same scan position), both asked to move across the segment in one
          ColaTopologyAddon::moveTo (one TopologyConstraints, solve() until not interrupted); random D4 symmetry => vertical and
          horizontal passes, all four corner pairs
  lattice random lattice-aligned node sets, edges routed by an exact visibility-graph shortest path (tight round corners),
          op histories of MOVE (both axes) / RESIZE / LAYOUT (ConstrainedFDLayout + addon, PreIteration locks and resizes)
  resize  a node R with edges routed round each of its corners and neighbours close to its sides; R is grown / shrunk in x and / or y
          through ColaTopologyAddon::handleResizes or a cola::Resize in PreIteration; random D4 symmetry
  drag    ONE topology::TopologyConstraints instance kept alive over several solves with changing desired positions (scene op DRAG, the
          usage of libtopology/tests/simple_bend.cpp): a node is dragged into a straight edge (or across two edges) so that the edge has to
          bend round its corner, then dragged back (in one or several steps, possibly beyond where it came from), finally every node is
          asked back to where it started: bends made during the session must straighten again; lattice-aligned and generic coordinates
  comb    "many events in one pass": 1..3 movers beside a bundle of 20..80 near-parallel edges (parallel / fan out of one hub / alternating
          direction), each asked across c of them in ONE ColaTopologyAddon::moveTo (2 events per mover and edge; two thirds of the scenes need more
          than the addon's budget of 100 solve() iterations); generic coordinates; MOVE, MOVE + the same MOVE again, MOVE + other axis, or LAYOUT with Locks
The generators only emit start states that pass a Python port of the checker (the extracted checker re-validates `before`)."""

TR, BR, BL, TL, CEN = 0, 1, 2, 3, 4
KNAME = ['TR', 'BR', 'BL', 'TL', 'CENTRE']


def corner(r, k):
    x0, x1, y0, y1 = r
    if k == TR: return (x1, y1)
    if k == BR: return (x1, y0)
    if k == BL: return (x0, y0)
    if k == TL: return (x0, y1)
    return ((x0 + x1) / 2.0, (y0 + y1) / 2.0)


def cross(a, b, c):
    return (b[0] - a[0]) * (c[1] - a[1]) - (c[0] - a[0]) * (b[1] - a[1])


def seg_clear_open(a, b, r):
    """closed segment ab has no point in the OPEN rectangle r (port of TopoCheck.seg_clear, exact on our inputs)"""
    x0, x1, y0, y1 = r
    if (a[0] <= x0 and b[0] <= x0) or (a[0] >= x1 and b[0] >= x1) or (a[1] <= y0 and b[1] <= y0) or (a[1] >= y1 and b[1] >= y1):
        return True
    if a == b:
        return False
    cs = [cross(a, b, p) for p in ((x0, y0), (x1, y0), (x0, y1), (x1, y1))]
    return all(c >= 0 for c in cs) or all(c <= 0 for c in cs)


def seg_clear_closed(a, b, r):
    """closed segment ab does not even touch the CLOSED rectangle r"""
    x0, x1, y0, y1 = r
    if (a[0] < x0 and b[0] < x0) or (a[0] > x1 and b[0] > x1) or (a[1] < y0 and b[1] < y0) or (a[1] > y1 and b[1] > y1):
        return True
    if a == b:
        return False
    cs = [cross(a, b, p) for p in ((x0, y0), (x1, y0), (x0, y1), (x1, y1))]
    return all(c > 0 for c in cs) or all(c < 0 for c in cs)


def rects_apart(r, s):
    return r[1] <= s[0] or s[1] <= r[0] or r[3] <= s[2] or s[3] <= r[2]


def path_points(nodes, path):
    return [corner(nodes[n], k) for n, k in path]


def path_ok(nodes, path, strict):
    """port of check_path_layout (+ optional strictness: no segment touches a foreign node at all)"""
    pts = path_points(nodes, path)
    if len(path) < 2 or path[0][1] != CEN or path[-1][1] != CEN or path[0][0] == path[-1][0]:
        return False
    seen = set()
    for j in range(1, len(path) - 1):
        if path[j][1] == CEN or path[j] in seen:
            return False
        seen.add(path[j])
        a, b, c = pts[j - 1], pts[j], pts[j + 1]
        if a == b or b == c:
            return False
        turn = cross(a, b, c)
        cen = corner(nodes[path[j][0]], CEN)
        s1, s2 = cross(a, b, cen), cross(b, c, cen)
        if turn == 0:
            return False
        if not (turn * s1 > 0 and turn * s2 > 0):
            return False
    for j in range(len(path) - 1):
        for i, r in enumerate(nodes):
            if i == path[j][0] or i == path[j + 1][0]:
                continue
            if strict:
                if not seg_clear_closed(pts[j], pts[j + 1], r):
                    return False
            elif not seg_clear_open(pts[j], pts[j + 1], r):
                return False
        # the first / last segment may cross its own end node, middle segments must not cross the end nodes' interiors either
    return True


def scene_ok(sc, strict=True):
    ns = sc['nodes']
    for i in range(len(ns)):
        if ns[i][1] - ns[i][0] < 4 or ns[i][3] - ns[i][2] < 4:
            return False
        for j in range(i + 1, len(ns)):
            if not rects_apart(ns[i], ns[j]):
                return False
    return all(path_ok(ns, p, strict) for p in sc['edges'])


# ------------------------------------------------------------------------------------------ shortest tight routes
def route(nodes, s, t, strict=True, maxpop=60):
    """exact Euclidean shortest path from the centre of node s to the centre of node t around the other nodes (open obstacles;
    with strict: closed obstacles, i.e. not through zero-width corridors), lazily evaluated visibility.  Returns a path or None."""
    import heapq, math
    clear = seg_clear_closed if strict else seg_clear_open
    verts = [(s, CEN), (t, CEN)]
    for i in range(len(nodes)):
        if i != s and i != t:
            verts += [(i, k) for k in range(4)]
    pos = [corner(nodes[n], k) for n, k in verts]

    def vis(u, v):
        if pos[u] == pos[v]:
            return False
        for i, r in enumerate(nodes):
            if i == verts[u][0] or i == verts[v][0]:
                if i in (s, t) and (verts[u][1] == CEN or verts[v][1] == CEN):
                    continue
                # segment between two corners of one node, or leaving a corner: must not cut through that node
                if not seg_clear_open(pos[u], pos[v], r):
                    return False
                continue
            if i in (s, t):
                # middle segments must not pass through the end nodes
                if not seg_clear_open(pos[u], pos[v], r):
                    return False
                continue
            if not clear(pos[u], pos[v], r):
                return False
        return True

    dist = {0: 0.0}
    prev = {}
    done = set()
    h = lambda u: math.hypot(pos[u][0] - pos[1][0], pos[u][1] - pos[1][1])
    pq = [(h(0), 0)]
    pops = 0
    while pq:
        f, u = heapq.heappop(pq)
        if u in done:
            continue
        done.add(u)
        if u == 1:
            break
        pops += 1
        if pops > maxpop:
            return None
        for v in range(len(verts)):
            if v in done or v == u:
                continue
            d = dist[u] + math.hypot(pos[u][0] - pos[v][0], pos[u][1] - pos[v][1])
            if d < dist.get(v, 1e300) - 1e-9 and vis(u, v):
                dist[v] = d
                prev[v] = u
                heapq.heappush(pq, (d + h(v), v))
    if 1 not in done:
        return None
    p, u = [], 1
    while u != 0:
        p.append(verts[u]); u = prev[u]
    p.append(verts[0])
    p.reverse()
    return p


# ------------------------------------------------------------------------------------------ symmetries
def sym_kind(k, swap, fx, fy):
    if k == CEN:
        return CEN
    right, top = k in (TR, BR), k in (TR, TL)
    if fx: right = not right
    if fy: top = not top
    if swap: right, top = top, right
    return {(True, True): TR, (True, False): BR, (False, False): BL, (False, True): TL}[(right, top)]


def sym_rect(r, swap, fx, fy):
    x0, x1, y0, y1 = r
    if fx: x0, x1 = -x1, -x0
    if fy: y0, y1 = -y1, -y0
    if swap: x0, x1, y0, y1 = y0, y1, x0, x1
    return (x0, x1, y0, y1)


def sym_scene(sc, swap, fx, fy):
    out = {'family': sc['family'], 'tag': sc['tag'], 'sym': [int(swap), int(fx), int(fy)],
           'nodes': [sym_rect(r, swap, fx, fy) for r in sc['nodes']],
           'edges': [[(n, sym_kind(k, swap, fx, fy)) for n, k in p] for p in sc['edges']], 'ops': []}
    if 'comb' in sc:
        out['comb'] = sc['comb']

    def pt(x, y):
        if fx: x = -x
        if fy: y = -y
        return (y, x) if swap else (x, y)

    def rz(lst):
        res = []
        for i, x, y, w, h in lst:
            r = sym_rect((x, x + w, y, y + h), swap, fx, fy)
            res.append((i, r[0], r[2], r[1] - r[0], r[3] - r[2]))
        return res
    for op in sc['ops']:
        if op[0] == 'MOVE':
            dim, lst = op[1], op[2]
            flip = fx if dim == 0 else fy
            ndim = (1 - dim) if swap else dim
            out['ops'].append(('MOVE', ndim, [(i, -d if flip else d, w) for i, d, w in lst]))
        elif op[0] == 'DRAG':
            dim = op[1]
            flip = fx if dim == 0 else fy
            ndim = (1 - dim) if swap else dim
            out['ops'].append(('DRAG', ndim, [[(i, -d if flip else d, w) for i, d, w in st] for st in op[2]]))
        elif op[0] == 'RESIZE':
            out['ops'].append(('RESIZE', rz(op[1])))
        else:
            out['ops'].append(('LAYOUT', op[1], [(i,) + pt(x, y) for i, x, y in op[2]], rz(op[3])))
    return out


def num(v):
    return ('%d' % v) if float(v) == int(v) else repr(float(v))


def script(sc):
    ls = ['SCENE ' + sc['tag']]
    for r in sc['nodes']:
        ls.append('NODE ' + ' '.join(num(v) for v in r))
    for p in sc['edges']:
        ls.append('EDGE %d ' % len(p) + ' '.join('%d %d' % nk for nk in p))
    for op in sc['ops']:
        if op[0] == 'MOVE':
            ls.append('MOVE %d %d ' % (op[1], len(op[2])) + ' '.join('%d %s %s' % (i, num(d), num(w)) for i, d, w in op[2]))
        elif op[0] == 'DRAG':
            ls.append('DRAG %d %d ' % (op[1], len(op[2])) + ' '.join('%d ' % len(st) + ' '.join('%d %s %s' % (i, num(d), num(w)) for i, d, w in st) for st in op[2]))
        elif op[0] == 'RESIZE':
            ls.append('RESIZE %d ' % len(op[1]) + ' '.join('%d %s %s %s %s' % (i, num(x), num(y), num(w), num(h)) for i, x, y, w, h in op[1]))
        else:
            ls.append('LAYOUT %d %d ' % (op[1], len(op[2])) + ' '.join('%d %s %s' % (i, num(x), num(y)) for i, x, y in op[2]) +
                      ' %d ' % len(op[3]) + ' '.join('%d %s %s %s %s' % (i, num(x), num(y), num(w), num(h)) for i, x, y, w, h in op[3]))
    ls.append('ENDSCENE')
    return '\n'.join(ls) + '\n'


# ------------------------------------------------------------------------------------------ generators
def place_free(rng, nodes, paths, U, lo, hi, tries=30, wmax=5, hmax=5, strict=True):
    """a lattice rectangle that overlaps no node and is not touched by any existing path"""
    for _ in range(tries):
        w, h = U * rng.range(2, wmax), U * rng.range(2, hmax)
        x0, y0 = U * rng.range(lo // U, hi // U), U * rng.range(lo // U, hi // U)
        r = (x0, x0 + w, y0, y0 + h)
        if not all(rects_apart(r, s) for s in nodes):
            continue
        ok = True
        for p in paths:
            pts = path_points(nodes, p)
            for j in range(len(pts) - 1):
                if not (seg_clear_closed if strict else seg_clear_open)(pts[j], pts[j + 1], r):
                    ok = False
        if ok:
            return r
    return None


def gen_pinch(rng, tag):
    """canonical orientation: VERTICAL pass, shared line x = c; B's right side and C's left side on it (or, variant, same-side
    nodes / several nodes per side); an edge S -> E crossing the line between them"""
    U = rng.choice([10, 10, 20])
    c = U * rng.range(8, 12)
    # end nodes
    sw, ew = U * rng.range(1, 2) * 2, U * rng.range(1, 2) * 2
    sx1 = c - U * rng.range(4, 8)
    ex0 = c + U * rng.range(4, 8)
    sy0 = U * rng.range(4, 12)
    ey0 = sy0 + U * rng.range(-6, 6)
    S = (sx1 - sw, sx1, sy0, sy0 + 2 * U)
    E = (ex0, ex0 + ew, ey0, ey0 + 2 * U)
    a, b = corner(S, CEN), corner(E, CEN)
    yc = a[1] + (b[1] - a[1]) * (c - a[0]) / (b[0] - a[0])
    nodes = [S, E]
    edges = [[(0, CEN), (1, CEN)]]
    pinchers = []

    def y_on(x):
        return a[1] + (b[1] - a[1]) * (x - a[0]) / (b[0] - a[0])
    nside = rng.choice([2, 2, 2, 3, 4])
    for k in range(nside):
        left = (k % 2 == 0) if rng.chance(5, 6) else rng.chance(1, 2)
        above = (k % 2 == 0) if rng.chance(3, 4) else rng.chance(1, 2)
        for _ in range(20):
            w, h = U * rng.range(2, 6), U * rng.range(2, 4)
            x0 = c - w if left else c
            xs = (x0, x0 + w)
            if xs[0] < S[1] + U and left:
                w = c - S[1] - U; x0 = c - w; xs = (x0, c)
                if w < 2 * U: continue
            if (not left) and xs[1] > E[0] - U:
                w = E[0] - U - c; xs = (c, c + w)
                if w < 2 * U: continue
            ys_seg = [y_on(xs[0]), y_on(xs[1])]
            gap = U * rng.range(1, 4) - rng.choice([0, 0, 0, U // 2])
            if above:
                y0 = (int(max(ys_seg)) // (U // 2) + 1) * (U // 2) + gap
                if rng.chance(1, 2): y0 = (y0 // U) * U + (U if y0 % U else 0)
            else:
                y0 = (int(min(ys_seg) - 0.001) // (U // 2)) * (U // 2) - gap - h
                if rng.chance(1, 2): y0 = (y0 // U) * U
            r = (xs[0], xs[1], y0, y0 + h)
            if all(rects_apart(r, s) for s in nodes) and seg_clear_closed(a, b, r):
                nodes.append(r)
                pinchers.append((len(nodes) - 1, above, h, y0))
                break
    # a second edge sharing the corridor, sometimes
    if rng.chance(1, 3):
        for _ in range(10):
            r1 = place_free(rng, nodes, edges, U, 0, 8 * U, wmax=3, hmax=3)
            if r1 is None: break
            n1 = nodes + [r1]
            r2 = place_free(rng, n1, edges, U, 12 * U, 20 * U, wmax=3, hmax=3)
            if r2 is None: continue
            n2 = n1 + [r2]
            p = route(n2, len(n2) - 2, len(n2) - 1)
            if p is not None and path_ok(n2, p, True) and all(path_ok(n2, q, True) for q in edges):
                nodes = n2; edges.append(p)
                break
    # distractors
    for _ in range(rng.range(0, 3)):
        r = place_free(rng, nodes, edges, U, 0, 20 * U)
        if r is not None:
            nodes.append(r)
    # the move: every pincher is asked to cross the segment (and a bit more); ends heavy; several solve loops
    ops = []
    for rnd in range(rng.range(1, 3)):
        lst = []
        for i, above, h, y0 in pinchers:
            cy = corner(nodes[i], CEN)[1]
            d = U * rng.range(2, 8) + rng.choice([0, 0, U // 2, 3])
            if rnd > 0 and rng.chance(1, 2): d = -d
            lst.append((i, cy - d if above else cy + d, rng.choice([1, 1, 1, 2, 10])))
        for i in (0, 1):
            cy = corner(nodes[i], CEN)[1]
            if rng.chance(2, 3):
                lst.append((i, cy, 1000))
            else:
                lst.append((i, cy + U * rng.range(-3, 3), rng.choice([1, 1000])))
        for i in range(2 + len(pinchers), len(nodes)):
            if rng.chance(1, 2):
                lst.append((i, corner(nodes[i], CEN)[1] + U * rng.range(-6, 6), 1))
        ops.append(('MOVE', 1, lst))
        if rng.chance(1, 4):
            ops.append(('MOVE', 0, [(i, corner(nodes[i], CEN)[0] + U * rng.range(-4, 4), 1) for i in range(2, len(nodes)) if rng.chance(1, 2)]))
    return {'family': 'pinch', 'tag': tag, 'nodes': nodes, 'edges': edges, 'ops': ops}


def rand_ops(rng, nodes, edges, U, nops, allow_resize=True):
    ops = []
    bent = sorted(set(n for p in edges for n, k in p[1:-1]))
    for _ in range(nops):
        kind = rng.below(10)
        if kind < 6 or not allow_resize:
            dim = rng.below(2)
            lst = []
            for i, r in enumerate(nodes):
                if rng.chance(3, 5):
                    cpos = corner(r, CEN)[dim]
                    lst.append((i, cpos + (U // 2) * rng.range(-12, 12), rng.choice([1, 1, 1, 5, 1000])))
                elif rng.chance(1, 3):
                    lst.append((i, corner(r, CEN)[dim], 1000))
            ops.append(('MOVE', dim, lst))
        elif kind < 8:
            ops.append(('RESIZE', rand_resizes(rng, nodes, U, bent)))
        else:
            locks = []
            for i, r in enumerate(nodes):
                if rng.chance(1, 4):
                    cx, cy = corner(r, CEN)
                    locks.append((i, cx + (U // 2) * rng.range(-8, 8), cy + (U // 2) * rng.range(-8, 8)))
            ops.append(('LAYOUT', rng.range(1, 3), locks, rand_resizes(rng, nodes, U, bent) if rng.chance(1, 2) else []))
    return ops


def rand_resizes(rng, nodes, U, prefer):
    ids = []
    if prefer and rng.chance(3, 4):
        ids.append(rng.choice(prefer))
    while not ids or (rng.chance(1, 4) and len(ids) < 3):
        i = rng.below(len(nodes))
        if i not in ids:
            ids.append(i)
    out = []
    for i in ids:
        x0, x1, y0, y1 = nodes[i]
        for _ in range(20):
            h = U // 2
            dl, dr, db, dt = [h * rng.choice([-2, -1, 0, 0, 1, 2, 4, 6]) for _ in range(4)]
            if rng.chance(1, 3): dl = dr = 0
            elif rng.chance(1, 3): db = dt = 0
            nx0, nx1, ny0, ny1 = x0 - dl, x1 + dr, y0 - db, y1 + dt
            if nx1 - nx0 >= U and ny1 - ny0 >= U and (dl, dr, db, dt) != (0, 0, 0, 0):
                out.append((i, nx0, ny0, nx1 - nx0, ny1 - ny0))
                break
    return out


def gen_lattice(rng, tag, quick=True):
    U = rng.choice([10, 20])
    n = rng.range(4, 9)
    span = U * rng.choice([10, 12, 16])
    nodes = []
    for _ in range(n * 3):
        if len(nodes) >= n: break
        r = place_free(rng, nodes, [], U, 0, span, tries=5)
        if r is not None:
            nodes.append(r)
    strict = rng.chance(4, 5)
    edges = []
    m = rng.range(1, max(2, len(nodes) - 1))
    for _ in range(m * 3):
        if len(edges) >= m: break
        s, t = rng.below(len(nodes)), rng.below(len(nodes))
        if s == t: continue
        p = route(nodes, s, t, strict)
        if p is not None and path_ok(nodes, p, strict):
            edges.append(p)
    if not edges:
        return None
    ops = rand_ops(rng, nodes, edges, U, rng.range(1, 4))
    return {'family': 'lattice' if strict else 'lattice-touch', 'tag': tag, 'nodes': nodes, 'edges': edges, 'ops': ops}


def gen_resize(rng, tag):
    """R in the middle; for a random non-empty subset of its corners an edge S -> R.corner -> E (S, E in the two quadrants adjacent
    to the corner's outer quadrant); neighbours hugging R's sides; grow / shrink R"""
    U = rng.choice([10, 10, 20])
    rw, rh = U * rng.range(2, 6), U * rng.range(2, 6)
    x0, y0 = 10 * U, 10 * U
    R = (x0, x0 + rw, y0, y0 + rh)
    nodes = [R]
    edges = []
    corners = [k for k in range(4) if rng.chance(1, 2)] or [rng.below(4)]
    for k in rng.shuffle(corners):
        cx, cy = corner(R, k)
        right, top = k in (TR, BR), k in (TR, TL)
        for _ in range(25):
            # quadrant A: beyond the corner in x, on R's side in y; quadrant B: the other way round
            def quad(xout, yout):
                w, h = U * rng.range(1, 3), U * rng.range(1, 3)
                dx, dy = U * rng.range(1, 7), U * rng.range(1, 7)
                ax = (cx + dx if right else cx - dx - w) if xout else (cx - dx - w if right else cx + dx)
                ay = (cy + dy if top else cy - dy - h) if yout else (cy - dy - h if top else cy + dy)
                return (ax, ax + w, ay, ay + h)
            A, B = quad(True, False), quad(False, True)
            if not (all(rects_apart(A, s) for s in nodes) and all(rects_apart(B, s) for s in nodes) and rects_apart(A, B)):
                continue
            n2 = nodes + [A, B]
            p = [(len(n2) - 2, CEN), (0, k), (len(n2) - 1, CEN)]
            if rng.chance(1, 2): p.reverse()
            if path_ok(n2, p, True) and all(path_ok(n2, q, True) for q in edges):
                nodes = n2; edges.append(p)
                break
    if not edges:
        return None
    # neighbours hugging R's sides (pushed when R grows), lattice aligned with R's sides
    for _ in range(rng.range(0, 4)):
        side = rng.below(4)
        w, h = U * rng.range(1, 4), U * rng.range(1, 4)
        gap = rng.choice([0, U // 2, U, U, 2 * U])
        if side == 0: r = (R[1] + gap, R[1] + gap + w, R[2] + U * rng.range(-2, 2), 0)
        elif side == 1: r = (R[0] - gap - w, R[0] - gap, R[2] + U * rng.range(-2, 2), 0)
        elif side == 2: r = (R[0] + U * rng.range(-2, 2), 0, R[3] + gap, R[3] + gap + h)
        else: r = (R[0] + U * rng.range(-2, 2), 0, R[2] - gap - h, R[2] - gap)
        r = (r[0], r[1] or r[0] + w, r[2], r[3] or r[2] + h)
        if all(rects_apart(r, s) for s in nodes) and all(path_ok(nodes + [r], q, True) for q in edges):
            nodes.append(r)
    for _ in range(rng.range(0, 2)):
        r = place_free(rng, nodes, edges, U, 2 * U, 22 * U)
        if r is not None:
            nodes.append(r)
    ops = []
    for rnd in range(rng.range(1, 2)):
        h = U // 2
        for _ in range(30):
            dl, dr, db, dt = [h * rng.choice([-2, -1, 0, 1, 2, 3, 4, 6]) for _ in range(4)]
            mode = rng.below(4)
            if mode == 0: dl = dr = 0
            elif mode == 1: db = dt = 0
            nx0, nx1, ny0, ny1 = R[0] - dl, R[1] + dr, R[2] - db, R[3] + dt
            if nx1 - nx0 >= U and ny1 - ny0 >= U and (dl, dr, db, dt) != (0, 0, 0, 0):
                break
        rz = [(0, nx0, ny0, nx1 - nx0, ny1 - ny0)]
        if rng.chance(1, 5) and len(nodes) > 3:
            rz += [z for z in rand_resizes(rng, nodes, U, []) if z[0] != 0][:1]
        if rng.chance(3, 4):
            ops.append(('RESIZE', rz))
        else:
            ops.append(('LAYOUT', rng.range(1, 2), [], rz))
        if rng.chance(1, 3):
            ops += rand_ops(rng, nodes, edges, U, 1, allow_resize=False)
        R = (nx0, nx1, ny0, ny1)
    return {'family': 'resize', 'tag': tag, 'nodes': nodes, 'edges': edges, 'ops': ops}


def gen_drag(rng, tag):
    """canonical orientation: HORIZONTAL session (nodes move in x).  One or two straight edges S -> W running upwards to the right or left; the
    dragged node B lies beside them with its y-range inside the y-span of the edges; B is dragged in x across the edge line(s) by steps of one
    DRAG op (one TopologyConstraints instance), then back; the last step asks every node back to its start position.
    lattice variant: all coordinates multiples of U/2; generic variant: eighths at arbitrary positions, no two node sides on one coordinate"""
    lattice = rng.chance(1, 2)
    U = rng.choice([10, 20])
    if lattice:
        q = lambda v: int(round(v / (U / 2.0))) * (U // 2)
    else:
        q = lambda v: int(round(v)) + rng.range(0, 7) / 8.0
    nedges = 1 if rng.chance(3, 5) else 2
    up_right = rng.chance(1, 2)
    H = U * rng.range(8, 16)                     # y-span of the edges between the end node centres
    Wd = U * rng.range(4, 16)                    # x-span
    nodes, edges, lines = [], [], []
    for e in range(nedges):
        hw, hh = q(U * rng.range(1, 2)) / 2.0 + (0 if lattice else 0.5), q(U * rng.range(1, 2)) / 2.0 + (0 if lattice else 0.25)
        sx = q(e * U * rng.range(4, 8) + (0 if up_right else Wd)); sy = q(U * rng.range(-2, 2))
        wx = q(sx + (Wd if up_right else -Wd) + U * rng.range(-2, 2)); wy = q(sy + H + U * rng.range(-2, 2))
        if lattice:
            hw, hh = max(U // 2, int(hw)), max(U // 2, int(hh))
        S = (sx - hw, sx + hw, sy - hh, sy + hh)
        Wn = (wx - hw, wx + hw, wy - hh, wy + hh)
        nodes += [S, Wn]
        edges.append([(len(nodes) - 2, CEN), (len(nodes) - 1, CEN)])
        lines.append((corner(S, CEN), corner(Wn, CEN)))
    # B: y-range strictly inside the common y-span (between the end nodes' boxes most of the time)
    ylo = max(min(a[1], b[1]) for a, b in lines) + U
    yhi = min(max(a[1], b[1]) for a, b in lines) - U
    bh = q(U * rng.range(1, 3)); bw = q(U * rng.range(1, 4))
    if lattice:
        bh, bw = max(U, int(bh)), max(U, int(bw))
    else:
        bh, bw = bh + 0.375, bw + 0.125
    if yhi - ylo < bh:
        return None
    by0 = q(ylo + rng.below(1001) / 1000.0 * (yhi - ylo - bh))
    def x_on(l, y):
        a, b = l
        return a[0] + (b[0] - a[0]) * (y - a[1]) / (b[1] - a[1])
    xs = [x_on(l, y) for l in lines for y in (by0, by0 + bh)]
    from_right = rng.chance(1, 2)
    gap = U * rng.range(1, 4) + (0 if lattice else rng.range(1, 7) / 8.0)
    if from_right:
        bx0 = q(max(xs) + gap)
    else:
        bx0 = q(min(xs) - gap) - bw
    B = (bx0, bx0 + bw, by0, by0 + bh)
    nodes.append(B)
    bi = len(nodes) - 1
    sc0 = {'nodes': nodes, 'edges': edges}
    if not scene_ok(sc0, strict=True):
        return None
    # distractors (not touched by any path; may be pushed by B)
    for _ in range(rng.range(0, 3)):
        r = place_free(rng, nodes, edges, U, -4 * U, 20 * U)
        if r is not None:
            if not lattice:
                r = (r[0] + 0.625, r[1] + 0.875, r[2] + 0.125, r[3] + 0.25)
                if not (all(rects_apart(r, s_) for s_ in nodes) and scene_ok({'nodes': nodes + [r], 'edges': edges}, strict=True)):
                    continue
            nodes.append(r)
    if not lattice:
        # generic position: no two sides on one coordinate
        for ax in (0, 2):
            vals = [v for r in nodes for v in (r[ax], r[ax + 1])]
            if len(set(vals)) != len(vals):
                return None
    # the session: targets for B's x-centre
    cx0 = (B[0] + B[1]) / 2.0
    far = (min(xs) + (cx0 - B[0])) if from_right else (max(xs) - (B[1] - cx0))      # centre at which B's near side has reached the farthest line
    sgn = -1 if from_right else 1
    span = abs(far - cx0)
    def into(frac_extra):
        return q(cx0 + sgn * (span + frac_extra))
    deep = U * rng.range(1, 6)
    pat = rng.below(6)
    if pat == 0:
        tg = [into(deep)]
    elif pat == 1:
        tg = [into(deep), into(deep + U * rng.range(1, 4))]
    elif pat == 2:
        tg = [into(deep + 2 * U), into(U // 2)]                     # partially back (still bent most of the time)
    elif pat == 3:
        tg = [into(deep), q(cx0), into(deep + U)]                 # in, out, in again
    elif pat == 4:
        tg = [into(deep), q(cx0 - sgn * U * rng.range(1, 4))]     # back beyond where it came from
    else:
        tg = [q(cx0 + sgn * span * rng.range(1, 3) / 4.0), into(deep)]   # approach without touching, then in
    steps = []
    heavy_ends = rng.chance(1, 3)
    for t in tg:
        st = [(bi, t, rng.choice([10000, 10000, 1000, 100]))]
        if heavy_ends:
            st += [(i, corner(nodes[i], CEN)[0], 1000) for i in range(bi)]
        elif rng.chance(1, 4):
            i = rng.below(bi)
            st.append((i, corner(nodes[i], CEN)[0] + U * rng.range(-3, 3), 1))
        steps.append(st)
    # last step: everybody back to the start
    steps.append([(i, corner(r, CEN)[0], 10000 if i == bi else 1) for i, r in enumerate(nodes)])
    fam = 'drag-lattice' if lattice else 'drag'
    if nedges == 2:
        fam += '2'
    return {'family': fam, 'tag': tag, 'nodes': nodes, 'edges': edges, 'ops': [('DRAG', 0, steps)]}


def gen_comb(rng, tag):
    """family `comb` ("many events in one pass"): canonical orientation HORIZONTAL (nodes move in x).  K in 20..80 near-vertical, near-parallel edges
    (variants: parallel T_k -> B_k with their own small end nodes / a fan out of ONE hub node / alternating edge direction), and 1..3 movers in disjoint
    y-bands strictly inside the y-span of the edges, beside the bundle; every mover is asked (weight 1e4) to cross c_m of the edges in ONE
    ColaTopologyAddon::moveTo.  Every crossed edge has to be wrapped round the two leading corners of the mover (2 topology events), so the pass needs
    2 * sum c_m events: about two thirds of the scenes need more than the addon's budget of 100 solve() iterations, the rest are controls that finish
    with alpha = 1.  Generic coordinates (eighths, no two node sides of different nodes on one scan line).  ops: MOVE (sometimes followed by the
    same MOVE again = the drag goes on in the next frame, or a MOVE in the other axis) or LAYOUT with a Lock on the movers (ConstrainedFDLayout::run
    -> setPosition -> moveTo of the addon)."""
    layout = rng.chance(1, 8)                        # through ConstrainedFDLayout::run: the drag has to outlast moveTo's budget AND that of applyForcesAndConstraints
    K = rng.range(34, 48) if layout else rng.range(20, 80)   # (after a layout run every coordinate is a full 53-bit dyadic: the exact checker is ~10x slower per state)
    variant = rng.choice(['parallel', 'parallel', 'parallel', 'fan', 'alternate'])
    sp = rng.range(11, 24)                           # spacing of the edges
    H = rng.range(120, 260)                          # y-span
    slant = rng.range(-8, 8) + rng.range(0, 7) / 8.0
    e8 = lambda: rng.range(0, 7) / 8.0
    nodes, edges = [], []
    nm = 3 if layout else rng.choice([1, 1, 1, 2, 2, 3])
    # movers first (ids 0..nm-1): disjoint y-bands inside (20, H - 20)
    band = (H - 40.0) / nm
    from_right = rng.chance(1, 2)
    xl, xr = -10.0, sp * (K - 1) + abs(slant) + 10.0
    movers = []
    for m in range(nm):
        mh = min(band - 4, rng.range(6, 18)) + e8()
        mw = rng.range(6, 16) + e8()
        y0 = 20 + m * band + 1 + rng.below(max(1, int(band - mh - 2))) + e8()
        gap = rng.range(12, 30) + e8()
        x0 = (xr + gap) if from_right else (xl - gap - mw)
        nodes.append((x0, x0 + mw, y0, y0 + mh))
        movers.append(m)
    hub = None
    if variant == 'fan':
        hw = rng.range(6, 20) + e8()
        hx = sp * (K - 1) / 2.0 + rng.range(-20, 20) + e8()
        nodes.append((hx - hw, hx + hw, H - 3 + 0.0625, H + 3 + 0.1875))
        hub = len(nodes) - 1
    for k in range(K):
        xb = sp * k + e8() / 4
        bw, bh = 2 + rng.range(0, 2) / 2.0 + e8() / 8, 2 + rng.range(0, 2) / 2.0
        B = (xb - bw, xb + bw, -bh - 0.03125 * (k % 5), bh + 0.03125 * (k % 7))
        nodes.append(B); b = len(nodes) - 1
        if hub is None:
            xt = xb + slant
            tw, th = 2 + rng.range(0, 2) / 2.0 + e8() / 8, 2 + rng.range(0, 2) / 2.0
            T = (xt - tw, xt + tw, H - th - 0.015625 * (k % 3), H + th + 0.015625 * (k % 11))
            nodes.append(T); t = len(nodes) - 1
        else:
            t = hub
        if variant == 'alternate' and k % 2:
            edges.append([(b, CEN), (t, CEN)])
        else:
            edges.append([(t, CEN), (b, CEN)])
    sc0 = {'nodes': nodes, 'edges': edges}
    if not scene_ok(sc0, strict=True):
        return None
    # how many edges each mover is asked to cross: total events 2 * sum c
    want_cap = rng.chance(2, 3)
    cs = []
    for m in movers:
        if layout:
            c = K
        elif want_cap:
            lo = min(K, 100 // (2 * nm) + 2)
            c = rng.range(lo, K) if lo <= K else K
        else:
            c = rng.range(1, max(1, min(K, 96 // (2 * nm))))
        cs.append(c)
    dim_ops = []
    lst = []
    for m, c in zip(movers, cs):
        r = nodes[m]
        # x of the c-th edge (from the mover's side) at the mover's y band
        kk = (K - c) if from_right else (c - 1)
        def x_edge(k, y):
            p = path_points(nodes, edges[k])
            (ax, ay), (bx, by) = p[0], p[1]
            return ax + (bx - ax) * (y - ay) / (by - ay)
        xs = [x_edge(kk, y) for y in (r[2], r[3])]
        half = (r[1] - r[0]) / 2.0
        beyond = rng.range(2, sp - 3) / 2.0 + e8()
        tgt = (min(xs) - beyond - half) if from_right else (max(xs) + beyond + half)
        lst.append((m, tgt, rng.choice([10000, 10000, 1000])))
    if rng.chance(1, 3):        # end nodes asked (heavily) to stay where they are
        lst += [(i, corner(nodes[i], CEN)[0], 1000) for i in range(nm, len(nodes))]
    kind = 7 if layout else rng.below(7)
    if kind < 5:
        ops = [('MOVE', 0, lst)]
    elif kind == 5:
        ops = [('MOVE', 0, lst), ('MOVE', 0, lst)]
    elif kind == 6:
        ops = [('MOVE', 0, lst), ('MOVE', 1, [(m, corner(nodes[m], CEN)[1] + rng.range(-6, 6), 100) for m in movers])]
    else:
        ops = [('LAYOUT', 1, [(m, t, corner(nodes[m], CEN)[1]) for (m, t, w) in lst[:nm]], [])]
    need = 2 * sum(cs)
    return {'family': 'comb-' + variant, 'tag': tag, 'nodes': nodes, 'edges': edges, 'ops': ops,
            'comb': {'K': K, 'movers': nm, 'crossings_asked': cs, 'events_needed': need, 'variant': variant}}


def gen_scenes(rng, n_pinch, n_lattice, n_resize, n_drag=0, n_comb=0):
    out = []
    for fam, cnt, g in (('pinch', n_pinch, gen_pinch), ('lattice', n_lattice, gen_lattice), ('resize', n_resize, gen_resize), ('drag', n_drag, gen_drag),
                        ('comb', n_comb, gen_comb)):
        k = tries = 0
        while k < cnt and tries < cnt * 5:
            tries += 1
            r = rng.fork()
            sc = g(r, '%s%d' % (fam, k))
            if sc is None or not sc['ops'] or not scene_ok(sc, strict=(sc['family'] != 'lattice-touch')):
                continue
            sc = sym_scene(sc, r.chance(1, 2), r.chance(1, 2), r.chance(1, 2))
            if not scene_ok(sc, strict=(sc['family'] != 'lattice-touch')):
                continue      # (cannot happen: the checker port is symmetric)
            out.append(sc)
            k += 1
    return out


def parse_scripts(text):
    """inverse of script(): corpus file -> scenes (family = text after '#family ' in the tag line's comment, default 'corpus')"""
    out, cur = [], None
    for line in text.split('\n'):
        t = line.split()
        if not t or t[0].startswith('#'):
            continue
        if t[0] == 'SCENE':
            cur = {'family': 'corpus', 'tag': t[1], 'nodes': [], 'edges': [], 'ops': [], 'sym': None}
            if len(t) > 2:
                cur['family'] = t[2]
                cur['tag'] = t[1]
        elif t[0] == 'ENDSCENE':
            out.append(cur); cur = None
        elif t[0] == 'NODE':
            cur['nodes'].append(tuple(float(x) for x in t[1:5]))
        elif t[0] == 'EDGE':
            k = int(t[1]); v = [int(x) for x in t[2:2 + 2 * k]]
            cur['edges'].append([(v[2 * j], v[2 * j + 1]) for j in range(k)])
        elif t[0] == 'MOVE':
            k = int(t[2]); v = t[3:3 + 3 * k]
            cur['ops'].append(('MOVE', int(t[1]), [(int(v[3 * j]), float(v[3 * j + 1]), float(v[3 * j + 2])) for j in range(k)]))
        elif t[0] == 'DRAG':
            steps, q = [], 3
            for _ in range(int(t[2])):
                k = int(t[q]); v = t[q + 1:q + 1 + 3 * k]; q += 1 + 3 * k
                steps.append([(int(v[3 * j]), float(v[3 * j + 1]), float(v[3 * j + 2])) for j in range(k)])
            cur['ops'].append(('DRAG', int(t[1]), steps))
        elif t[0] == 'RESIZE':
            k = int(t[1]); v = t[2:2 + 5 * k]
            cur['ops'].append(('RESIZE', [(int(v[5 * j]),) + tuple(float(x) for x in v[5 * j + 1:5 * j + 5]) for j in range(k)]))
        elif t[0] == 'LAYOUT':
            it, nl = int(t[1]), int(t[2]); v = t[3:3 + 3 * nl]
            locks = [(int(v[3 * j]), float(v[3 * j + 1]), float(v[3 * j + 2])) for j in range(nl)]
            nr = int(t[3 + 3 * nl]); w = t[4 + 3 * nl:4 + 3 * nl + 5 * nr]
            cur['ops'].append(('LAYOUT', it, locks, [(int(w[5 * j]),) + tuple(float(x) for x in w[5 * j + 1:5 * j + 5]) for j in range(nr)]))
    return out
