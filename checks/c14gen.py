"""C14 generators: random connected simple graphs in the families the property names, with random node sizes
and start positions, and the HolaOpts settings the property quantifies over.  Everything derives from one
SplitMix64 stream.  A case is a dict {family, nodes:[[id,cx,cy,w,h]..], edges:[[s,t]..], opts:{..}} and is what
goes into a replay file; `case_text` renders it as the harness input (options line + TGLF)."""

FAMILIES = ['tree', 'cycle', 'core_trees', 'hubs', 'random', 'degenerate_start']


def _tree_edges(rng, ids, maxdeg=None):
    es = []
    deg = {v: 0 for v in ids}
    for k in range(1, len(ids)):
        for _ in range(50):
            u = ids[rng.below(k)]
            if maxdeg is None or deg[u] < maxdeg:
                break
        es.append((u, ids[k]))
        deg[u] += 1
        deg[ids[k]] += 1
    return es


def _add(es, seen, a, b):
    if a == b:
        return False
    k = (min(a, b), max(a, b))
    if k in seen:
        return False
    seen.add(k)
    es.append((a, b))
    return True


def gen_graph(rng, family, maxn):
    """returns (n, edges) with nodes 0..n-1, connected, no self-loops, no multi-edges"""
    es, seen = [], set()
    if family == 'tree' or family == 'degenerate_start':
        n = rng.range(2, maxn)
        shape = rng.below(4)
        ids = list(range(n))
        if shape == 0:      # path
            for i in range(n - 1):
                _add(es, seen, i, i + 1)
        elif shape == 1:    # star / broom
            c = rng.range(1, max(1, n // 3))
            for i in range(c):
                _add(es, seen, i, i + 1)
            for i in range(c + 1, n):
                _add(es, seen, c, i)
        else:               # random recursive tree, optionally degree-bounded
            for a, b in _tree_edges(rng, ids, None if shape == 2 else 3):
                _add(es, seen, a, b)
        if family == 'degenerate_start' and n >= 4 and rng.chance(1, 2):
            _add(es, seen, 0, n - 1)
            _add(es, seen, 1, n - 2)
        return n, es
    if family == 'cycle':
        n = rng.range(3, maxn)
        for i in range(n):
            _add(es, seen, i, (i + 1) % n)
        for _ in range(rng.below(1 + n // 5) if rng.chance(1, 2) else 0):
            _add(es, seen, rng.below(n), rng.below(n))
        return n, es
    if family == 'core_trees':
        n = rng.range(6, maxn)
        c = rng.range(3, max(3, min(n - 1, n // 2 + 1)))
        for i in range(c):
            _add(es, seen, i, (i + 1) % c)
        dens = rng.range(0, 3)
        for _ in range(dens * c // 3):
            _add(es, seen, rng.below(c), rng.below(c))
        for v in range(c, n):       # hanging trees
            u = rng.below(v) if rng.chance(2, 3) else rng.below(c)
            _add(es, seen, u, v)
        return n, es
    if family == 'hubs':
        n = rng.range(6, maxn)
        h = rng.range(1, max(1, min(4, n // 5)))
        for i in range(1, h):
            _add(es, seen, rng.below(i), i)
        if h >= 3 and rng.chance(1, 2):
            _add(es, seen, 0, h - 1)
        for v in range(h, n):
            r = rng.below(10)
            if r < 6:       # leaf on a hub
                _add(es, seen, rng.below(h), v)
            elif r < 8:     # link between two hubs (degree-2 node)
                a = rng.below(h)
                _add(es, seen, a, v)
                if h > 1:
                    _add(es, seen, (a + 1 + rng.below(h - 1)) % h, v)
            else:           # hang on anything earlier
                _add(es, seen, rng.below(v), v)
        return n, es
    # random connected
    n = rng.range(3, maxn)
    for a, b in _tree_edges(rng, list(range(n))):
        _add(es, seen, a, b)
    extra = 0 if rng.chance(1, 3) else rng.below(n // 2 + 1)
    for _ in range(extra):
        _add(es, seen, rng.below(n), rng.below(n))
    return n, es


def gen_opts(rng):
    o = {}
    o['useACAforLinks'] = rng.below(2)
    o['do_near_align'] = rng.below(2)
    o['preferredAspectRatio'] = rng.below(3)
    if rng.chance(1, 2):
        o['preferConvexTrees'] = rng.below(2)
    if rng.chance(1, 2):
        o['putUlcAtOrigin'] = rng.below(2)
    if rng.chance(1, 2):
        o['defaultTreeGrowthDir'] = rng.below(4)
    if rng.chance(1, 3):
        o['preferredTreeGrowthDir'] = rng.below(4)
    return o


def gen_case(rng, family, maxn):
    n, es = gen_graph(rng, family, maxn)
    ids = rng.shuffle(list(range(n))) if rng.chance(1, 2) else list(range(n))
    sizemode = rng.below(3)
    span = 60 * max(2, int(n ** 0.5) + 1)
    nodes = []
    used = set()
    for v in range(n):
        if sizemode == 0:
            w, h = 30, 30
        elif sizemode == 1:
            w, h = 20 + 10 * rng.below(4), 20 + 10 * rng.below(3)
        else:
            w, h = rng.range(40, 320) / 4.0, rng.range(40, 240) / 4.0
        if family == 'degenerate_start':
            m = rng.below(3)
            if m == 0:
                x, y = 100.0, 100.0                      # all coincident
            elif m == 1:
                x, y = float(rng.below(span)), 100.0     # collinear
            else:
                x, y = float(50 * rng.below(4)), float(50 * rng.below(4))    # coarse grid, many ties
        else:
            while True:
                x, y = rng.below(4 * span) / 4.0, rng.below(4 * span) / 4.0
                if (x, y) not in used:
                    used.add((x, y))
                    break
        nodes.append([ids[v], x, y, w, h])
    edges = [[ids[a], ids[b]] for a, b in es]
    return {'family': family, 'nodes': nodes, 'edges': edges, 'opts': gen_opts(rng)}


def fmt(x):
    return repr(float(x)) if float(x) != int(x) else str(int(x))


def case_text(case):
    lines = ['O ' + ' '.join('%s=%s' % (k, fmt(v)) for k, v in sorted(case['opts'].items()))]
    if 'tglf' in case:
        return lines[0] + '\n' + case['tglf']
    for nd in case['nodes']:
        lines.append('%d %s %s %s %s' % (nd[0], fmt(nd[1]), fmt(nd[2]), fmt(nd[3]), fmt(nd[4])))
    lines.append('#')
    for s, t in case['edges']:
        lines.append('%d %d' % (s, t))
    return '\n'.join(lines) + '\n'


# ------------------------------------------------------------------------------------------------ whole-graph trees
# doHOLA's whole-tree branch (hola.cpp:96-122): Tree::symmetricLayout(defaultTreeGrowthDir, nodeSep*IEL, rankSep*IEL, preferConvexTrees)
# + routing with wholeTreeRouting, and NO later overlap removal.  The options it reads: defaultTreeGrowthDir, treeLayoutScalar_nodeSep,
# treeLayoutScalar_rankSep, preferConvexTrees, wholeTreeRouting, routingAbs_nudgingDistance, nodePaddingScalar.  The family exercises it with
# every growth direction in turn, pure-tree shapes and NON-SQUARE node dimension distributions (aspect ratio up to 12): whatever the layout
# computes from a width where it needs a height (or the reverse) is invisible with near-square nodes.
TREE_SHAPES = ['caterpillar', 'star', 'binary', 'path', 'broom', 'spider', 'recursive', 'double_star']
SIZE_MODES = ['uniform_tall', 'uniform_wide', 'tall', 'wide', 'mixed', 'square', 'one_big']


def gen_pure_tree(rng, shape, maxn):
    es, seen = [], set()
    if shape == 'caterpillar':
        sp = rng.range(2, 5)
        n = sp
        for i in range(sp - 1):
            _add(es, seen, i, i + 1)
        for i in range(sp):
            for _ in range(rng.range(0 if sp > 2 else 1, 4)):
                if n < maxn:
                    _add(es, seen, i, n)
                    n += 1
        return n, es
    if shape == 'star':
        n = rng.range(3, min(maxn, 13))
        for i in range(1, n):
            _add(es, seen, 0, i)
        return n, es
    if shape == 'binary':
        n = rng.range(3, min(maxn, 31))
        full = rng.chance(1, 2)
        for v in range(1, n):
            _add(es, seen, (v - 1) // 2 if full else rng.range(max(0, (v - 1) // 2 - 1), (v - 1) // 2), v)
        return n, es
    if shape == 'path':
        n = rng.range(2, min(maxn, 9))
        for i in range(n - 1):
            _add(es, seen, i, i + 1)
        return n, es
    if shape == 'broom':
        h = rng.range(1, 4)
        n = h + 1 + rng.range(2, 6)
        for i in range(h):
            _add(es, seen, i, i + 1)
        for i in range(h + 1, n):
            _add(es, seen, h, i)
        return n, es
    if shape == 'spider':
        legs, n = rng.range(3, 5), 1
        for _ in range(legs):
            prev = 0
            for _k in range(rng.range(1, 3)):
                _add(es, seen, prev, n)
                prev = n
                n += 1
        return n, es
    if shape == 'double_star':
        a, b = rng.range(1, 5), rng.range(1, 5)
        _add(es, seen, 0, 1)
        n = 2
        for _ in range(a):
            _add(es, seen, 0, n); n += 1
        for _ in range(b):
            _add(es, seen, 1, n); n += 1
        return n, es
    n = rng.range(4, maxn)
    for x, y in _tree_edges(rng, list(range(n)), None if rng.chance(1, 2) else 3):
        _add(es, seen, x, y)
    return n, es


def gen_dims(rng, mode, n):
    """node dimensions, aspect ratio up to 12; quarter units so that every value is a small dyadic"""
    def tall():
        w = rng.range(40, 120) / 4.0
        return w, w * rng.range(8, 48) / 4.0            # aspect 2 .. 12
    if mode in ('uniform_tall', 'uniform_wide'):
        w = 5.0 * rng.range(2, 6)
        h = w * rng.range(4, 12)
        d = (w, h) if mode == 'uniform_tall' else (h, w)
        return [d] * n
    out = []
    big = rng.below(n)
    for v in range(n):
        if mode == 'tall':
            d = tall()
        elif mode == 'wide':
            d = tall()[::-1]
        elif mode == 'mixed':
            k = rng.below(3)
            d = tall() if k == 0 else tall()[::-1] if k == 1 else (10.0 * rng.range(2, 6),) * 2
        elif mode == 'one_big':
            d = (30.0, 30.0) if v != big else (tall() if rng.chance(1, 2) else tall()[::-1])
        else:
            s = 10.0 * rng.range(2, 8)
            d = (s, s)
        out.append(d)
    return out


def gen_tree_opts(rng, k):
    o = {'defaultTreeGrowthDir': k & 3}               # harness numbering: 0 EAST 1 SOUTH 2 WEST 3 NORTH; every direction in turn
    if rng.chance(1, 2):
        o['wholeTreeRouting'] = rng.below(3)          # STRICT / CORE_ATTACHMENT / MONOTONIC (default)
    if rng.chance(1, 2):
        o['preferConvexTrees'] = rng.below(2)
    if rng.chance(1, 4):
        o['treeLayoutScalar_nodeSep'] = rng.choice([0.125, 0.5, 1.0])
    if rng.chance(1, 4):
        o['treeLayoutScalar_rankSep'] = rng.choice([1.5, 2.0, 3.0])
    if rng.chance(1, 4):
        o['nodePaddingScalar'] = rng.choice([0.125, 0.5])
    if rng.chance(1, 4):
        o['routingAbs_nudgingDistance'] = rng.choice([1.0, 2.0, 8.0])
    if rng.chance(1, 4):
        o['putUlcAtOrigin'] = rng.below(2)
    return o


def gen_tree_case(rng, k, maxn):
    """k-th case of the whole-tree family: growth direction k mod 4, shape and size mode vary with k so that every
    (direction, size mode) pair and every (direction, shape) pair turns up within 56 cases"""
    shape = TREE_SHAPES[(k // 4) % len(TREE_SHAPES)] if rng.chance(3, 4) else rng.choice(TREE_SHAPES)
    mode = SIZE_MODES[(k // 4 + k // 32) % len(SIZE_MODES)] if rng.chance(3, 4) else rng.choice(SIZE_MODES)
    n, es = gen_pure_tree(rng, shape, maxn)
    ids = rng.shuffle(list(range(n))) if rng.chance(1, 2) else list(range(n))
    dims = gen_dims(rng, mode, n)
    span = 80 * max(2, int(n ** 0.5) + 1)
    used, nodes = set(), []
    for v in range(n):
        while True:
            x, y = rng.below(4 * span) / 4.0, rng.below(4 * span) / 4.0
            if (x, y) not in used:
                used.add((x, y))
                break
        nodes.append([ids[v], x, y, dims[v][0], dims[v][1]])
    return {'family': 'whole_tree', 'shape': shape, 'size_mode': mode, 'nodes': nodes, 'edges': [[ids[a], ids[b]] for a, b in es],
            'opts': gen_tree_opts(rng, k)}


# ------------------------------------------------------------------------------------------------ graphs with a core, the remaining documented options
# HolaOpts fields (libdialect/opts.h) that only matter when there is a core, and that gen_opts never sets: peeledTreeRouting,
# orthoHubAvoidFlatTriangles, treePlacement_favourCardinal / External / Isolation, expansion_doCostlierDimensionFirst, expansion_estimateMethod,
# align_reps, nearAlignScalar_kinkWidth / _scope, routingScalar_crossingPenalty / _segmentPenalty, routingAbs_nudgingDistance, nodePaddingScalar.
def gen_core_opts(rng):
    o = gen_opts(rng)
    pick = lambda num, den: rng.chance(num, den)
    if pick(1, 2):
        o['peeledTreeRouting'] = rng.below(3)
    if pick(1, 3):
        o['orthoHubAvoidFlatTriangles'] = rng.below(2)
    for k in ('treePlacement_favourCardinal', 'treePlacement_favourExternal', 'treePlacement_favourIsolation', 'expansion_doCostlierDimensionFirst',
              'expansion_estimateMethod'):
        if pick(1, 3):
            o[k] = rng.below(2)
    if pick(1, 4):
        o['align_reps'] = rng.range(0, 3)
    if pick(1, 4):
        o['nearAlignScalar_kinkWidth'] = rng.choice([0.125, 0.5])
    if pick(1, 4):
        o['nearAlignScalar_scope'] = rng.choice([0.5, 2.0])
    if pick(1, 4):
        o['routingScalar_crossingPenalty'] = rng.choice([1.0, 4.0])
    if pick(1, 4):
        o['routingScalar_segmentPenalty'] = rng.choice([0.25, 1.0])
    if pick(1, 4):
        o['routingAbs_nudgingDistance'] = rng.choice([2.0, 8.0])
    if pick(1, 4):
        o['nodePaddingScalar'] = rng.choice([0.125, 0.5])
    return o


def gen_core_opts_case(rng, k, maxn):
    c = gen_case(rng, ['core_trees', 'hubs', 'cycle'][k % 3], maxn)
    c['family'] = 'core_opts'
    c['opts'] = gen_core_opts(rng)
    return c
