"""C14 generators: random connected simple graphs in the families the property names, with random node sizes
and start positions, and the HolaOpts settings the property quantifies over.  Everything derives from one
SplitMix64 stream.  A case is a dict {family, nodes:[[id,cx,cy,w,h]..], edges:[[s,t]..], opts:{..}} and is what
goes into a replay file; `case_text` renders it as the harness input (options line + TGLF)."""

FAMILIES = ['tree', 'cycle', 'core_trees', 'hubs', 'random', 'degenerate_start']


def _tree_edges(rng, ids, maxdeg=None):
    es = []
    deg = {v: 0 for v in ids}
    for k in range(1, len(ids)):
        for _ in range(50):
            u = ids[rng.below(k)]
            if maxdeg is None or deg[u] < maxdeg:
                break
        es.append((u, ids[k]))
        deg[u] += 1
        deg[ids[k]] += 1
    return es


def _add(es, seen, a, b):
    if a == b:
        return False
    k = (min(a, b), max(a, b))
    if k in seen:
        return False
    seen.add(k)
    es.append((a, b))
    return True


def gen_graph(rng, family, maxn):
    """returns (n, edges) with nodes 0..n-1, connected, no self-loops, no multi-edges"""
    es, seen = [], set()
    if family == 'tree' or family == 'degenerate_start':
        n = rng.range(2, maxn)
        shape = rng.below(4)
        ids = list(range(n))
        if shape == 0:      # path
            for i in range(n - 1):
                _add(es, seen, i, i + 1)
        elif shape == 1:    # star / broom
            c = rng.range(1, max(1, n // 3))
            for i in range(c):
                _add(es, seen, i, i + 1)
            for i in range(c + 1, n):
                _add(es, seen, c, i)
        else:               # random recursive tree, optionally degree-bounded
            for a, b in _tree_edges(rng, ids, None if shape == 2 else 3):
                _add(es, seen, a, b)
        if family == 'degenerate_start' and n >= 4 and rng.chance(1, 2):
            _add(es, seen, 0, n - 1)
            _add(es, seen, 1, n - 2)
        return n, es
    if family == 'cycle':
        n = rng.range(3, maxn)
        for i in range(n):
            _add(es, seen, i, (i + 1) % n)
        for _ in range(rng.below(1 + n // 5) if rng.chance(1, 2) else 0):
            _add(es, seen, rng.below(n), rng.below(n))
        return n, es
    if family == 'core_trees':
        n = rng.range(6, maxn)
        c = rng.range(3, max(3, min(n - 1, n // 2 + 1)))
        for i in range(c):
            _add(es, seen, i, (i + 1) % c)
        dens = rng.range(0, 3)
        for _ in range(dens * c // 3):
            _add(es, seen, rng.below(c), rng.below(c))
        for v in range(c, n):       # hanging trees
            u = rng.below(v) if rng.chance(2, 3) else rng.below(c)
            _add(es, seen, u, v)
        return n, es
    if family == 'hubs':
        n = rng.range(6, maxn)
        h = rng.range(1, max(1, min(4, n // 5)))
        for i in range(1, h):
            _add(es, seen, rng.below(i), i)
        if h >= 3 and rng.chance(1, 2):
            _add(es, seen, 0, h - 1)
        for v in range(h, n):
            r = rng.below(10)
            if r < 6:       # leaf on a hub
                _add(es, seen, rng.below(h), v)
            elif r < 8:     # link between two hubs (degree-2 node)
                a = rng.below(h)
                _add(es, seen, a, v)
                if h > 1:
                    _add(es, seen, (a + 1 + rng.below(h - 1)) % h, v)
            else:           # hang on anything earlier
                _add(es, seen, rng.below(v), v)
        return n, es
    # random connected
    n = rng.range(3, maxn)
    for a, b in _tree_edges(rng, list(range(n))):
        _add(es, seen, a, b)
    extra = 0 if rng.chance(1, 3) else rng.below(n // 2 + 1)
    for _ in range(extra):
        _add(es, seen, rng.below(n), rng.below(n))
    return n, es


def gen_opts(rng):
    o = {}
    o['useACAforLinks'] = rng.below(2)
    o['do_near_align'] = rng.below(2)
    o['preferredAspectRatio'] = rng.below(3)
    if rng.chance(1, 2):
        o['preferConvexTrees'] = rng.below(2)
    if rng.chance(1, 2):
        o['putUlcAtOrigin'] = rng.below(2)
    if rng.chance(1, 2):
        o['defaultTreeGrowthDir'] = rng.below(4)
    if rng.chance(1, 3):
        o['preferredTreeGrowthDir'] = rng.below(4)
    return o


def gen_case(rng, family, maxn):
    n, es = gen_graph(rng, family, maxn)
    ids = rng.shuffle(list(range(n))) if rng.chance(1, 2) else list(range(n))
    sizemode = rng.below(3)
    span = 60 * max(2, int(n ** 0.5) + 1)
    nodes = []
    used = set()
    for v in range(n):
        if sizemode == 0:
            w, h = 30, 30
        elif sizemode == 1:
            w, h = 20 + 10 * rng.below(4), 20 + 10 * rng.below(3)
        else:
            w, h = rng.range(40, 320) / 4.0, rng.range(40, 240) / 4.0
        if family == 'degenerate_start':
            m = rng.below(3)
            if m == 0:
                x, y = 100.0, 100.0                      # all coincident
            elif m == 1:
                x, y = float(rng.below(span)), 100.0     # collinear
            else:
                x, y = float(50 * rng.below(4)), float(50 * rng.below(4))    # coarse grid, many ties
        else:
            while True:
                x, y = rng.below(4 * span) / 4.0, rng.below(4 * span) / 4.0
                if (x, y) not in used:
                    used.add((x, y))
                    break
        nodes.append([ids[v], x, y, w, h])
    edges = [[ids[a], ids[b]] for a, b in es]
    return {'family': family, 'nodes': nodes, 'edges': edges, 'opts': gen_opts(rng)}


def fmt(x):
    return repr(float(x)) if float(x) != int(x) else str(int(x))


def case_text(case):
    lines = ['O ' + ' '.join('%s=%s' % (k, fmt(v)) for k, v in sorted(case['opts'].items()))]
    if 'tglf' in case:
        return lines[0] + '\n' + case['tglf']
    for nd in case['nodes']:
        lines.append('%d %s %s %s %s' % (nd[0], fmt(nd[1]), fmt(nd[2]), fmt(nd[3]), fmt(nd[4])))
    lines.append('#')
    for s, t in case['edges']:
        lines.append('%d %d' % (s, t))
    return '\n'.join(lines) + '\n'
