"""C18 - libdialect: constraint transforms commute with geometry; TGLF round-trips (DESIGN 5.18).
proof: Dialect/SepPair.v over the hand model Dialect/SepPairModel.v (signed-zero gaps from Num/SignedZero.v);
tie (C): exhaustive correspondence of the model with the real dialect::SepPair / SepMatrix on every run
 - all 576 SepPair states (2x2 gap types x 3x3 sep types x 4x4 gaps {-2,-0.0,+0.0,2}) x 7 transforms, x 49 transform
   pairs, x 192 addSep requests, cardinal queries: compared field by field incl. the sign bit;
 - SepMatrix op sequences (same pair, both id orders, with / without intervening queries): stored pairs + query results;
 - generateSeparationConstraints on boundary-directed placements, before and after the real transform;
property oracles run on the REAL outputs (these decide VIOLATION with a failing input):
 - transform_commutes: the real generated constraints of the really transformed pair hold for the transformed placement
   iff the verified `holdsb` of the original pair holds for the original placement;
 - transform_group: the real transforms compose like the 2x2 signed permutation matrices (D4);
 - flip_equiv: an op sequence and its id-order-normalised twin leave the same stored pairs in the real SepMatrix;
 - TGLF: Graph::writeTglf -> buildGraphFromTglf, node/edge/route dumps equal, pairs equivalent by the verified
   checker sep_equivb, write throws iff some pair is `coincide`."""
import os, json, tempfile
from vlib import common as C

PID = 'C18'
LIBS = ['libdialect', 'libcola', 'libtopology', 'libavoid', 'libvpsc']
GT = ['CENTRE', 'BDRY']
ST = ['NONE', 'EQ', 'INEQ']
SD = ['EAST', 'SOUTH', 'WEST', 'NORTH', 'RIGHT', 'DOWN', 'LEFT', 'UP']
NEG_SD = [2, 3, 0, 1, 6, 7, 4, 5]
TF = ['ROTATE90CW', 'ROTATE90ACW', 'ROTATE180', 'FLIPV', 'FLIPH', 'FLIPMD', 'FLIPOD']
GAPS = ['-8', '-0', '+0', '+8']        # -2, -0.0, +0.0, 2 (scaled by 4)
D4_MAT = [(1, 0, 0, 1), (0, -1, 1, 0), (0, 1, -1, 0), (-1, 0, 0, -1), (-1, 0, 0, 1), (1, 0, 0, -1), (0, 1, 1, 0), (0, -1, -1, 0)]


def gap_txt(g):
    return ('-' if g[0] == '-' else '') + str(int(g[1:]) / 4.0)


def neg_gap(g):
    return ('+' if g[0] == '-' else '-') + g[1:]


def states():
    for a in range(2):
        for b in range(2):
            for c in range(3):
                for d in range(3):
                    for i in range(4):
                        for j in range(4):
                            yield (a, b, c, d, GAPS[i], GAPS[j])


def state_txt(s):
    return {'xgt': GT[int(s[0])], 'ygt': GT[int(s[1])], 'xst': ST[int(s[2])], 'yst': ST[int(s[3])],
            'xgap': gap_txt(s[4]), 'ygap': gap_txt(s[5])}


def sections(txt):
    secs, cur = {}, None
    for line in txt.split('\n'):
        if line.startswith('## '):
            cur = []
            secs[line[3:].strip()] = cur
        elif cur is not None and line:
            cur.append(line)
    return secs


def d4_mul(a, b):
    A, B = D4_MAT[a], D4_MAT[b]
    m = (A[0] * B[0] + A[1] * B[2], A[0] * B[1] + A[1] * B[3], A[2] * B[0] + A[3] * B[2], A[2] * B[1] + A[3] * B[3])
    return D4_MAT.index(m)


# ----------------------------------------------------------------------------------------- generators
def gen_ops(rng, tier):
    """list of sequences; a sequence = list of op lines (without the leading N); every sequence ends with D C01 C10"""
    seqs = []
    g1 = ['-0', '+8'] if tier == 'quick' else GAPS
    g2 = ['-0', '+8'] if tier == 'quick' else GAPS
    mids = [[], ['C 0 1'], ['C 1 0'], ['H 1 0']]
    for o1 in ((0, 1), (1, 0)):
        for gt1 in range(2):
            for sd1 in range(8):
                for st1 in (1, 2):
                    for ga in g1:
                        first = 'A %d %d %d %d %d %s' % (o1[0], o1[1], gt1, sd1, st1, ga)
                        for mid in mids:
                            for o2 in ((0, 1), (1, 0)):
                                for gt2 in range(2):
                                    for sd2 in range(8):
                                        for st2 in (1, 2):
                                            for gb in g2:
                                                if tier == 'quick' and (gt1 + sd1 + st1 + gt2 + sd2 + st2 + len(mid)) % 2:
                                                    continue
                                                seqs.append([first] + mid + ['A %d %d %d %d %d %s' % (o2[0], o2[1], gt2, sd2, st2, gb),
                                                                             'D', 'C 0 1', 'C 1 0'])
    n_exh = len(seqs)
    # random longer sequences over 3 nodes
    allg = ['-12', '-8', '-2', '-0', '+0', '+2', '+8', '+12']
    nrand = 3000 if tier == 'quick' else 20000
    for _ in range(nrand):
        s = []
        for _ in range(rng.range(2, 8)):
            k = rng.below(10)
            i = rng.below(3)
            j = rng.below(3) if rng.chance(1, 12) else (i + 1 + rng.below(2)) % 3
            if k < 5:
                s.append('A %d %d %d %d %d %s' % (i, j, rng.below(2), rng.below(8), rng.below(3), rng.choice(allg)))
            elif k < 6:
                s.append('F %d %d %s %s' % (i, j, rng.choice(allg), rng.choice(allg)))
            elif k < 7:
                s.append('C %d %d' % (i, j))
            elif k < 8:
                s.append('%s %d %d' % (rng.choice(['H', 'V']), i, j))
            elif k < 9:
                s.append('T %d' % rng.below(7))
            else:
                s.append('C %d %d' % (j, i))
            s.append('D')
        seqs.append(s)
    return seqs, n_exh


def normalise_seq(seq):
    """the flip_equiv twin: every request stated from the smaller id"""
    out = []
    for op in seq:
        f = op.split()
        if f[0] == 'A' and int(f[1]) > int(f[2]):
            out.append('A %s %s %s %d %s %s' % (f[2], f[1], f[3], NEG_SD[int(f[4])], f[5], f[6]))
        elif f[0] == 'F' and int(f[1]) > int(f[2]):
            out.append('F %s %s %s %s' % (f[2], f[1], neg_gap(f[3]), neg_gap(f[4])))
        else:
            out.append(op)
    return out


def n_out(op):
    f = op.split()
    if f[0] in ('C', 'H', 'V', 'D'):
        return 1
    if f[0] in ('A', 'F') and f[1] == f[2]:
        return 1
    return 0


def write_ops(path, seqs):
    with open(path, 'w') as fh:
        for s in seqs:
            fh.write('N\n' + '\n'.join(s) + '\n')


def split_outputs(lines, seqs):
    out, k = [], 0
    for s in seqs:
        n = sum(n_out(op) for op in s)
        out.append(lines[k:k + n])
        k += n
    return out, k


def gen_cases(rng, tier):
    """(state, extra, placement, tf) lines for mode gen: every state x identity+7 transforms x K boundary-directed placements,
    plus random states with a wider gap alphabet"""
    K = 2 if tier == 'quick' else 6
    wide = ['-12', '-8', '-2', '-0', '+0', '+2', '+8', '+12', '-5', '+5']
    cases = []

    def placement(s, extra, mode):
        # sizes: multiples of 0.5 (scaled by 4: even numbers)
        sw, sh, tw, th = [2 * rng.range(1, 6) for _ in range(4)]
        sx, sy = 4 * rng.range(-5, 5), 4 * rng.range(-5, 5)
        pos = []
        for (gt, st, g, ws, wt) in ((s[0], s[2], s[4], sw, tw), (s[1], s[3], s[5], sh, th)):
            neg, mag = g[0] == '-', int(g[1:])
            need = mag + ((ws + wt) // 2 + extra if gt == 1 else 0)
            if st == 0 or mode == 'random':
                d = 2 * rng.range(-12, 12)
            else:
                slack = 0 if (st == 1 or rng.chance(1, 2)) else 2 * rng.range(1, 3)
                d = need + slack
                if mode == 'off':
                    d += rng.choice([-2, -1, 1, 2]) if st == 1 else -rng.range(1, 2)
                if neg:
                    d = -d
            pos.append(d)
        if mode == 'off' and rng.chance(1, 2):
            k = rng.below(2)        # spoil only one dimension
            pos[k] = pos[k]
        return [sx, sy, sx + pos[0], sy + pos[1], sw, sh, tw, th]

    def add(s, rngmode):
        extra = rng.choice([0, 0, 1, 4])
        for tf in range(8):
            for k in range(K):
                mode = ('tight', 'off', 'random')[k % 3] if rngmode is None else rngmode
                cases.append((s, extra, placement(s, extra, mode), tf))

    for s in states():
        add(s, None)
    for _ in range(150 if tier == 'quick' else 1500):
        s = (rng.below(2), rng.below(2), rng.below(3), rng.below(3), rng.choice(wide), rng.choice(wide))
        add(s, None)
    return cases


def case_line(c):
    s, extra, p, tf = c
    return '%d %d %d %d %s %s %d %s %d' % (s[0], s[1], s[2], s[3], s[4], s[5], extra, ' '.join(str(v) for v in p), tf)


def case_txt(c):
    s, extra, p, tf = c
    return {'pair': state_txt(s), 'extraBdryGap': extra / 4.0, 'transform': 'identity' if tf == 0 else TF[tf - 1],
            'placement': {'src_centre': [p[0] / 4.0, p[1] / 4.0], 'tgt_centre': [p[2] / 4.0, p[3] / 4.0],
                          'src_size': [p[4] / 4.0, p[5] / 4.0], 'tgt_size': [p[6] / 4.0, p[7] / 4.0]}}


def gen_tglf(rng, tier):
    graphs = []
    allg = ['-12', '-8', '-3', '-1', '-0', '+0', '+1', '+3', '+8', '+12', '+5']
    for _ in range(400 if tier == 'quick' else 3000):
        n = rng.range(2, 7)
        exts = rng.shuffle(list(range(20)))[:n]
        lines = ['G']
        for e in exts:
            lines.append('n %d %d %d %d %d' % (e, rng.range(-200, 200), rng.range(-200, 200), 2 * rng.range(1, 20), 2 * rng.range(1, 20)))
        used = set()
        for _ in range(rng.range(0, 2 * n)):
            a, b = rng.choice(exts), rng.choice(exts)
            if a == b or (a, b) in used or (b, a) in used:
                continue
            used.add((a, b))
            pts = ' '.join('%d %d' % (rng.range(-200, 200), rng.range(-200, 200)) for _ in range(rng.range(0, 3)))
            lines.append(('e %d %d %s' % (a, b, pts)).strip())
        lines.append('x %d' % rng.choice([0, 0, 1, 4, 6]))
        for _ in range(rng.range(0, 2 * n)):
            a, b = rng.choice(exts), rng.choice(exts)
            if a == b:
                continue
            # cardinal EQ CENTRE with zero gap would make the pair `coincide` (writer rejects): keep it rare
            lines.append('c %d %d %d %d %d %s' % (a, b, rng.below(2), rng.below(8), rng.range(1, 2), rng.choice(allg)))
        graphs.append(lines)
    return graphs


# ----------------------------------------------------------------------------------------- the check
def run(tier):
    res = C.Result(PID, tier, 'proof')
    info = C.prove(res, PID)
    res.assumptions = [
        'the hand model SepPairModel.v describes SepPair/SepMatrix (checked exhaustively on every run, see coverage)',
        'number formatting "%.3f" / operator>> round-trip on the written values (Section hypotheses parse_fmt, parse_zero of tglf_sep_roundtrip)',
        'binary64 arithmetic is exact on the inputs used (multiples of 0.25 of small magnitude)']
    rng = C.SplitMix64(C.get_seed())
    exe = C.build_harness('c18_sep', LIBS, 'c18plain')
    drv = C.ocaml_build('c18', 'C18.v', 'c18_driver.ml', 'c18_model.ml')
    tmp = tempfile.mkdtemp(prefix='c18-')
    evals, corr_diffs, prop_viol = 0, [], 0
    cov = {}

    def fail_harness(what, rc, err):
        res.violation({'what': what, 'rc': rc, 'stderr': err[-2000:]}, no_input=True)
        return res.finish()

    # ---- 1. exhaustive enumeration
    rc, cpp_out, err, dt = C.sh([exe, 'enum'], timeout=600)
    if rc != 0:
        return fail_harness('harness c18_sep enum failed', rc, err)
    rc, mod_out, err, dt = C.sh([drv, 'enum'], timeout=600)
    cpp, mod = sections(cpp_out), sections(mod_out)
    S = list(states())
    reqs = [(g, d, t, k) for g in range(2) for d in range(8) for t in range(3) for k in range(4)]
    for sec in ('transform1', 'transform2', 'addsep', 'cardinal'):
        a, b = cpp.get(sec, []), mod.get(sec, [])
        evals += len(a)
        per = {'transform1': 7, 'transform2': 49, 'addsep': 192, 'cardinal': 1}[sec]
        if len(a) != len(S) * per:
            corr_diffs.append({'section': sec, 'what': 'harness printed %d lines, expected %d' % (len(a), len(S) * per)})
            continue
        for i, (x, y) in enumerate(zip(a, b)):
            if x != y:
                s, r = S[i // per], i % per
                d = {'section': sec, 'pair': state_txt(s), 'implementation': x, 'model': y}
                if sec == 'transform1':
                    d['transform'] = TF[r]
                elif sec == 'transform2':
                    d['transforms'] = [TF[r // 7], TF[r % 7]]
                elif sec == 'addsep':
                    g, dd, t, k = reqs[r]
                    d['request'] = {'gt': GT[g], 'dir': SD[dd], 'type': ST[t], 'gap': gap_txt(GAPS[k])}
                corr_diffs.append(d)
                break
    # group law on the real outputs (declarative oracle): table of real images, composition = D4 matrix product
    group_bad = None
    if len(cpp.get('transform1', [])) == len(S) * 7 and len(cpp.get('transform2', [])) == len(S) * 49:
        key = lambda s: '%d %d %d %d %s %s' % s
        idx = {key(s): i for i, s in enumerate(S)}
        t1 = cpp['transform1']

        def img(i, a):      # image of state i under D4 element a, by the real code
            return key(S[i]) if a == 0 else t1[i * 7 + a - 1]
        for i in range(len(S)):
            for a in range(7):
                for b in range(7):
                    evals += 1
                    got = cpp['transform2'][i * 49 + a * 7 + b]       # first TF[a], then TF[b]
                    c = d4_mul(b + 1, a + 1)
                    exp = img(i, c)
                    if got != exp and group_bad is None:
                        group_bad = {'what': 'the real transforms do not compose like the symmetry group of the square',
                                     'pair': state_txt(S[i]), 'first': TF[a], 'then': TF[b],
                                     'expected_same_as': 'identity' if c == 0 else TF[c - 1], 'expected': exp, 'got': got,
                                     'replay': 'SepPair sp; set fields; sp.transform(first); sp.transform(then); compare all six fields incl. signbit'}
        rcd, d4_out, _, _ = C.sh([drv, 'd4'], timeout=300)
        for line in d4_out.split('\n'):
            f = line.split()
            if len(f) == 3 and d4_mul(int(f[0]), int(f[1])) != int(f[2]):
                corr_diffs.append({'section': 'd4 table of the model', 'line': line})
    if group_bad:
        res.violation(group_bad)
        prop_viol += 1
    cov['enum'] = {'states': len(S), 'sections': {k: len(v) for k, v in cpp.items()}}

    # ---- 2. generated constraints and transform_commutes on the real code
    cases = gen_cases(rng.fork(), tier)
    gf = os.path.join(tmp, 'gen.txt')
    with open(gf, 'w') as fh:
        fh.write('\n'.join(case_line(c) for c in cases) + '\n')
    rc, cpp_out, err, dt = C.sh([exe, 'gen', gf], timeout=900)
    if rc != 0:
        return fail_harness('harness c18_sep gen failed', rc, err)
    rc2, mod_out, err2, dt = C.sh([drv, 'gen', gf], timeout=900)
    a, b = [l for l in cpp_out.split('\n') if l], [l for l in mod_out.split('\n') if l]
    hist = {'sat': 0, 'unsat': 0, 'tight_or_eq': 0}
    samples = []
    if len(a) != len(cases) or len(b) != len(cases):
        corr_diffs.append({'section': 'gen', 'what': 'line counts differ', 'harness': len(a), 'model': len(b), 'cases': len(cases),
                           'stderr': (err + err2)[-500:]})
    else:
        commute_bad = None
        for i, (x, y) in enumerate(zip(a, b)):
            evals += 1
            ym = y.rsplit(' | ', 1)
            h0, h1 = ym[1].split()
            # real satisfaction of the real constraints
            parts = x.split(' | ')[0]
            sat = all(seg.strip().endswith('none') or seg.strip().split()[-1] == '1' for seg in parts.replace('Y:', '|Y:').split('|') if seg.strip())
            hist['sat' if sat else 'unsat'] += 1
            if x != ym[0] and len(corr_diffs) < 5:
                d = case_txt(cases[i]); d.update({'section': 'gen', 'implementation': x, 'model': ym[0]})
                corr_diffs.append(d)
            if (sat != (h0 == '1')) and commute_bad is None:
                commute_bad = case_txt(cases[i])
                commute_bad.update({'what': 'transform_commutes fails on the real code: the original placement %s the original pair, but the '
                                            'transformed placement %s the constraints generated from the really transformed pair'
                                            % ('satisfies' if h0 == '1' else 'violates', 'satisfies' if sat else 'violates'),
                                    'real_constraints_after_transform': x,
                                    'replay': 'harness/c18_sep.cpp gen <file with the line below>', 'gen_line': case_line(cases[i])})
            if i % 997 == 0 and len(samples) < 6:
                d = case_txt(cases[i]); d['real'] = x; samples.append(d)
        if commute_bad:
            res.violation(commute_bad)
            prop_viol += 1
    cov['gen'] = {'cases': len(cases), 'histogram': hist}

    # ---- 3. SepMatrix op sequences: correspondence + flip_equiv on the real matrix
    seqs, n_exh = gen_ops(rng.fork(), tier)
    of, nf = os.path.join(tmp, 'ops.txt'), os.path.join(tmp, 'ops_norm.txt')
    write_ops(of, seqs)
    nseqs = [normalise_seq(s) for s in seqs]
    write_ops(nf, nseqs)
    rc, o_cpp, err, dt = C.sh([exe, 'ops', of], timeout=900)
    if rc != 0:
        return fail_harness('harness c18_sep ops failed', rc, err)
    rc, o_norm, err, dt = C.sh([exe, 'ops', nf], timeout=900)
    rc, o_mod, err, dt = C.sh([drv, 'ops', of, '1'], timeout=900)
    rc, o_old, err, dt = C.sh([drv, 'ops', of, '0'], timeout=900)
    L = lambda t: [l for l in t.split('\n') if l]
    pc, k1 = split_outputs(L(o_cpp), seqs)
    pn, k2 = split_outputs(L(o_norm), nseqs)
    pm, k3 = split_outputs(L(o_mod), seqs)
    po, k4 = split_outputs(L(o_old), seqs)
    if not (k1 == len(L(o_cpp)) and k3 == len(L(o_mod)) and k2 == len(L(o_norm))):
        corr_diffs.append({'section': 'ops', 'what': 'unexpected number of output lines', 'harness': len(L(o_cpp)), 'expected': k1,
                           'model': len(L(o_mod))})
    flip_bad, stale_like = None, 0
    for i, s in enumerate(seqs):
        evals += len(pc[i])
        dump = lambda ls: [l for l in ls if l.startswith('D')]
        if dump(pc[i]) != dump(pn[i]) and flip_bad is None:
            flip_bad = {'what': 'flip_equiv fails on the real SepMatrix: a request stated as (b,a,negated direction) is stored differently '
                                'from the same request stated as (a,b)',
                        'ops': s, 'ops_normalised': nseqs[i], 'stored_pairs': dump(pc[i]), 'stored_pairs_normalised': dump(pn[i]),
                        'op_format': 'A id1 id2 gapType(0=CENTRE,1=BDRY) dir(%s) sepType(0=NONE,1=EQ,2=INEQ) gap*4 with sign bit; '
                                     'C/H/V = getCardinalDir/areHAligned/areVAligned; T = transform; D = dump' % ','.join(SD),
                        'matches_old_stale_flag_model': pc[i] == po[i],
                        'replay': 'harness/c18_sep.cpp ops <file with "N" + the ops>'}
        if i < n_exh and len(pc[i]) >= 2 and flip_bad is None:
            c1, c2 = pc[i][-2], pc[i][-1]
            if c1[:2] == 'C ' and c2[:2] == 'C ' and {'E': 'W', 'W': 'E', 'S': 'N', 'N': 'S'}.get(c1[2], c1[2]) != c2[2]:
                flip_bad = {'what': 'getCardinalDir(b,a) is not the opposite of getCardinalDir(a,b) on the real SepMatrix',
                            'ops': s, 'results': pc[i], 'replay': 'harness/c18_sep.cpp ops <file with "N" + the ops>'}
        if pc[i] != pm[i]:
            if pc[i] == po[i]:
                stale_like += 1
            if len(corr_diffs) < 5:
                corr_diffs.append({'section': 'ops', 'ops': s, 'implementation': pc[i], 'model': pm[i],
                                   'matches_old_stale_flag_model': pc[i] == po[i]})
    if flip_bad:
        res.violation(flip_bad)
        prop_viol += 1
    cov['ops'] = {'sequences': len(seqs), 'exhaustive_two_request_sequences': n_exh,
                  'sequences_where_old_stale_flag_model_differs': sum(1 for i in range(len(seqs)) if pm[i] != po[i])}

    # ---- 4. TGLF round trip (V)
    graphs = gen_tglf(rng.fork(), tier)
    tf_ = os.path.join(tmp, 'tglf.txt')
    with open(tf_, 'w') as fh:
        for g in graphs:
            fh.write('\n'.join(g) + '\n')
    rc, t_out, err, dt = C.sh([exe, 'tglf', tf_], timeout=900)
    if rc != 0:
        return fail_harness('harness c18_sep tglf failed (rc %d)' % rc, rc, err)
    tof = os.path.join(tmp, 'tglf_out.txt')
    open(tof, 'w').write(t_out)
    rc, t_chk, err, dt = C.sh([drv, 'tglfcheck', tof], timeout=900)
    verdict = {}
    for line in t_chk.split('\n'):
        f = line.split()
        if len(f) >= 3 and f[0] == 'case':
            verdict[int(f[1])] = f[2:]
    tcases = {}
    cur = None
    for line in t_out.split('\n'):
        if line.startswith('## case'):
            cur = []
            tcases[int(line.split()[2])] = cur
        elif cur is not None and line:
            cur.append(line)
    tg = {'graphs': len(graphs), 'rejected_coincide': 0, 'with_constraints': 0, 'pairs_checked': 0, 'sepco_lines': 0}
    tglf_bad = None
    for k, g in enumerate(graphs):
        evals += 1
        ls = tcases.get(k, [])
        v = verdict.get(k, ['missing'])
        A = sorted(l[2:] for l in ls if l.startswith('A node') or l.startswith('A edge'))
        B = sorted(l[2:] for l in ls if l.startswith('B node') or l.startswith('B edge'))
        bad = None
        if v[0] == 'threw':
            tg['rejected_coincide'] += 1
            if v[1] != 'coincide=1':
                bad = 'writeTglf threw although no pair is constrained to coincide'
        else:
            if any(l.startswith('A pair') for l in ls):
                tg['with_constraints'] += 1
            tg['sepco_lines'] += sum(1 for l in ls if l.startswith('T ') and len(l.split()) == 7)
            if any('coincide' in l for l in ls):
                pass
            if A != B:
                bad = 'nodes / edges / routes differ after the round trip'
            elif v[0] != 'pairs-equivalent':
                bad = 'separation pairs not equivalent after the round trip: ' + ' '.join(v)
            elif 'TEXT same' not in ls:
                bad = 'writing the re-read graph gives a different text'
            else:
                tg['pairs_checked'] += int(v[1])
        if bad and tglf_bad is None:
            tglf_bad = {'what': bad, 'graph_input': g, 'harness_dump': ls[:80],
                        'input_format': 'n ext cx cy w h (x4); e ext ext route...(x4); x extraBdryGap(x4); c ext ext gapType dir sepType gap',
                        'replay': 'harness/c18_sep.cpp tglf <file with these lines>'}
    # a pair that is `coincide` must be rejected: check the converse on the dumps
    if tglf_bad:
        res.violation(tglf_bad)
        prop_viol += 1
    cov['tglf'] = tg

    nontriv = hist['sat'] + tg['with_constraints'] + cov['ops']['sequences_where_old_stale_flag_model_differs']
    res.cov.update({'evaluations': evals, 'distinct_nontrivial': nontriv,
                    'rule': 'exhaustive over the 576 SepPair states x (7 transforms + 49 transform pairs + 192 addSep requests + queries); '
                            'non-trivial = placements that satisfy their pair (the other half violates it) + round-tripped graphs that carry '
                            'constraints + op sequences on which the stale-flag variant of the model would differ',
                    'exhaustive': True, 'samples': samples, 'traces_validated_against_impl': evals,
                    'input_distribution': cov, 'correspondence_disagreements': corr_diffs[:5],
                    'v_only': 'TGLF node/edge/route sections and the whole-graph round trip are validation by a verified pair-equivalence '
                              'checker (sep_equivb_sound) on real outputs, not proof of the reader/writer'})
    if prop_viol == 0 and (not info['ok'] or corr_diffs):
        res.violation({'what': 'proof obligation or model/implementation correspondence no longer checks; the property oracles '
                               '(transform_commutes on %d placements, group law on all states, flip_equiv on %d op sequences, %d TGLF round trips) '
                               'found no failing input' % (len(cases), len(seqs), len(graphs)),
                       'broken_files': info.get('broken'), 'broken_lemmas': info.get('broken_lemmas'), 'forbidden': info.get('forbidden'),
                       'correspondence_disagreements': corr_diffs[:5], 'coq_log_tail': info['log'][-3000:]}, no_input=True)
    import shutil
    shutil.rmtree(tmp, ignore_errors=True)
    return res.finish()


def replay(path):
    print(open(path).read())
    return 0


def warm():
    C.build_harness('c18_sep', LIBS, 'c18plain')
    C.ocaml_build('c18', 'C18.v', 'c18_driver.ml', 'c18_model.ml')


META = {
    'property_id': PID,
    'level_claimed': {
        'category': 'proof',
        'text': 'Coq theorems over a hand model of dialect::SepPair / SepMatrix with IEEE signed-zero gaps (sign bit + non-negative rational '
                'magnitude), all symbolic in gaps, coordinates, sizes and the extra boundary gap: transform_commutes (placement satisfies pair '
                'iff transformed placement, sizes swapped for axis-swapping transforms, satisfies transformed pair; all 7 transforms, all kinds, '
                'both zeros, negative gaps), transform_group (the action on all six fields incl. sign bits is a group action of D4, product = '
                '2x2 matrix product; four quarter turns / double flips = identity), flip_equiv (storing c under (a,b) and the negated c under '
                '(b,a) leave identical stored pairs for any prior matrix; refuted for the pre-88a99a7 stale-flag getSepPair), '
                'getCardinalDir_flip, addSep_meaning, gen_constraint_sound (generated vpsc constraint <-> boundary-based meaning, both dims, '
                'BDRY adds half extents + extra gap), tglf_sep_roundtrip at token level (write_sep then read_sep keeps the meaning, also with '
                'the reader\'s ids reversed) and tglf_rejected_iff (exactly the coinciding pairs are rejected). Tie: exhaustive correspondence '
                'of the model with the compiled library on every run (576 states x 7 transforms / 49 pairs / 192 requests, SepMatrix op '
                'sequences, generated constraints) plus the property oracles run on the real outputs.',
        'design_ref': 'DESIGN.md 5.18'},
    'level_note': 'SepPair::transform could not be obtained through cpp2v (no switch / std::swap in its fragment, double->Q loses the sign bit): '
                  'it is hand-modelled and tied by the exhaustive field-by-field correspondence instead. Trusted: Coq kernel; the hand model '
                  '(SepPairModel.v) as far as not covered by the exhaustive sweep (gap magnitudes other than 0, 2 are covered only by the random '
                  'placements); extraction + OCaml/C++ drivers; exact-rational model of binary64 on multiples of 0.25. Assumed, not proved '
                  '(Section hypotheses of tglf_sep_roundtrip): parse_fmt = "%.3f" then operator>> returns the written non-negative value with a '
                  'clear sign bit, parse_zero = "0" reads as +0.0. V-only (verified checker sep_equivb_sound on real outputs, not a proof of the '
                  'code): Graph::writeTglf -> buildGraphFromTglf on random graphs incl. node/edge/route sections. Not covered: extraBdryGap < 0 '
                  '(the writer would print a negative number and the reader would reverse the direction); Graph::rotate90cw itself does not '
                  'swap node dimensions (documented in graphs.cpp), so for non-square nodes with BDRY gaps it preserves satisfaction only '
                  'after the following destress.',
    'technique': 'Coq proof over a hand-written Gallina model + exhaustive finite correspondence with the compiled C++ + verified checkers on real outputs',
}
