"""C18 - libdialect: constraint transforms commute with geometry; TGLF round-trips (DESIGN 5.18).
proof: Dialect/SepPair.v over the hand model Dialect/SepPairModel.v (signed-zero gaps from Num/SignedZero.v);
tie (C): exhaustive correspondence of the model with the real dialect::SepPair / SepMatrix on every run
 - all 576 SepPair states (2x2 gap types x 3x3 sep types x 4x4 gaps {-2,-0.0,+0.0,2}) x 7 transforms, x 49 transform
   pairs, x 192 addSep requests, cardinal queries: compared field by field incl. the sign bit;
 - SepMatrix op sequences over EVERY public mutator overload (addSep, addFixedRelativeSep with given offsets and the position-based
   2-argument overload that reads the node centres, setCardinalOP, hAlign, vAlign, alignByEquatedCoord, free, clear, setSepPair,
   transform / transformClosedSubset / transformOpenSubset, removeNode(s), roundGapsUpward, setExtraBdryGap,
   setCorrespondingConstraints; same pair in both id orders, with / without intervening queries, nodes moved between requests):
   stored pairs + query results + which records the present placement satisfies;
 - generateSeparationConstraints on boundary-directed placements, before and after the real transform;
property oracles run on the REAL outputs (these decide VIOLATION with a failing input):
 - transform_commutes: the real generated constraints of the really transformed pair hold for the transformed placement
   iff the verified `holdsb` of the original pair holds for the original placement;
 - transform_group: the real transforms compose like the 2x2 signed permutation matrices (D4);
 - flip_equiv: an op sequence and its id-order-normalised twin leave the same stored pairs in the real SepMatrix (identical for the
   directed requests; for the symmetric ones - alignments, present offset - equivalent by the verified checker sep_equivb, because
   the sign bit of a zero CENTRE/EQ gap depends on the id order); the record stored by addFixedRelativeSep(id1,id2) holds for the
   present placement (real generated constraints);
 - subset transforms (harness mode sub, corpus/c18_subset.json first): Graph::transformOpenSubset / transformClosedSubset on arbitrary sparse
   matrices (raw ids, empty rows, set ids foreign to the matrix) must equal the extracted declarative specification spec_open (AT LEAST
   ONE node in the set) / spec_closed (BOTH) - exhaustive over 5 ids x all subsets x 7 transforms for a family of matrices, random larger
   ones with the rows outside the set in ascending and in non-monotone partner patterns; the loop model SepSubsetModel.v (proved equal to
   the specification, C18_transformOpenSubset_spec / C18_transformClosedSubset_spec) is compared as correspondence;
 - TGLF: Graph::writeTglf(useExternalIds) -> buildGraphFromTglf in both id modes on graphs whose nodes all / partly / never carry an
   external id, with controlled internal ids (boundary-directed at the case split "smallest internal id lacking an external id vs
   largest external id"): written node ids pairwise distinct and equal to the given ids where they exist, node/edge/route dumps
   equal, pairs equivalent by the verified checker sep_equivb, write throws iff some pair is `coincide`."""
import os, json, tempfile
from vlib import common as C

PID = 'C18'
LIBS = ['libdialect', 'libcola', 'libtopology', 'libavoid', 'libvpsc']
GT = ['CENTRE', 'BDRY']
ST = ['NONE', 'EQ', 'INEQ']
SD = ['EAST', 'SOUTH', 'WEST', 'NORTH', 'RIGHT', 'DOWN', 'LEFT', 'UP']
NEG_SD = [2, 3, 0, 1, 6, 7, 4, 5]
TF = ['ROTATE90CW', 'ROTATE90ACW', 'ROTATE180', 'FLIPV', 'FLIPH', 'FLIPMD', 'FLIPOD']
GAPS = ['-8', '-0', '+0', '+8']        # -2, -0.0, +0.0, 2 (scaled by 4)
D4_MAT = [(1, 0, 0, 1), (0, -1, 1, 0), (0, 1, -1, 0), (-1, 0, 0, -1), (-1, 0, 0, 1), (1, 0, 0, -1), (0, 1, 1, 0), (0, -1, -1, 0)]


def gap_txt(g):
    return ('-' if g[0] == '-' else '') + str(int(g[1:]) / 4.0)


def neg_gap(g):
    return ('+' if g[0] == '-' else '-') + g[1:]


def states():
    for a in range(2):
        for b in range(2):
            for c in range(3):
                for d in range(3):
                    for i in range(4):
                        for j in range(4):
                            yield (a, b, c, d, GAPS[i], GAPS[j])


def state_txt(s):
    return {'xgt': GT[int(s[0])], 'ygt': GT[int(s[1])], 'xst': ST[int(s[2])], 'yst': ST[int(s[3])],
            'xgap': gap_txt(s[4]), 'ygap': gap_txt(s[5])}


def sections(txt):
    secs, cur = {}, None
    for line in txt.split('\n'):
        if line.startswith('## '):
            cur = []
            secs[line[3:].strip()] = cur
        elif cur is not None and line:
            cur.append(line)
    return secs


def d4_mul(a, b):
    A, B = D4_MAT[a], D4_MAT[b]
    m = (A[0] * B[0] + A[1] * B[2], A[0] * B[1] + A[1] * B[3], A[2] * B[0] + A[3] * B[2], A[2] * B[1] + A[3] * B[3])
    return D4_MAT.index(m)


# ----------------------------------------------------------------------------------------- generators
def gen_ops(rng, tier):
    """list of sequences; a sequence = list of op lines (without the leading N); every sequence ends with D C01 C10"""
    seqs = []
    g1 = ['-0', '+8'] if tier == 'quick' else GAPS
    g2 = ['-0', '+8'] if tier == 'quick' else GAPS
    mids = [[], ['C 0 1'], ['C 1 0'], ['H 1 0']]
    for o1 in ((0, 1), (1, 0)):
        for gt1 in range(2):
            for sd1 in range(8):
                for st1 in (1, 2):
                    for ga in g1:
                        first = 'A %d %d %d %d %d %s' % (o1[0], o1[1], gt1, sd1, st1, ga)
                        for mid in mids:
                            for o2 in ((0, 1), (1, 0)):
                                for gt2 in range(2):
                                    for sd2 in range(8):
                                        for st2 in (1, 2):
                                            for gb in g2:
                                                if tier == 'quick' and (gt1 + sd1 + st1 + gt2 + sd2 + st2 + len(mid)) % 2:
                                                    continue
                                                seqs.append([first] + mid + ['A %d %d %d %d %d %s' % (o2[0], o2[1], gt2, sd2, st2, gb),
                                                                             'D', 'C 0 1', 'C 1 0'])
    n_exh = len(seqs)
    # ---- every public mutator overload of SepMatrix (constraints.h), two requests on the pair {0,1} in both id orders, with /
    # without an intervening query; the position-based overload addFixedRelativeSep(id1,id2) reads the node centres, so the
    # sequences start by placing nodes 0 and 1 (all nine sign patterns of the offset, multiples of 0.25)
    def requests(o):
        i, j = o
        r = []
        for sd in range(8):
            for k, g in enumerate(['-0', '+8']):
                r.append('A %d %d %d %d %d %s' % (i, j, (sd + k) % 2, sd, 1 + (sd // 2 + k) % 2, g))
        r += ['F %d %d %s %s' % (i, j, a, b) for a, b in (('+8', '-0'), ('-8', '+12'), ('+0', '+0'))]
        r.append('P %d %d' % (i, j))
        r += ['O %d %d %d' % (i, j, c) for c in range(4)]
        r += ['h %d %d' % (i, j), 'v %d %d' % (i, j), 'E %d %d 0' % (i, j), 'E %d %d 1' % (i, j), 'R %d %d' % (i, j)]
        return r
    reqs = requests((0, 1)) + requests((1, 0))
    offs = [(dx, dy) for dx in (-28, 0, 20) for dy in (-9, 0, 16)]
    k = 0
    for r1 in reqs:
        for mid in mids:
            for r2 in reqs:
                k += 1
                hasP = r1[0] == 'P' or r2[0] == 'P'
                if tier == 'quick' and not hasP and k % 3:
                    continue
                for (dx, dy) in (offs if hasP else [offs[k % 9]]):
                    seqs.append(['M 0 12 -8', 'M 1 %d %d' % (12 + dx, -8 + dy), r1] + mid + [r2, 'D', 'Q', 'C 0 1', 'C 1 0'])
    n_ext = len(seqs)
    # ---- random longer sequences over 3 nodes, all ops
    allg = ['-12', '-8', '-2', '-0', '+0', '+2', '+8', '+12', '+9', '-5', '+1']
    nrand = 4000 if tier == 'quick' else 25000
    for _ in range(nrand):
        s = []
        if rng.chance(1, 3):
            s.append('X %d' % rng.choice([0, 4, 5, 8]))
        for v in range(3):
            if rng.chance(2, 3):
                s.append('M %d %d %d' % (v, rng.range(-12, 12) * rng.choice([1, 4]), rng.range(-12, 12) * rng.choice([1, 4])))
        for _ in range(rng.range(2, 9)):
            k = rng.below(26)
            i = rng.below(3)
            j = rng.below(3) if rng.chance(1, 12) else (i + 1 + rng.below(2)) % 3
            if k < 6:
                s.append('A %d %d %d %d %d %s' % (i, j, rng.below(2), rng.below(8), rng.below(3), rng.choice(allg)))
            elif k < 8:
                s.append('F %d %d %s %s' % (i, j, rng.choice(allg), rng.choice(allg)))
            elif k < 11:
                s.append('P %d %d' % (i, j))
                if rng.chance(1, 2):
                    s.append('Q')
            elif k < 12:
                s.append('O %d %d %d' % (i, j, rng.below(4)))
            elif k < 13:
                s.append('%s %d %d' % (rng.choice(['h', 'v']), i, j))
            elif k < 14:
                s.append('E %d %d %d' % (i, j, rng.below(2)))
            elif k < 15:
                s.append('R %d %d' % (i, j))
            elif k < 16:
                s.append('C %d %d' % (i, j))
            elif k < 17:
                s.append('%s %d %d' % (rng.choice(['H', 'V']), i, j))
            elif k < 18:
                s.append('T %d' % rng.below(7))
            elif k < 20:
                s.append('%s %d %d' % (rng.choice(['TC', 'TO']), rng.below(7), rng.below(8)))
            elif k < 21:
                s.append(rng.choice(['RN %d' % i, 'RM %d' % rng.below(8)]))
            elif k < 22:
                s.append('U')
            elif k < 23:
                s.append('K %d' % rng.below(8))
            elif k < 24:
                s.append('M %d %d %d' % (i, rng.range(-40, 40), rng.range(-40, 40)))
            elif k < 25:
                s.append('S %d %d %d %d %d %d %s %s' % (i, j, rng.below(2), rng.below(2), rng.below(3), rng.below(3), rng.choice(allg), rng.choice(allg)))
            else:
                s.append(rng.choice(['Z', 'Q', 'C %d %d' % (j, i)]))
            s.append('D')
        s.append('Q')
        seqs.append(s)
    return seqs, n_exh, n_ext


CARD_FLIP = [2, 3, 0, 1]
OLD_OPS = set('AFCHVTDN')


def normalise_seq(seq):
    """the flip_equiv twin: every request stated from the smaller id (direction / offsets negated where the request is directed;
    the position-based and the alignment requests are symmetric)"""
    out = []
    for op in seq:
        f = op.split()
        if f[0] in ('A', 'F', 'P', 'O', 'h', 'v', 'E', 'R') and int(f[1]) > int(f[2]):
            if f[0] == 'A':
                out.append('A %s %s %s %d %s %s' % (f[2], f[1], f[3], NEG_SD[int(f[4])], f[5], f[6]))
            elif f[0] == 'F':
                out.append('F %s %s %s %s' % (f[2], f[1], neg_gap(f[3]), neg_gap(f[4])))
            elif f[0] == 'O':
                out.append('O %s %s %d' % (f[2], f[1], CARD_FLIP[int(f[3])]))
            else:
                out.append(' '.join([f[0], f[2], f[1]] + f[3:]))
        else:
            out.append(op)
    return out


def n_out(op):
    f = op.split()
    if f[0] in ('C', 'H', 'V', 'D', 'K', 'Q'):
        return 1
    if f[0] in ('A', 'F', 'P', 'O', 'h', 'v', 'E') and f[1] == f[2]:
        return 1
    if f[0] == 'S' and int(f[1]) >= int(f[2]):
        return 1
    return 0


def parse_dump(line):
    """'D | lo hi xgt ygt xst yst xgap ygap | ... | e N' -> ({(lo,hi): 'pair text'}, extra)"""
    pairs, extra = {}, '0'
    for seg in line.split(' | ')[1:]:
        f = seg.split()
        if f[0] == 'e':
            extra = f[1]
        else:
            pairs[(int(f[0]), int(f[1]))] = ' '.join(f[2:8]) + (' BADSRC' if len(f) > 8 else '')
    return pairs, extra


def write_ops(path, seqs):
    with open(path, 'w') as fh:
        for s in seqs:
            fh.write('N\n' + '\n'.join(s) + '\n')


def split_outputs(lines, seqs):
    out, k = [], 0
    for s in seqs:
        n = sum(n_out(op) for op in s)
        out.append(lines[k:k + n])
        k += n
    return out, k


def gen_cases(rng, tier):
    """(state, extra, placement, tf) lines for mode gen: every state x identity+7 transforms x K boundary-directed placements,
    plus random states with a wider gap alphabet"""
    K = 2 if tier == 'quick' else 6
    wide = ['-12', '-8', '-2', '-0', '+0', '+2', '+8', '+12', '-5', '+5']
    cases = []

    def placement(s, extra, mode):
        # sizes: multiples of 0.5 (scaled by 4: even numbers)
        sw, sh, tw, th = [2 * rng.range(1, 6) for _ in range(4)]
        sx, sy = 4 * rng.range(-5, 5), 4 * rng.range(-5, 5)
        pos = []
        for (gt, st, g, ws, wt) in ((s[0], s[2], s[4], sw, tw), (s[1], s[3], s[5], sh, th)):
            neg, mag = g[0] == '-', int(g[1:])
            need = mag + ((ws + wt) // 2 + extra if gt == 1 else 0)
            if st == 0 or mode == 'random':
                d = 2 * rng.range(-12, 12)
            else:
                slack = 0 if (st == 1 or rng.chance(1, 2)) else 2 * rng.range(1, 3)
                d = need + slack
                if mode == 'off':
                    d += rng.choice([-2, -1, 1, 2]) if st == 1 else -rng.range(1, 2)
                if neg:
                    d = -d
            pos.append(d)
        if mode == 'off' and rng.chance(1, 2):
            k = rng.below(2)        # spoil only one dimension
            pos[k] = pos[k]
        return [sx, sy, sx + pos[0], sy + pos[1], sw, sh, tw, th]

    def add(s, rngmode):
        extra = rng.choice([0, 0, 1, 4])
        for tf in range(8):
            for k in range(K):
                mode = ('tight', 'off', 'random')[k % 3] if rngmode is None else rngmode
                cases.append((s, extra, placement(s, extra, mode), tf))

    for s in states():
        add(s, None)
    for _ in range(150 if tier == 'quick' else 1500):
        s = (rng.below(2), rng.below(2), rng.below(3), rng.below(3), rng.choice(wide), rng.choice(wide))
        add(s, None)
    return cases


def case_line(c):
    s, extra, p, tf = c
    return '%d %d %d %d %s %s %d %s %d' % (s[0], s[1], s[2], s[3], s[4], s[5], extra, ' '.join(str(v) for v in p), tf)


def case_txt(c):
    s, extra, p, tf = c
    return {'pair': state_txt(s), 'extraBdryGap': extra / 4.0, 'transform': 'identity' if tf == 0 else TF[tf - 1],
            'placement': {'src_centre': [p[0] / 4.0, p[1] / 4.0], 'tgt_centre': [p[2] / 4.0, p[3] / 4.0],
                          'src_size': [p[4] / 4.0, p[5] / 4.0], 'tgt_size': [p[6] / 4.0, p[7] / 4.0]}}


def gen_tglf(rng, tier):
    """graphs for the round trip; families (by which nodes carry an external id and which id mode is written):
    allext      every node has a (random, distinct) external id, writeTglf(true)
    internal    any external ids, writeTglf(false): internal ids are written
    noext       no external ids, writeTglf(true)
    file+added  a graph as read from a TGLF file whose ids start at `off` (external id = internal id + off) plus added nodes without
                external id (Graph::addNode, bend nodes), optionally after skipped internal ids, writeTglf(true)
    boundary    mixed; the largest external id is placed at (smallest internal id lacking an external id) + delta, delta in -2..2
    mixed       mixed, random
    Internal ids are controlled through `G <useExt> <first internal id>` and `s <skip>`."""
    graphs = []
    allg = ['-12', '-8', '-3', '-1', '-0', '+0', '+1', '+3', '+8', '+12', '+5']
    fams = ['allext', 'internal', 'noext', 'file+added', 'boundary', 'mixed', 'file+added', 'boundary']
    for gi in range(480 if tier == 'quick' else 3600):
        fam = fams[gi % len(fams)]
        n = rng.range(2, 7)
        base = rng.choice([0, 0, 0, 1, 3, 10])
        use_ext = 0 if fam == 'internal' else 1
        skips = [0] * n
        ids = []
        exts = [-1] * n
        if fam == 'file+added':
            nadd = rng.range(1, min(2, n - 1))
            off = rng.choice([1, 1, 1, 0, 2])
            skips[n - nadd] = rng.choice([0, 0, 0, 1, 2])
        cur = base
        for k in range(n):
            cur += skips[k]
            ids.append(cur)
            cur += 1
        if fam == 'allext' or (fam == 'internal' and rng.chance(1, 2)):
            exts = rng.shuffle(list(range(20)))[:n]
        elif fam == 'file+added':
            for k in range(n - nadd):
                exts[k] = ids[k] + off
        elif fam in ('boundary', 'mixed', 'internal'):
            have = [rng.chance(1, 2) for _ in range(n)]
            if fam == 'boundary':
                if all(have):
                    have[rng.below(n)] = False
                if not any(have):
                    have[rng.below(n)] = True
            pool = rng.shuffle(list(range(ids[-1] + 6)))
            for k in range(n):
                if have[k]:
                    exts[k] = pool.pop()
            if fam == 'boundary':
                first_lacking = [ids[k] for k in range(n) if not have[k]][0]
                top = first_lacking + rng.choice([-2, -1, 0, 0, 0, 1, 2])
                hs = [k for k in range(n) if have[k]]
                if top >= 0:
                    k0 = rng.choice(hs)
                    exts[k0] = top
                    low = rng.shuffle([v for v in range(top)])
                    for k in hs:
                        if k != k0:
                            if low:
                                exts[k] = low.pop()
                            else:
                                exts[k] = -1
        lines = ['G %d %d' % (use_ext, base)]
        for k in range(n):
            if skips[k]:
                lines.append('s %d' % skips[k])
            lines.append('n %d %d %d %d %d' % (exts[k], rng.range(-200, 200), rng.range(-200, 200), 2 * rng.range(1, 20), 2 * rng.range(1, 20)))
        used = set()
        idx = list(range(n))
        for _ in range(rng.range(0, 2 * n)):
            a, b = rng.choice(idx), rng.choice(idx)
            if a == b or (a, b) in used or (b, a) in used:
                continue
            used.add((a, b))
            pts = ' '.join('%d %d' % (rng.range(-200, 200), rng.range(-200, 200)) for _ in range(rng.range(0, 3)))
            lines.append(('e %d %d %s' % (a, b, pts)).strip())
        lines.append('x %d' % rng.choice([0, 0, 1, 4, 6]))
        for _ in range(rng.range(0, 2 * n)):
            a, b = rng.choice(idx), rng.choice(idx)
            if a == b:
                continue
            # cardinal EQ CENTRE with zero gap would make the pair `coincide` (writer rejects): keep it rare
            lines.append('c %d %d %d %d %d %s' % (a, b, rng.below(2), rng.below(8), rng.range(1, 2), rng.choice(allg)))
        graphs.append({'family': fam, 'lines': lines, 'use_ext': use_ext})
    return graphs


def tglf_id_relation(g):
    """how the largest external id relates to the smallest internal id lacking one (the case split of Graph::writeTglf)"""
    cur, ids, exts = 0, [], []
    for l in g['lines']:
        f = l.split()
        if f[0] == 'G':
            cur = int(f[2])
        elif f[0] == 's':
            cur += int(f[1])
        elif f[0] == 'n':
            ids.append(cur); exts.append(int(f[1])); cur += 1
    lack = [i for i, e in zip(ids, exts) if e < 0]
    if not lack:
        return 'all-have-ext'
    if max(exts) < 0:
        return 'none-has-ext'
    d = lack[0] - max(exts)
    return 'first-lacking %s max-ext' % ('<' if d < 0 else '==' if d == 0 else '>')


# ----------------------------------------------------------------------------------------- subset transforms (mode sub)
# pair states (xgt ygt xst yst xgap*4 ygap*4) whose printed form is changed by every one of the 7 transforms (xgt != ygt; a
# negated gap always shows, the sign bit is printed)
SUB_PAIRS = ['0 1 2 1 +8 -12', '1 0 1 2 -20 +4', '0 1 1 2 +0 +8', '1 0 2 1 -0 -4', '0 1 2 2 +200 +0', '1 0 1 1 +4 +12',
             '0 1 0 2 +0 -8', '1 0 2 0 +36 +0', '0 1 2 1 -4 -4', '1 0 2 2 +12 +12']
SUB_FORMAT = ('one case per line: <rows> | <ops>; rows = ";"-separated "i : j xgt ygt xst yst xgap*4 ygap*4 , j ..." (raw node ids, '
              'i < j, built with setSepPair; "i :" = a row left empty by SepMatrix::free); ops = ";"-separated "O t id ..." = '
              'Graph::transformOpenSubset(t, {ids}), "C t id ..." = Graph::transformClosedSubset, t = index into [%s]; output: '
              'D | i j xgt ygt xst yst xgap*4 ygap*4 | ... | r <first ids of m_sparseLookup>' % ','.join(TF))


def sub_line(rows, ops):
    """rows: {i: {j: pair text}} ({} = empty row); ops: [(kind, t, ids)]"""
    rs = ' ; '.join(('%d : %s' % (i, ' , '.join('%d %s' % (j, rows[i][j]) for j in sorted(rows[i])))).strip() for i in sorted(rows))
    os_ = ' ; '.join(' '.join([k, str(t)] + [str(x) for x in sorted(set(ids))]) for (k, t, ids) in ops)
    return rs + ' | ' + os_


def sub_parse_case(line):
    rows_t, ops_t = line.split('|')
    rows, ops = {}, []
    for r in rows_t.split(';'):
        if ':' not in r:
            continue
        i, cells = r.split(':')
        rows[int(i)] = {}
        for c in cells.split(','):
            f = c.split()
            if len(f) == 7:
                rows[int(i)][int(f[0])] = ' '.join(f[1:])
    for o in ops_t.split(';'):
        f = o.split()
        if len(f) >= 2:
            ops.append((f[0], int(f[1]), [int(x) for x in f[2:]]))
    return rows, ops


def sub_parse_dump(txt):
    """'D | i j pair | ... | r k k ...' -> ({(i,j): pair text}, [row keys])"""
    pairs, keys = {}, []
    for seg in txt.split(' | ')[1:]:
        f = seg.split()
        if f and f[0] == 'r':
            keys = [int(x) for x in f[1:]]
        elif len(f) >= 8:
            pairs[(int(f[0]), int(f[1]))] = ' '.join(f[2:])
    return pairs, keys


def sub_nonmonotone(rows, ids):
    """the case split of the second pass of transformOpenSubset (where a set iterator shared between the rows would go wrong): two
    first ids outside the set, the earlier one with a partner (in the set or not) LARGER than a partner in the set of the later one"""
    S = set(ids)
    outs = [i for i in sorted(rows) if i not in S]
    for a in range(len(outs)):
        if not rows[outs[a]]:
            continue
        top = max(rows[outs[a]])
        for b in range(a + 1, len(outs)):
            if any(j < top for j in rows[outs[b]] if j in S):
                return True
    return False


def gen_subset(rng, tier):
    """[(family, case line)].  Families:
    exhaustive5   a fixed family of matrices over 5 ids (full upper triangle, the A/B/C/D matrix of seeded C18-5 with and without an
                  empty row, crossing / nested partner patterns, star, column, staircase, empty rows) + random ones with random id
                  tables: ALL 32 id subsets x 7 transforms x {open, closed}
    ascending     random larger matrices; the rows outside the set have all their partners in the set, in ascending order from row to
                  row (a set iterator shared between the rows of the second pass would still be right here)
    nonmonotone   ... an earlier row outside the set has a partner in the set LARGER than a partner in the set of a later row (the
                  pattern on which the rows of the second pass must each restart at ids.cbegin())
    random        random sparse matrices and sets (ids foreign to the matrix, empty rows, two ops in sequence)
    edge          empty set, full set, set entirely below / above the first ids, empty matrix, only empty rows"""
    cases = []
    k = [0]

    def pair(rnd=False):
        if rnd and rng.chance(1, 2):
            allg = ['-12', '-8', '-2', '-0', '+0', '+2', '+8', '+12', '+200']
            return '%d %d %d %d %s %s' % (rng.below(2), rng.below(2), rng.below(3), rng.below(3), rng.choice(allg), rng.choice(allg))
        k[0] += 1
        return SUB_PAIRS[k[0] % len(SUB_PAIRS)]

    def mat(shape, U):
        return {U[i]: {U[j]: pair() for j in js} for i, js in shape.items()}

    fixed = [
        ('full', {i: list(range(i + 1, 5)) for i in range(4)}),
        ('abcd', {0: [3], 1: [2]}),
        ('abcd+emptyrow', {0: [3], 1: [2], 2: []}),
        ('crossing', {0: [4], 1: [3], 2: [3]}),
        ('nested', {0: [2, 4], 1: [3], 2: [3, 4]}),
        ('star', {0: [1, 2, 3, 4]}),
        ('column', {i: [4] for i in range(4)}),
        ('stairs', {i: [i + 1] for i in range(4)}),
        ('holes', {0: [], 1: [2, 4], 3: [4]}),
    ]
    mats = [(name, mat(shape, list(range(5))), list(range(5))) for name, shape in fixed]
    for r in range(8 if tier == 'quick' else 40):
        U = sorted(rng.shuffle(list(range(30)))[:5])
        shape = {}
        for i in range(4):
            if rng.chance(3, 4):
                shape[i] = [j for j in range(i + 1, 5) if rng.chance(1, 2)]
        mats.append(('random%d' % r, mat(shape, U), U))
    for name, rows, U in mats:
        for mask in range(32):
            ids = [U[b] for b in range(5) if mask & (1 << b)]
            for t in range(7):
                for kind in 'OC':
                    cases.append(('exhaustive5:' + name, sub_line(rows, [(kind, t, ids)])))
    n_exh = len(cases)
    for r in range(6000 if tier == 'quick' else 60000):
        fam = ('ascending', 'nonmonotone', 'random', 'nonmonotone', 'random', 'edge')[r % 6]
        n = rng.range(4, 12)
        U = sorted(rng.shuffle(list(range(40)))[:n])
        rows = {}
        if fam in ('ascending', 'nonmonotone'):
            # set = a random part of the upper half of the ids (plus possibly lower ones), rows outside the set get partners in it
            S = set(u for u in U[1:] if rng.chance(1, 2))
            if len(S) < 2:
                S = set(U[-2:])
            outs = [u for u in U if u not in S]
            ins = sorted(S)
            if fam == 'ascending':
                lo = 0
                for i in outs:
                    cand = [j for j in ins[lo:] if j > i]
                    if cand and rng.chance(4, 5):
                        js = sorted(rng.shuffle(cand)[:rng.range(1, 2)])
                        rows.setdefault(i, {})
                        for j in js:
                            rows[i][j] = pair(True)
                        lo = ins.index(js[-1])
            else:
                # a < b outside the set, c < d in it, pairs (a,d) and (b,c)
                quad = None
                for _ in range(20):
                    if len(outs) < 2:
                        break
                    a, b = sorted(rng.shuffle(list(outs))[:2])
                    cd = [j for j in ins if j > b]
                    if len(cd) >= 2:
                        c, d = sorted(rng.shuffle(cd)[:2])
                        quad = (a, b, c, d)
                        break
                if quad is None:
                    a, b, c, d = U[0], U[1], U[-2], U[-1]
                    S = set(S) | {c, d}
                    S.discard(a); S.discard(b)
                else:
                    a, b, c, d = quad
                rows.setdefault(a, {})[d] = pair(True)
                rows.setdefault(b, {})[c] = pair(True)
            # unrelated extra cells
            for _ in range(rng.range(0, n)):
                i, j = sorted(rng.shuffle(list(U))[:2])
                if fam == 'ascending' and i not in S:
                    continue                         # rows outside the set keep the ascending pattern
                rows.setdefault(i, {}).setdefault(j, pair(True))
            ids = sorted(S)
        elif fam == 'random':
            for i in U[:-1]:
                if rng.chance(2, 3):
                    rows[i] = {j: pair(True) for j in U if j > i and rng.chance(1, 3)}
            ids = [u for u in U if rng.chance(1, 2)] + [rng.below(45) for _ in range(rng.below(3))]
        else:
            for i in U[:-1]:
                if rng.chance(1, 2):
                    rows[i] = {j: pair(True) for j in U if j > i and rng.chance(1, 3)}
            mode = rng.below(6)
            if mode == 0:
                ids = []
            elif mode == 1:
                ids = list(U)
            elif mode == 2:
                ids = [u + 41 for u in U[:3]]            # above every id of the matrix
            elif mode == 3:
                rows = {i + 10: {j + 10: v for j, v in r_.items()} for i, r_ in rows.items()}
                ids = [rng.below(10) for _ in range(3)]  # below every id of the matrix
            elif mode == 4:
                rows = {}
                ids = list(U[:2])
            else:
                rows = {i: {} for i in U[:-1] if rng.chance(1, 2)}
                ids = [u for u in U if rng.chance(1, 2)]
        ops = [(rng.choice('OOC'), rng.below(7), ids)]
        if fam != 'ascending' and rng.chance(1, 5):
            ops.append((rng.choice('OC'), rng.below(7), [u for u in U if rng.chance(1, 2)]))
        cases.append((fam, sub_line(rows, ops)))
    return cases, n_exh, len(mats)


# ----------------------------------------------------------------------------------------- the check
def run(tier):
    res = C.Result(PID, tier, 'proof')
    info = C.prove(res, PID)
    res.assumptions = [
        'the hand model SepPairModel.v describes SepPair/SepMatrix (checked exhaustively on every run, see coverage)',
        'number formatting "%.3f" / operator>> round-trip on the written values (Section hypotheses parse_fmt, parse_zero of tglf_sep_roundtrip)',
        'binary64 arithmetic is exact on the inputs used (multiples of 0.25 of small magnitude)']
    rng = C.SplitMix64(C.get_seed())
    exe = C.build_harness('c18_sep', LIBS, 'c18plain')
    drv = C.ocaml_build('c18', 'C18.v', 'c18_driver.ml', 'c18_model.ml')
    tmp = tempfile.mkdtemp(prefix='c18-')
    evals, corr_diffs, prop_viol = 0, [], 0
    cov = {}

    def fail_harness(what, rc, err):
        res.violation({'what': what, 'rc': rc, 'stderr': err[-2000:]}, no_input=True)
        return res.finish()

    # ---- 1. exhaustive enumeration
    rc, cpp_out, err, dt = C.sh([exe, 'enum'], timeout=600)
    if rc != 0:
        return fail_harness('harness c18_sep enum failed', rc, err)
    rc, mod_out, err, dt = C.sh([drv, 'enum'], timeout=600)
    cpp, mod = sections(cpp_out), sections(mod_out)
    S = list(states())
    reqs = [(g, d, t, k) for g in range(2) for d in range(8) for t in range(3) for k in range(4)]
    for sec in ('transform1', 'transform2', 'addsep', 'cardinal'):
        a, b = cpp.get(sec, []), mod.get(sec, [])
        evals += len(a)
        per = {'transform1': 7, 'transform2': 49, 'addsep': 192, 'cardinal': 1}[sec]
        if len(a) != len(S) * per:
            corr_diffs.append({'section': sec, 'what': 'harness printed %d lines, expected %d' % (len(a), len(S) * per)})
            continue
        for i, (x, y) in enumerate(zip(a, b)):
            if x != y:
                s, r = S[i // per], i % per
                d = {'section': sec, 'pair': state_txt(s), 'implementation': x, 'model': y}
                if sec == 'transform1':
                    d['transform'] = TF[r]
                elif sec == 'transform2':
                    d['transforms'] = [TF[r // 7], TF[r % 7]]
                elif sec == 'addsep':
                    g, dd, t, k = reqs[r]
                    d['request'] = {'gt': GT[g], 'dir': SD[dd], 'type': ST[t], 'gap': gap_txt(GAPS[k])}
                corr_diffs.append(d)
                break
    # group law on the real outputs (declarative oracle): table of real images, composition = D4 matrix product
    group_bad = None
    if len(cpp.get('transform1', [])) == len(S) * 7 and len(cpp.get('transform2', [])) == len(S) * 49:
        key = lambda s: '%d %d %d %d %s %s' % s
        idx = {key(s): i for i, s in enumerate(S)}
        t1 = cpp['transform1']

        def img(i, a):      # image of state i under D4 element a, by the real code
            return key(S[i]) if a == 0 else t1[i * 7 + a - 1]
        for i in range(len(S)):
            for a in range(7):
                for b in range(7):
                    evals += 1
                    got = cpp['transform2'][i * 49 + a * 7 + b]       # first TF[a], then TF[b]
                    c = d4_mul(b + 1, a + 1)
                    exp = img(i, c)
                    if got != exp and group_bad is None:
                        group_bad = {'what': 'the real transforms do not compose like the symmetry group of the square',
                                     'pair': state_txt(S[i]), 'first': TF[a], 'then': TF[b],
                                     'expected_same_as': 'identity' if c == 0 else TF[c - 1], 'expected': exp, 'got': got,
                                     'replay': 'SepPair sp; set fields; sp.transform(first); sp.transform(then); compare all six fields incl. signbit'}
        rcd, d4_out, _, _ = C.sh([drv, 'd4'], timeout=300)
        for line in d4_out.split('\n'):
            f = line.split()
            if len(f) == 3 and d4_mul(int(f[0]), int(f[1])) != int(f[2]):
                corr_diffs.append({'section': 'd4 table of the model', 'line': line})
    if group_bad:
        res.violation(group_bad)
        prop_viol += 1
    cov['enum'] = {'states': len(S), 'sections': {k: len(v) for k, v in cpp.items()}}

    # ---- 2. generated constraints and transform_commutes on the real code
    cases = gen_cases(rng.fork(), tier)
    gf = os.path.join(tmp, 'gen.txt')
    with open(gf, 'w') as fh:
        fh.write('\n'.join(case_line(c) for c in cases) + '\n')
    rc, cpp_out, err, dt = C.sh([exe, 'gen', gf], timeout=900)
    if rc != 0:
        return fail_harness('harness c18_sep gen failed', rc, err)
    rc2, mod_out, err2, dt = C.sh([drv, 'gen', gf], timeout=900)
    a, b = [l for l in cpp_out.split('\n') if l], [l for l in mod_out.split('\n') if l]
    hist = {'sat': 0, 'unsat': 0, 'tight_or_eq': 0}
    samples = []
    if len(a) != len(cases) or len(b) != len(cases):
        corr_diffs.append({'section': 'gen', 'what': 'line counts differ', 'harness': len(a), 'model': len(b), 'cases': len(cases),
                           'stderr': (err + err2)[-500:]})
    else:
        commute_bad = None
        for i, (x, y) in enumerate(zip(a, b)):
            evals += 1
            ym = y.rsplit(' | ', 1)
            h0, h1 = ym[1].split()
            # real satisfaction of the real constraints
            parts = x.split(' | ')[0]
            sat = all(seg.strip().endswith('none') or seg.strip().split()[-1] == '1' for seg in parts.replace('Y:', '|Y:').split('|') if seg.strip())
            hist['sat' if sat else 'unsat'] += 1
            if x != ym[0] and len(corr_diffs) < 5:
                d = case_txt(cases[i]); d.update({'section': 'gen', 'implementation': x, 'model': ym[0]})
                corr_diffs.append(d)
            if (sat != (h0 == '1')) and commute_bad is None:
                commute_bad = case_txt(cases[i])
                commute_bad.update({'what': 'transform_commutes fails on the real code: the original placement %s the original pair, but the '
                                            'transformed placement %s the constraints generated from the really transformed pair'
                                            % ('satisfies' if h0 == '1' else 'violates', 'satisfies' if sat else 'violates'),
                                    'real_constraints_after_transform': x,
                                    'replay': 'harness/c18_sep.cpp gen <file with the line below>', 'gen_line': case_line(cases[i])})
            if i % 997 == 0 and len(samples) < 6:
                d = case_txt(cases[i]); d['real'] = x; samples.append(d)
        if commute_bad:
            res.violation(commute_bad)
            prop_viol += 1
    cov['gen'] = {'cases': len(cases), 'histogram': hist}

    # ---- 3. SepMatrix op sequences: correspondence + flip_equiv on the real matrix
    seqs, n_exh, n_ext = gen_ops(rng.fork(), tier)
    corpus_ops = os.path.join(C.VERIF, 'corpus', 'c18_ops.json')
    n_corpus = 0
    if os.path.exists(corpus_ops):
        cs_ = json.load(open(corpus_ops))
        n_corpus = len(cs_)
        seqs = seqs + [e['ops'] for e in cs_]           # appended: the index ranges of the exhaustive families stay valid
    of, nf = os.path.join(tmp, 'ops.txt'), os.path.join(tmp, 'ops_norm.txt')
    write_ops(of, seqs)
    nseqs = [normalise_seq(s) for s in seqs]
    write_ops(nf, nseqs)
    rc, o_cpp, err, dt = C.sh([exe, 'ops', of], timeout=900)
    if rc != 0:
        return fail_harness('harness c18_sep ops failed', rc, err)
    rc, o_norm, err, dt = C.sh([exe, 'ops', nf], timeout=900)
    rc, o_mod, err, dt = C.sh([drv, 'ops', of, '1'], timeout=900)
    rc, o_old, err, dt = C.sh([drv, 'ops', of, '0'], timeout=900)
    L = lambda t: [l for l in t.split('\n') if l]
    pc, k1 = split_outputs(L(o_cpp), seqs)
    pn, k2 = split_outputs(L(o_norm), nseqs)
    pm, k3 = split_outputs(L(o_mod), seqs)
    po, k4 = split_outputs(L(o_old), seqs)
    if not (k1 == len(L(o_cpp)) and k3 == len(L(o_mod)) and k2 == len(L(o_norm))):
        corr_diffs.append({'section': 'ops', 'what': 'unexpected number of output lines', 'harness': len(L(o_cpp)), 'expected': k1,
                           'model': len(L(o_mod))})
    OPFMT = ('A id1 id2 gapType(0=CENTRE,1=BDRY) dir(%s) sepType(0=NONE,1=EQ,2=INEQ) gap*4 with sign bit = addSep; F id1 id2 dx dy = '
             'addFixedRelativeSep(id1,id2,dx,dy); P id1 id2 = addFixedRelativeSep(id1,id2) (present offset); O id1 id2 card = setCardinalOP; '
             'h/v = hAlign/vAlign; E id1 id2 dim = alignByEquatedCoord; R = free; Z = clear; S = setSepPair; M node x*4 y*4 = Node::setCentre; '
             'X = setExtraBdryGap*4; T t / TC t mask / TO t mask = transform / transformClosedSubset / transformOpenSubset; RN / RM mask = '
             'removeNode(s); U = roundGapsUpward; K mask = setCorrespondingConstraints into a graph with the nodes of mask; '
             'C/H/V = getCardinalDir/areHAligned/areVAligned; Q = which stored records the present placement satisfies (real generated '
             'constraints); D = dump (lo hi xgt ygt xst yst xgap*4 ygap*4 ... e extraBdryGap*4); three nodes 0,1,2 with increasing ids'
             % ','.join(SD))
    REPLAY = 'printf "N\\n<ops, one per line>\\n" > f; <c18_sep harness> ops f'
    flip_bad, frozen_bad, stale_like = None, None, 0
    # pass 1: textual comparison with the twin; differing dump lines of sequences that use the new (symmetric) requests are decided by the
    # verified equivalence checker sep_equivb (e.g. hAlign(b,a) stores -0.0 where hAlign(a,b) stores +0.0: same meaning)
    pending, questions = [], []
    for i, s in enumerate(seqs):
        evals += len(pc[i])
        if pc[i] != pn[i] and flip_bad is None:
            only_old = all(op.split()[0] in OLD_OPS for op in s)
            what = None
            qs = []
            if len(pc[i]) != len(pn[i]):
                what = 'different number of outputs'
            else:
                for x, y in zip(pc[i], pn[i]):
                    if x == y:
                        continue
                    if only_old or x[0] not in 'DK' or y[0] != x[0]:
                        what = 'outputs differ: %s / %s' % (x, y)
                        break
                    (px_, ex), (py_, ey) = parse_dump(x), parse_dump(y)
                    if set(px_) != set(py_) or ex != ey:
                        what = 'stored pairs differ: %s / %s' % (x, y)
                        break
                    qs += ['%s %s | %s | %s' % (ex, ey, px_[k_], py_[k_]) for k_ in sorted(px_) if px_[k_] != py_[k_]]
            if what is None and qs:
                pending.append((i, len(questions), len(qs)))
                questions += qs
            elif what:
                flip_bad = (i, what)
    if questions and flip_bad is None:
        qf = os.path.join(tmp, 'equiv.txt')
        open(qf, 'w').write('\n'.join(questions) + '\n')
        rc, o_eq, err, dt = C.sh([drv, 'equiv', qf], timeout=600)
        ans = L(o_eq)
        if len(ans) != len(questions):
            corr_diffs.append({'section': 'ops', 'what': 'equivalence checker did not answer every question', 'stderr': err[-500:]})
        else:
            for (i, a0, n0) in pending:
                if any(ans[a0 + t] != '1' for t in range(n0)):
                    t = [t for t in range(n0) if ans[a0 + t] != '1'][0]
                    flip_bad = (i, 'stored pairs are not equivalent (sep_equivb: some placement satisfies one and not the other): ' + questions[a0 + t])
                    break
    cov_equiv = len(questions)
    if flip_bad:
        i, what = flip_bad
        flip_bad = {'what': 'flip_equiv fails on the real SepMatrix: a request stated as (b,a) [direction / offsets negated where the request is '
                            'directed] is stored differently from the same request stated as (a,b): ' + what,
                    'ops': seqs[i], 'ops_normalised': nseqs[i], 'outputs': pc[i], 'outputs_normalised': pn[i],
                    'op_format': OPFMT, 'matches_old_stale_flag_model': pc[i] == po[i], 'model_outputs': pm[i], 'replay': REPLAY}
    for i, s in enumerate(seqs):
        if i < n_exh and len(pc[i]) >= 2 and flip_bad is None:
            c1, c2 = pc[i][-2], pc[i][-1]
            if c1[:2] == 'C ' and c2[:2] == 'C ' and {'E': 'W', 'W': 'E', 'S': 'N', 'N': 'S'}.get(c1[2], c1[2]) != c2[2]:
                flip_bad = {'what': 'getCardinalDir(b,a) is not the opposite of getCardinalDir(a,b) on the real SepMatrix',
                            'ops': s, 'results': pc[i], 'replay': REPLAY}
        # the position-based overload freezes the PRESENT offset: right after `P i j` the present placement satisfies the record of {i,j}
        # (decided by the really generated vpsc constraints, printed by Q)
        if frozen_bad is None:
            k = 0
            for t, op in enumerate(s):
                f = op.split()
                if f[0] == 'P' and f[1] != f[2] and t + 1 < len(s) and s[t + 1] == 'Q' and k < len(pc[i]):
                    key = '%d %d' % (min(int(f[1]), int(f[2])), max(int(f[1]), int(f[2])))
                    got = [seg for seg in pc[i][k].split(' | ')[1:] if seg.startswith(key + ' ')]
                    if pc[i][k][0] != 'Q' or not got or got[0].split()[2] != '1':
                        frozen_bad = {'what': 'addFixedRelativeSep(id1,id2) ("constrain two nodes to sit at their present exact separation") stored a '
                                              'record that the present placement does not satisfy',
                                      'ops': s, 'failing_op_index': t, 'outputs': pc[i], 'model_outputs': pm[i], 'op_format': OPFMT, 'replay': REPLAY}
                        break
                k += n_out(op)
        if pc[i] != pm[i]:
            if pc[i] == po[i]:
                stale_like += 1
            if len(corr_diffs) < 5:
                corr_diffs.append({'section': 'ops', 'ops': s, 'implementation': pc[i], 'model': pm[i],
                                   'matches_old_stale_flag_model': pc[i] == po[i]})
    if flip_bad:
        res.violation(flip_bad)
        prop_viol += 1
    if frozen_bad:
        res.violation(frozen_bad)
        prop_viol += 1
    opkinds = {}
    for s in seqs:
        for op in s:
            opkinds[op.split()[0]] = opkinds.get(op.split()[0], 0) + 1
    cov['ops'] = {'sequences': len(seqs), 'exhaustive_two_request_sequences': n_exh,
                  'two_request_sequences_over_all_mutator_overloads': n_ext - n_exh, 'random_sequences': len(seqs) - n_ext - n_corpus,
                  'corpus_sequences': n_corpus, 'ops_by_kind': opkinds, 'dump_pairs_decided_by_sep_equivb': cov_equiv,
                  'sequences_where_old_stale_flag_model_differs': sum(1 for i in range(len(seqs)) if pm[i] != po[i])}

    # ---- 3b. transformClosedSubset / transformOpenSubset on arbitrary sparse matrices (mode sub): the real result against the
    # declarative specification (extracted spec_open / spec_closed: AT LEAST ONE / BOTH nodes in the set - this decides VIOLATION)
    # and against the loop model SepSubsetModel.v (correspondence; proved equal to the specification on well-formed input)
    sub_cases, sub_exh, sub_mats = gen_subset(rng.fork(), tier)
    corpus_sub = os.path.join(C.VERIF, 'corpus', 'c18_subset.json')
    n_corpus_sub, sub_notes = 0, []
    if os.path.exists(corpus_sub):
        cs_ = json.load(open(corpus_sub))
        n_corpus_sub = len(cs_)
        sub_cases = [('corpus', e['case']) for e in cs_] + sub_cases          # the corpus runs first
        sub_notes = [e.get('note', '') for e in cs_]
    sf = os.path.join(tmp, 'sub.txt')
    with open(sf, 'w') as fh:
        fh.write('\n'.join(c[1] for c in sub_cases) + '\n')
    rc, s_cpp, err, dt = C.sh([exe, 'sub', sf], timeout=900)
    if rc != 0:
        return fail_harness('harness c18_sep sub failed', rc, err)
    rc, s_mod, err, dt = C.sh([drv, 'sub', sf], timeout=900)
    sa, sb = L(s_cpp), L(s_mod)
    subcov = {'cases': len(sub_cases), 'corpus_cases': n_corpus_sub, 'exhaustive_cases_5_ids_all_subsets_7_transforms_open_and_closed': sub_exh,
              'exhaustive_matrices': sub_mats, 'by_family': {}, 'open_ops': 0, 'closed_ops': 0,
              'open_cases_with_nonmonotone_partner_pattern': 0, 'cases_with_empty_rows': 0, 'cases_with_set_ids_foreign_to_the_matrix': 0,
              'cases_where_the_hoisted_iterator_model_differs_from_the_specification': 0, 'cases_where_something_is_transformed': 0,
              'cases_where_something_stays': 0}
    if len(sa) != len(sub_cases) or len(sb) != len(sub_cases):
        corr_diffs.append({'section': 'sub', 'what': 'line counts differ', 'harness': len(sa), 'model': len(sb), 'cases': len(sub_cases),
                           'stderr': err[-500:]})
    else:
        sub_fail = []
        for i, (fam, line) in enumerate(sub_cases):
            evals += 1
            f0 = fam.split(':')[0]
            subcov['by_family'][f0] = subcov['by_family'].get(f0, 0) + 1
            parts = sb[i].split(' # ')
            if len(parts) != 4 or not parts[0].startswith('M ') or not parts[1].startswith('S '):
                corr_diffs.append({'section': 'sub', 'what': 'model driver output malformed', 'case': line, 'model': sb[i]})
                continue
            M, S_, H, W = parts[0][2:], parts[1][2:], parts[2][2:], parts[3]
            rows, ops = sub_parse_case(line)
            for (kd, t, ids) in ops:
                subcov['open_ops' if kd == 'O' else 'closed_ops'] += 1
            if any(kd == 'O' and sub_nonmonotone(rows, ids) for (kd, t, ids) in ops[:1]):
                subcov['open_cases_with_nonmonotone_partner_pattern'] += 1
            if any(not r_ for r_ in rows.values()):
                subcov['cases_with_empty_rows'] += 1
            allids = set(rows) | set(j for r_ in rows.values() for j in r_)
            if any(x not in allids for (kd, t, ids) in ops for x in ids):
                subcov['cases_with_set_ids_foreign_to_the_matrix'] += 1
            if H != S_:
                subcov['cases_where_the_hoisted_iterator_model_differs_from_the_specification'] += 1
                hb = subcov.setdefault('hoisted_iterator_model_differs_by_family', {})
                hb[f0] = hb.get(f0, 0) + 1
            before = {(a, b): v for a, r_ in rows.items() for b, v in r_.items()}
            want, wkeys = sub_parse_dump(S_)
            if any(want.get(k_) != v for k_, v in before.items()):
                subcov['cases_where_something_is_transformed'] += 1
            if any(want.get(k_) == v for k_, v in before.items()):
                subcov['cases_where_something_stays'] += 1
            if W != 'W 1 1 1 1' and len(corr_diffs) < 5:
                corr_diffs.append({'section': 'sub', 'what': 'the generator produced an input outside the hypotheses of the theorems '
                                   '(keys_ascb rows_ascb upperb ascb)', 'case': line, 'wf': W})
            if sa[i] != S_:
                sub_fail.append((len(before) + sum(len(o[2]) for o in ops) + 10 * (len(ops) - 1), i))
            elif (sa[i] != M or M != S_) and len(corr_diffs) < 5:
                corr_diffs.append({'section': 'sub', 'case': line, 'implementation': sa[i], 'loop_model': M, 'specification': S_})
        sub_fail.sort()
        # the smallest failing corpus case (the corpus runs first) and the smallest failing case of the generator families
        report = [j for (_, j) in sub_fail if sub_cases[j][0] == 'corpus'][:1] + [j for (_, j) in sub_fail if sub_cases[j][0] != 'corpus'][:1]
        for i in report:
            fam, line = sub_cases[i]
            parts = sb[i].split(' # ')
            M, S_, H = parts[0][2:], parts[1][2:], parts[2][2:]
            rows, ops = sub_parse_case(line)
            got, gkeys = sub_parse_dump(sa[i])
            want, wkeys = sub_parse_dump(S_)
            before = {(a, b): v for a, r_ in rows.items() for b, v in r_.items()}
            wrong = []
            for k_ in sorted(set(got) | set(want)):
                if got.get(k_) != want.get(k_):
                    wrong.append({'pair': list(k_), 'in_set_per_op': [[k_[0] in o[2], k_[1] in o[2]] for o in ops], 'before': before.get(k_),
                                  'expected': want.get(k_), 'got': got.get(k_),
                                  'left_untransformed': got.get(k_) == before.get(k_)})
            kd, t, ids = ops[0]
            descr = ', '.join('(%d,%d) %s' % (w['pair'][0], w['pair'][1],
                                              'left untransformed' if w['left_untransformed'] else 'differs from the specification') for w in wrong[:4])
            res.violation({
                'what': 'SepMatrix::%s must transform exactly the pairs with %s in the given set and leave every other pair alone '
                        '(constraints.h:282-295; Coq C18_transform%sSubset_spec): %s(%s, {%s}) - pair %s%s'
                        % ('transformOpenSubset' if kd == 'O' else 'transformClosedSubset',
                           'AT LEAST ONE node' if kd == 'O' else 'BOTH nodes', 'Open' if kd == 'O' else 'Closed',
                           'transformOpenSubset' if kd == 'O' else 'transformClosedSubset', TF[t], ','.join(str(x) for x in sorted(ids)), descr,
                           '' if gkeys == wkeys else '; first ids of the map changed'),
                'family': fam, 'corpus_note': sub_notes[i] if i < len(sub_notes) else None, 'case': line, 'case_format': SUB_FORMAT, 'ops': [{'op': o[0], 'transform': TF[o[1]], 'set': sorted(o[2])} for o in ops],
                'wrong_pairs': wrong[:10], 'implementation': sa[i], 'specification': S_, 'loop_model_of_HEAD': M,
                'matches_model_with_hoisted_set_iterator': sa[i] == H,
                'failing_cases': len(sub_fail),
                'failing_cases_by_family': {f_: sum(1 for (_, j) in sub_fail if sub_cases[j][0].split(':')[0] == f_)
                                            for f_ in sorted(set(sub_cases[j][0].split(':')[0] for (_, j) in sub_fail))},
                'replay': 'echo "%s" | %s sub    (prints the stored pairs after the call; compare with `specification`)'
                          % (line, os.path.relpath(exe, C.VERIF))})
            prop_viol += 1
    cov['subset'] = subcov

    # ---- 4. TGLF round trip (V)
    graphs = gen_tglf(rng.fork(), tier)
    corpus_t = os.path.join(C.VERIF, 'corpus', 'c18_tglf.json')
    if os.path.exists(corpus_t):
        graphs = json.load(open(corpus_t)) + graphs
    tf_ = os.path.join(tmp, 'tglf.txt')
    with open(tf_, 'w') as fh:
        for g in graphs:
            fh.write('\n'.join(g['lines']) + '\n')
    rc, t_out, err, dt = C.sh([exe, 'tglf', tf_], timeout=900)
    if rc != 0:
        return fail_harness('harness c18_sep tglf failed (rc %d)' % rc, rc, err)
    tof = os.path.join(tmp, 'tglf_out.txt')
    open(tof, 'w').write(t_out)
    rc, t_chk, err, dt = C.sh([drv, 'tglfcheck', tof], timeout=900)
    verdict = {}
    for line in t_chk.split('\n'):
        f = line.split()
        if len(f) >= 3 and f[0] == 'case':
            verdict[int(f[1])] = f[2:]
    tcases = {}
    cur = None
    for line in t_out.split('\n'):
        if line.startswith('## case'):
            cur = []
            tcases[int(line.split()[2])] = cur
        elif cur is not None and line:
            cur.append(line)
    tg = {'graphs': len(graphs), 'rejected_coincide': 0, 'with_constraints': 0, 'pairs_checked': 0, 'sepco_lines': 0,
          'by_family': {}, 'by_id_relation': {}, 'generated_ids_written': 0}
    tglf_bad = None
    for k, g in enumerate(graphs):
        evals += 1
        ls = tcases.get(k, [])
        v = verdict.get(k, ['missing'])
        tg['by_family'][g['family']] = tg['by_family'].get(g['family'], 0) + 1
        if g['use_ext']:
            rel = tglf_id_relation(g)
            tg['by_id_relation'][rel] = tg['by_id_relation'].get(rel, 0) + 1

        def nodes_of(tag):
            out = []
            for l in ls:
                f = l.split()
                if f[0] == tag and f[1] == 'node':
                    out.append({'geom': ' '.join(f[2:7]), 'id': int(f[8]), 'ext': int(f[10])})
            return out
        An, Bn = nodes_of('A'), nodes_of('B')
        A = [x['geom'] for x in An] + sorted(l[2:] for l in ls if l.startswith('A edge'))
        B = [x['geom'] for x in Bn] + sorted(l[2:] for l in ls if l.startswith('B edge'))
        bad = None
        if any(l.startswith('CRASH') for l in ls):
            bad = 'the process crashed while writing / reading back the TGLF text'
        elif v[0] == 'threw':
            tg['rejected_coincide'] += 1
            if v[1] != 'coincide=1':
                bad = 'writeTglf threw although no pair is constrained to coincide'
        else:
            if any(l.startswith('A pair') for l in ls):
                tg['with_constraints'] += 1
            tg['sepco_lines'] += sum(1 for l in ls if l.startswith('T ') and len(l.split()) == 7)
            # the node section of the text must use pairwise distinct ids, the given external (or internal) ids where they exist
            written = []
            for l in ls:
                if l == 'T #':
                    break
                if l.startswith('T '):
                    written.append(int(l.split()[1]))
            want = [(x['ext'] if x['ext'] >= 0 else None) if g['use_ext'] else x['id'] for x in An]
            tg['generated_ids_written'] += sum(1 for w in want if w is None)
            if len(set(written)) != len(written):
                bad = 'two nodes were written with the same id: node section ids %s' % written
            elif len(written) != len(An) or any(w is not None and w != x for w, x in zip(want, written)):
                bad = 'a node was not written under its own id: wanted %s (None = to be generated), written %s' % (want, written)
            elif any(l.startswith('READ-THROWS') for l in ls):
                bad = 'reading the written text back threw: ' + [l for l in ls if l.startswith('READ-THROWS')][0]
            elif A != B:
                bad = 'nodes / edges / routes differ after the round trip'
            elif [x['ext'] for x in Bn] != written:
                bad = 'the graph read back does not carry the written ids as external ids'
            elif v[0] != 'pairs-equivalent':
                bad = 'separation pairs not equivalent after the round trip: ' + ' '.join(v)
            elif 'TEXT same' not in ls:
                bad = 'writing the re-read graph gives a different text'
            else:
                tg['pairs_checked'] += int(v[1])
        if bad and tglf_bad is None:
            tglf_bad = {'what': 'TGLF round trip: ' + bad, 'family': g['family'], 'graph_input': g['lines'], 'harness_dump': ls[:80],
                        'input_format': 'G useExternalIds firstInternalId; n ext(-1 = none) cx cy w h (x4); s skipped internal ids; '
                                        'e i j route...(x4) (i, j = node positions in this list); x extraBdryGap(x4); c i j gapType dir sepType gap',
                        'replay': '<c18_sep harness> tglf <file with these lines>'}
    if tglf_bad:
        res.violation(tglf_bad)
        prop_viol += 1
    cov['tglf'] = tg

    nontriv = hist['sat'] + tg['with_constraints'] + cov['ops']['sequences_where_old_stale_flag_model_differs']
    res.cov.update({'evaluations': evals, 'distinct_nontrivial': nontriv,
                    'rule': 'exhaustive over the 576 SepPair states x (7 transforms + 49 transform pairs + 192 addSep requests + queries); '
                            'non-trivial = placements that satisfy their pair (the other half violates it) + round-tripped graphs that carry '
                            'constraints + op sequences on which the stale-flag variant of the model would differ',
                    'exhaustive': True, 'samples': samples, 'traces_validated_against_impl': evals,
                    'input_distribution': cov, 'correspondence_disagreements': corr_diffs[:5],
                    'v_only': 'TGLF node/edge/route sections and the whole-graph round trip are validation by a verified pair-equivalence '
                              'checker (sep_equivb_sound) on real outputs, not proof of the reader/writer'})
    if prop_viol == 0 and (not info['ok'] or corr_diffs):
        res.violation({'what': 'proof obligation or model/implementation correspondence no longer checks; the property oracles '
                               '(transform_commutes on %d placements, group law on all states, flip_equiv on %d op sequences, %d TGLF round trips) '
                               'found no failing input' % (len(cases), len(seqs), len(graphs)),
                       'broken_files': info.get('broken'), 'broken_lemmas': info.get('broken_lemmas'), 'forbidden': info.get('forbidden'),
                       'correspondence_disagreements': corr_diffs[:5], 'coq_log_tail': info['log'][-3000:]}, no_input=True)
    import shutil
    shutil.rmtree(tmp, ignore_errors=True)
    return res.finish()


def replay(path):
    print(open(path).read())
    return 0


def warm():
    C.build_harness('c18_sep', LIBS, 'c18plain')
    C.ocaml_build('c18', 'C18.v', 'c18_driver.ml', 'c18_model.ml')


META = {
    'property_id': PID,
    'level_claimed': {
        'category': 'proof',
        'text': 'Coq theorems over a hand model of dialect::SepPair / SepMatrix with IEEE signed-zero gaps (sign bit + non-negative rational '
                'magnitude), all symbolic in gaps, coordinates, sizes and the extra boundary gap: transform_commutes (placement satisfies pair '
                'iff transformed placement, sizes swapped for axis-swapping transforms, satisfies transformed pair; all 7 transforms, all kinds, '
                'both zeros, negative gaps), transform_group (the action on all six fields incl. sign bits is a group action of D4, product = '
                '2x2 matrix product; four quarter turns / double flips = identity), flip_equiv (storing c under (a,b) and the negated c under '
                '(b,a) leave identical stored pairs for any prior matrix; refuted for the pre-88a99a7 stale-flag getSepPair; the same for '
                'addFixedRelativeSep(a,b,dx,dy) and setCardinalOP; for the symmetric requests hAlign / vAlign / alignByEquatedCoord and the '
                'position-based addFixedRelativeSep(a,b) the two id orders store records that mean the same for every placement '
                '(align_flip_equiv, fixed_pos_flip_equiv) and the latter holds for the present placement (fixed_pos_frozen); free_sym), '
                'getCardinalDir_flip, addSep_meaning, gen_constraint_sound (generated vpsc constraint <-> boundary-based meaning, both dims, '
                'BDRY adds half extents + extra gap), tglf_sep_roundtrip at token level (write_sep then read_sep keeps the meaning, also with '
                'the reader\'s ids reversed) and tglf_rejected_iff (exactly the coinciding pairs are rejected). Tie: exhaustive correspondence '
                'of the model with the compiled library on every run (576 states x 7 transforms / 49 pairs / 192 requests, SepMatrix op '
                'sequences over every public mutator overload, generated constraints) plus the property oracles run on the real outputs '
                '(incl. TGLF round trips in both id modes over graphs mixing nodes with and without external ids). '
                'Subset transforms (Dialect/SepSubsetModel.v + SepSubset.v): the merge loops of SepMatrix::transformClosedSubset / '
                'transformOpenSubset are modelled statement by statement on the two-level sorted map (outer/inner two-pointer scans, '
                'out_of_set, part (a)/(b), per-row rewind of the set iterator) and proved equal to the declarative specification for ALL '
                'matrices, id sets and payload actions: C18_transformOpenSubset_spec (cell (i,j) transformed iff AT LEAST ONE of i, j is in '
                'the set - constraints.h:289-295, not exactly one; every other cell, the keys and their order unchanged) and '
                'C18_transformClosedSubset_spec (iff BOTH), under the container invariants keys_ascb / rows_ascb / ascb ids (std::map, '
                'std::set) and upperb (second id > first id) for the closed variant only (C18_transformClosedSubset_lower_triangle_refuted '
                'shows it is needed); C18_transform{Open,Closed}Subset_flat connect the loops to the record-list model of the op-sequence '
                'correspondence; C18_transformOpenSubset_hoisted_refuted: the variant with the set iterator shared by the rows of the second '
                'pass violates the specification on a well-formed matrix for every transform. Tie: harness mode sub (arbitrary sparse '
                'matrices through setSepPair / free, raw ids, Graph::transform{Open,Closed}Subset) against the extracted specification '
                '(decides VIOLATION) and the extracted loop model: exhaustive over 5 ids (fixed + random matrices x all 32 subsets x 7 '
                'transforms x open/closed) and random larger matrices in ascending / non-monotone partner patterns.',
        'design_ref': 'DESIGN.md 5.18'},
    'level_note': 'SepPair::transform could not be obtained through cpp2v (no switch / std::swap in its fragment, double->Q loses the sign bit): '
                  'it is hand-modelled and tied by the exhaustive field-by-field correspondence instead. Trusted: Coq kernel; the hand model '
                  '(SepPairModel.v) as far as not covered by the exhaustive sweep (gap magnitudes other than 0, 2 are covered only by the random '
                  'placements); extraction + OCaml/C++ drivers; exact-rational model of binary64 on multiples of 0.25. Assumed, not proved '
                  '(Section hypotheses of tglf_sep_roundtrip): parse_fmt = "%.3f" then operator>> returns the written non-negative value with a '
                  'clear sign bit, parse_zero = "0" reads as +0.0. V-only (verified checker sep_equivb_sound on real outputs, not a proof of the '
                  'code): Graph::writeTglf -> buildGraphFromTglf on random graphs incl. node/edge/route sections. Not covered: extraBdryGap < 0 '
                  '(the writer would print a negative number and the reader would reverse the direction); Graph::rotate90cw itself does not '
                  'swap node dimensions (documented in graphs.cpp), so for non-square nodes with BDRY gaps it preserves satisfaction only '
                  'after the following destress. Subset transforms: the model is a sorted association list per std::map level and '
                  'rebuilds the payloads; two cells of one matrix sharing ONE SepPair object (possible only by handing the same shared '
                  'pointer to setSepPair twice) are outside the model; m_sparseLookup[i] in the second pass never inserts (pass1_out_keys). '
                  'The hypotheses keys_ascb/rows_ascb/upperb/ascb are evaluated by the extracted deciders on every generated input '
                  '(W flags) and the first ids of the real map are compared after every call.',
    'technique': 'Coq proof over a hand-written Gallina model + exhaustive finite correspondence with the compiled C++ + verified checkers on real outputs',
}
