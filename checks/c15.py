"""C15 - no memory error / UB / failed assertion / leak on valid use (DESIGN 5.15, 9.3, 9.12).
What is decided by proof is the *protocol* part: the ownership / queued-action model of Avoid::Router
(coq/theories/Avoid/LifecycleModel.v: core model = shapes, junctions, connectors, the action queue; second layer = the
checkpoint VertInfs a connector owns, op XSetCP = ConnRef::setRoutingCheckpoints) never dereferences a freed object, frees
nothing twice and releases everything at destruction, for all op sequences (Avoid/Lifecycle.v, Avoid/LifecycleCP.v).
Third layer (Avoid/LifecyclePinModel.v, LifecyclePin.v): connection pins as heap objects owned by their shape / junction (ops N = new
ShapeConnectionPin, XN = delete pin): a pin in a set is allocated and its owner is allocated, no pin is in two sets, every allocated pin
is in a set, ~Obstacle / delete pin / ~Router free each pin once and leave none.
The tie is a correspondence: legal API histories (ops R S J C E M D DJ X K I N XN T Q, see harness/c15_life.cpp) are replayed on
the real Router (ASan+UBSan+LSan, assertions as exceptions) and on the extracted model; the observable ownership state (scene
objects, connectors, queued actions, checkpoint vertices per connector in the router's vertex list, size of every active obstacle's pin
set, number of pin vertices in the router's vertex list) must agree after every
call, and the sanitizers must stay silent.
Everything else is SAMPLED, not proved: checks/c15sweep.py runs the harnesses of the other properties (libvpsc rectangles and
both solvers, libavoid's solver copy, libcola compound constraints / layouts / clusters / shortest paths, libtopology,
libdialect SepMatrix / TGLF / peel / trees / planarise / doHOLA), built with the sanitizers, on a modest option-covering
sample of the inputs that the other checks' generators produce, one process per input."""
import os, re, json, collections
from concurrent.futures import ThreadPoolExecutor
from vlib import common as C
from checks.c15gen import gen_history, gen_cp_history, gen_pin_history
from checks import c15sweep as S

PID = 'C15'
ASAN_ENV = {'ASAN_OPTIONS': 'detect_leaks=1:halt_on_error=1', 'UBSAN_OPTIONS': 'print_stacktrace=1:halt_on_error=0'}


def fingerprint(rc, out, err):
    """classify an implementation-side failure by kind + innermost library frame / assertion site"""
    if rc == 0 and 'runtime error' not in err and 'ERROR' not in err:
        return None
    a = re.search(r'expression: ([^\n]*)\n\s*at line (\d+) of ([^\n]*)', out)
    if a:
        return 'assert:%s:%s' % (os.path.basename(a.group(3).strip()), a.group(1).strip()[:60].replace(' ', '_'))
    m = re.search(r'ERROR: (\w+Sanitizer): ([\w-]+)', err)
    if m and m.group(1) != 'LeakSanitizer':
        kind = m.group(2)
        fr = re.search(r'#\d+ 0x[0-9a-f]+ in ((?:Avoid|vpsc|cola|topology|dialect)::[\w:~]+)[^\n]* /repo[^\n]*/(\w+\.(?:cpp|h)):', err)
        if not fr:
            fr = re.search(r'#\d+ 0x[0-9a-f]+ in ((?:Avoid|vpsc|cola|topology|dialect)::[\w:~]+)[^\n]*/(\w+\.(?:cpp|h)):', err)
        return '%s:%s:%s' % (kind, fr.group(2) if fr else '?', fr.group(1) if fr else '?')
    if 'LeakSanitizer' in err or 'leaked in' in err:
        fr = re.search(r'#\d+ 0x[0-9a-f]+ in ((?:Avoid|vpsc|cola|topology|dialect)::[\w:~]+)[^\n]*/(\w+\.(?:cpp|h)):', err)
        return 'leak:%s:%s' % (fr.group(2) if fr else '?', fr.group(1) if fr else '?')
    u = re.search(r'(\w+\.(?:cpp|h)):\d+:\d+: runtime error: ([^\n]*)', err)
    if u:
        return 'ub:%s:%s' % (u.group(1), re.sub(r'0x[0-9a-f]+|\d+', 'N', u.group(2))[:60].replace(' ', '_'))
    if 'terminate called' in err:
        return 'terminate:' + (re.search(r"instance of '([^']*)'", err).group(1) if re.search(r"instance of '([^']*)'", err) else '?')
    return 'rc=%d' % rc


def refine_life(fp, h, out):
    """classifier predicates on the failing lifecycle history: narrows a raw fingerprint to the circumstances of a known root cause"""
    if fp == 'SEGV:connend.cpp:Avoid::ConnEnd::assignPinVisibilityTo' and h and h[0].split()[-1] == '0':
        # transactions off: the op that crashed (first op without a state line) is `new ShapeConnectionPin` on a shape, and some
        # connector end was attached to that shape and pin class before
        done = sum(1 for l in out.split('\n') if ' | ' in l)
        if done < len(h) and h[done].startswith('N '):
            t = h[done].split()
            if any(re.search(r'\bS %s %s\b' % (t[1], t[3]), l) for l in h[:done] if l[0] in 'CE'):
                return 'pin_ctor_immediate_mode_routes_before_vertex'
    return fp


def known_elsewhere(res, fp, unit=None):
    """assertion sites (and crashes) that are already KNOWN-FINDINGs of the property that owns the code path are recognised by their
    existing fingerprints: `assert:<file>:<expr or a prefix>` recorded under another property, with or without C14's `exception:` prefix,
    any other fingerprint by equality (classifier names produced by c15sweep.refine) and - for doHOLA runs only - C14's blanket
    `exception:assert` (rate-bounded in c15sweep.sweep).  Returns the known-finding record or None; a finding of C15 itself is not looked up here."""
    for k in res.known:
        if k['property'] == PID:
            continue
        kf = k['fingerprint']
        site = kf[len('exception:'):] if kf.startswith('exception:') else kf
        if site.startswith('assert:') and site.count(':') >= 2 and len(site.split(':', 2)[2]) >= 4 and fp.startswith(site):
            return k
        if kf == fp or fp.startswith(kf + ':'):
            return k
    if unit == 'dialect.hola' and fp.startswith('assert:'):
        return next((k for k in res.known if k['property'] == 'C14' and k['fingerprint'] == 'exception:assert'), None)
    return None


def emit(res, reports):
    """VIOLATION lines first, KNOWN-FINDING lines after them (tools print only the head of the output)"""
    known_own, known_other, unknown = [], [], []
    for obj, fp, unit, no_input in reports:
        if fp and res.known_fingerprint(fp):
            known_own.append((obj, fp))
        elif fp and known_elsewhere(res, fp, unit):
            known_other.append((fp, known_elsewhere(res, fp, unit)))
        else:
            unknown.append((obj, fp, no_input))
    for obj, fp, no_input in unknown:
        res.violation(obj, fingerprint=fp, no_input=no_input)

    def known_lines():
        for obj, fp in known_own:
            res.violation(obj, fingerprint=fp)
        done = set()
        for fp, hit in known_other:
            if fp in done:
                continue
            done.add(fp)
            res.known_hits.append((fp, 'recorded under %s: %s' % (hit['property'], hit['text'])))
            print('KNOWN-FINDING: property=%s (recorded under %s, fingerprint %s) %s [%s]' % (PID, hit['property'], hit['fingerprint'], hit['text'][:300], fp), flush=True)
    return known_lines


def corpus():
    hs = []
    p = os.path.join(C.VERIF, 'corpus', 'c15_histories.txt')
    if os.path.exists(p):
        for line in open(p):
            line = line.strip()
            if line and not line.startswith('#'):
                hs.append(line.split(';'))
    return hs


def directed(rng):
    """histories aimed at the case splits of the protocol proof: delete with a queued endpoint change on the
    deleted object, destroy with a non-empty queue, moves of shapes with followers, all with transactions on/off"""
    out = []
    for tr in (1, 0):
        for orth in (0, 1):
            out.append(['R %d %d' % (orth, tr), 'S 1 0 0 30 30 2', 'S 2 200 0 30 30 1', 'T', 'C 10 S 1 2 S 2 1', 'D 1', 'T', 'Q'])
            out.append(['R %d %d' % (orth, tr), 'S 1 0 0 30 30 2', 'S 2 200 0 30 30 1', 'T', 'C 10 S 1 1 P 300 300', 'T',
                        'E 10 1 S 2 1', 'M 2 5 5', 'D 2', 'T', 'X 10', 'Q'])
            out.append(['R %d %d' % (orth, tr), 'S 1 0 0 30 30 2', 'J 5 200 200', 'T', 'C 10 S 1 1 J 5', 'C 11 J 5 P 300 10',
                        'C 12 J 5 P 10 300', 'T', 'M 1 7 7', 'DJ 5', 'T', 'Q'])
            out.append(['R %d %d' % (orth, tr), 'S 1 0 0 30 30 1', 'S 2 100 100 30 30 1', 'C 10 S 1 1 S 2 1', 'Q'])
            out.append(['R %d %d' % (orth, tr), 'S 1 0 0 30 30 1', 'T', 'S 2 100 100 30 30 1', 'C 10 S 1 1 P 5 300', 'M 1 3 3', 'X 10', 'Q'])
            # setRoutingCheckpoints: set, reroute, replace with fewer / more / none, reroute, delete connector / router
            base = ['R %d %d' % (orth, tr), 'S 1 0 100 30 30 1', 'S 2 300 100 30 30 1', 'S 3 150 90 40 50 1', 'T', 'C 10 S 1 1 S 2 1', 'T']
            out.append(base + ['K 10 2 120 60 220 60', 'M 3 2 2', 'T', 'K 10 1 170 200', 'I 10', 'M 3 -2 -2', 'T', 'Q'])
            out.append(base + ['K 10 1 170 60', 'I 10', 'M 3 1 1', 'T', 'K 10 3 120 200 170 220 220 200', 'I 10', 'M 3 1 1', 'T', 'X 10', 'T', 'Q'])
            out.append(base + ['K 10 2 120 60 220 60', 'K 10 0', 'I 10', 'M 3 1 1', 'T', 'Q'])
            out.append(base + ['K 10 1 170 60', 'K 10 1 170 200', 'X 10', 'Q'])
            out.append(['R %d %d' % (orth, tr), 'C 10 P 0 0 P 300 0', 'K 10 1 150 50', 'K 10 0', 'X 10', 'Q'])
            # first-class pins: two ports of one class on one side (same x, different y) / same y, different x / same position, different
            # directions; route; destroy - or delete second then first, reroute, delete the shape; pins on a junction
            two = ['R %d %d' % (orth, tr), 'S 1 200 100 100 100 1', 'S 2 20 300 60 60 1']
            for pa, pb in (('7 0 0.25 4 1', '7 0 0.75 4 1'), ('7 0.25 1 2 1', '7 0.75 1 2 1'), ('7 0 0.5 4 0', '7 0 0.5 1 0')):
                mk = two + ['N 1 201 ' + pa, 'N 1 202 ' + pb, 'C 10 S 1 7 P 50 120', 'T']
                out.append(mk + ['Q'])
                out.append(mk + ['XN 202', 'T', 'D 1', 'T', 'Q'])
                out.append(mk + ['C 11 S 2 1 S 1 7', 'T', 'XN 202', 'XN 201', 'T', 'M 1 5 5', 'T', 'Q'])
            out.append(['R %d %d' % (orth, tr), 'S 1 0 0 30 30 1', 'J 5 200 200', 'N 5 201 7 0 0 4 1', 'N 5 202 7 0 0 8 1', 'T', 'C 10 S 1 1 J 5', 'T',
                        'XN 201', 'T', 'DJ 5', 'T', 'Q'])
    return out


def run(tier):
    res = C.Result(PID, tier, 'other')
    info = C.prove(res, PID)
    n = 160 if tier == 'quick' else 1500
    rng = C.SplitMix64(res.seed)
    hs = corpus() + directed(rng) + [gen_cp_history(rng.fork()) for _ in range(n // 3)] + [gen_pin_history(rng.fork()) for _ in range(n // 2)] + \
        [gen_history(rng.fork()) for _ in range(n)]
    exe = C.build_harness('c15_life', ['libavoid'], 'asan-exc')
    drv = C.ocaml_build('c15', 'C15.v', 'c15_driver.ml', 'c15_model.ml')

    def run_impl(h):
        rc, out, err, dt = C.sh([exe], input='\n'.join(h) + '\n', env=ASAN_ENV, timeout=120)
        return rc, out, err
    with ThreadPoolExecutor(C.NPROC) as ex:
        impl = list(ex.map(run_impl, hs))
    rc, mout, merr, dt = C.sh([drv, '1', '1'], input='\n====\n'.join('\n'.join(h) for h in hs) + '\n', timeout=600)
    if rc != 0:
        res.violation({'what': 'model driver failed', 'stderr': merr[-2000:]}, no_input=True)
        return res.finish()
    mchunks, cur = [], []
    for line in mout.split('\n'):
        if line.startswith('END '):
            mchunks.append((cur, line))
            cur = []
        elif line:
            cur.append(line)
    opkinds = collections.Counter()
    disagreements, san_fail, model_bad = [], 0, 0
    seen_fp = {}
    reports = []
    calls = 0
    distinct = set()
    for h, (rc, out, err), (mlines, mend) in zip(hs, impl, mchunks):
        for l in h:
            opkinds[l.split()[0]] += 1
        calls += len(h)
        distinct.add(tuple(l.split()[0] for l in h))
        fp = fingerprint(rc, out, err)
        if fp:
            fp = refine_life(fp, h, out)
        ilines = [l for l in out.split('\n') if l and not l.startswith(('ASSERT', 'ERROR', ' ', 'EXCEPTION'))]
        if fp:
            san_fail += 1
            if fp in seen_fp:
                seen_fp[fp] += 1
                continue
            seen_fp[fp] = 1
            rep = '\n'.join(l for l in err.split('\n') if re.match(r'\s+#[0-6] ', l) or 'SUMMARY' in l or 'ERROR' in l)[:2500]
            reports.append(({'what': 'sanitizer / assertion report on a legal API history', 'history': h, 'report': rep,
                             'assert': out[-400:] if 'ASSERT' in out else None,
                             'replay': 'printf "%%s\\n" ... | %s  (build/bin/c15_life-asan-exc-*)' % os.path.basename(exe)}, fp, 'avoid.lifecycle', False))
            continue
        m_illegal = int(mend.split('illegal')[1])
        if 'bad |' not in mend.replace('bad  |', 'bad |') and not re.search(r'bad \|', mend):
            model_bad += 1
        if m_illegal:
            disagreements.append({'history': h, 'what': 'generator produced an op the model calls illegal', 'model_end': mend})
        elif ilines != mlines:
            k = next((i for i, (a, b) in enumerate(zip(ilines, mlines)) if a != b), min(len(ilines), len(mlines)))
            disagreements.append({'history': h, 'first_difference_at_op': k,
                                  'implementation': ilines[k] if k < len(ilines) else None,
                                  'model': mlines[k] if k < len(mlines) else None})
        if not re.match(r'END bad \| leaked \| illegal', mend):
            disagreements.append({'history': h, 'what': 'model predicts a use-after-free or a leak that the sanitizers did not report', 'model_end': mend})
    # ---- second part: the other libraries under the sanitizers, through the other properties' harnesses and generators
    t_sw = __import__('time').time()
    sweep_cov = S.sweep(res, tier, rng.fork(), reports)
    sweep_cov['wall_s'] = round(__import__('time').time() - t_sw, 1)
    n_sw = sum(u['inputs'] for u in sweep_cov['units'].values())
    res.cov['library_sweep'] = sweep_cov
    res.cov.update({
        'explanation': 'Proof covers the ownership/queued-action protocol model of Avoid::Router only (no use after free of a queued '
                       'pointer, nothing freed twice, everything released at destruction, for all op sequences); heap safety of the C++ '
                       'itself is not provable here and is sampled: %d legal API histories (%d calls) replayed on the real Router under '
                       'ASan+UBSan+LSan with assertions on, and on the extracted model; ownership state (objects, queue, live checkpoint '
                       'vertices per connector) compared after every call.  The other libraries (libvpsc, libcola, libtopology, libdialect, '
                       'libavoid\'s solver copy) are sampled only: %d inputs of the other properties\' generators run through their harnesses '
                       'under ASan+UBSan+LSan, one process per input (coverage.library_sweep).' % (len(hs), calls, n_sw),
        'evaluations': len(hs) + n_sw, 'distinct_nontrivial': len(distinct) + sweep_cov.get('distinct_inputs', 0),
        'rule': 'histories = corpus of minimised past failures + directed histories (delete with queued endpoint change, destroy with pending queue, '
                'moves with followers, setRoutingCheckpoints set / replace with fewer, more, none / delete; transactions on and off, both routing modes) '
                '+ checkpoint-directed random histories + random legal histories from VERIF_SEED; distinct = distinct op-kind sequences of the lifecycle '
                'histories + number of distinct (unit, argv, input text) sweep inputs',
        'samples': [hs[0], hs[len(hs) // 2], hs[-1]] + [{k: x[k] for k in ('unit', 'label', 'argv', 'stdin', 'options')} for x in sweep_cov.get('samples', [])],
        'traces_validated_against_impl': len(hs) - len(disagreements) - san_fail,
        'op_histogram': dict(opkinds), 'sanitizer_failures': san_fail, 'failure_fingerprints': seen_fp, 'model_disagreements': len(disagreements)})
    res.assumptions = ['ASan/UBSan/LSan observe the run-time part (they are the implementation-side observation for freed/dangling/leaked)',
                       'junctions and shapes are both "obstacles" in the model; connection-pin change markers are not modelled (never dereferenced)']
    known_lines = emit(res, reports)
    if disagreements:
        res.violation({'what': 'protocol model and implementation disagree on the ownership state; the sanitizers reported nothing on that history',
                       'correspondence': disagreements[:3], 'n': len(disagreements)}, no_input=True)
    elif not info['ok']:
        res.violation({'what': 'proof obligations of the protocol model no longer check', 'broken_lemmas': info.get('broken_lemmas'),
                       'broken_files': info.get('broken'), 'forbidden': info.get('forbidden'), 'coq_log_tail': info['log'][-2000:]}, no_input=True)
    known_lines()
    return res.finish()


def warm():
    C.build_harness('c15_life', ['libavoid'], 'asan-exc')
    C.ocaml_build('c15', 'C15.v', 'c15_driver.ml', 'c15_model.ml')
    S.build_all()


def replay(path):
    r = json.load(open(path))
    print(json.dumps(r, indent=1))
    if 'history' in r:
        exe = C.build_harness('c15_life', ['libavoid'], 'asan-exc')
        rc, out, err, dt = C.sh([exe], input='\n'.join(r['history']) + '\n', env=ASAN_ENV)
        print(out, err[-3000:])
        return 1 if fingerprint(rc, out, err) else 0
    if 'unit' in r and 'stdin' in r:
        # a sweep input: rebuild the unit's harness through its generator function (one throw-away input) and feed the recorded stdin
        f = S.UNITS[r['unit']][0]
        exe = f(C.SplitMix64(1), 1)[0].exe
        rc, out, err, dt = C.sh([exe] + r['argv'], input=r['stdin'], env=S.SAN_ENV, timeout=600)
        print(out[-2000:], err[-4000:])
        return 1 if S.fingerprints(rc, out, err) else 0
    return 0


META = {
    'property_id': PID,
    'level_claimed': {
        'category': 'other',
        'text': 'PROVED (Coq, all op sequences, both transaction modes, both routing modes) about the hand-written ownership protocol model of '
                'Avoid::Router only: (core) no queued pointer - action object, queued connector-end copy, attached follower - is dereferenced '
                'after its object was freed, nothing is freed twice, every queued object / end / follower is allocated, the heap has no '
                'duplicates and is disjoint from the free history, ~Router releases everything; (checkpoint layer, op XSetCP = '
                'setRoutingCheckpoints modelled as "free all old vertices, clear the list, allocate k new") every entry of a connector\'s '
                'checkpoint-vertex list is an allocated vertex of an allocated connector, no vertex is in two lists or twice in one, every '
                'allocated vertex is in some list, vertex ids are fresh, set / replace / clear / reroute / ~ConnRef / ~Router never touch a freed '
                'vertex and ~Router leaves no vertex allocated; (connection-pin layer, ops PNewPin = new ShapeConnectionPin on a shape or junction, '
                'PDelPin = delete pin; ~Obstacle deletes the pins in its set) every entry of a pin set is an allocated pin of an allocated owner, no '
                'pin is in two sets, every allocated pin is in a set (so allocated pins = pin vertices in the router\'s list = sum of the set sizes), '
                'no pin is dereferenced or freed after it was freed, ~Router leaves no pin allocated. The code variants before the F-k / F-l repairs and the variant of '
                'setRoutingCheckpoints that keeps the freed vertices in the list, and the variant in which a second pin of an owner is not inserted '
                'into the owner\'s set (C15_second_pin_not_owned_refuted: it is still allocated after ~Router) are refuted by computed witnesses. '
                'The model is tied to the code by correspondence (ownership state incl. checkpoint vertices per connector, size of every active '
                'obstacle\'s pin set and the number of pin vertices after every API call, model vs real Router). '
                'SAMPLED, not proved: heap safety, UB, assertions and leaks of the C++ of all five libraries - legal libavoid lifecycle '
                'histories and, for libvpsc / libcola / libtopology / libdialect / libavoid\'s solver copy, inputs from the other properties\' '
                'generators through their harnesses, all under ASan+UBSan+LSan, one process per input.',
        'design_ref': 'DESIGN.md 5.15, 9.3, 9.12, 9.21'},
    'level_note': 'Trusted: Coq kernel; extraction; the hand-written model LifecycleModel.v (libavoid Router only; rerouting is over-approximated as '
                  '"every active connector dereferences all its checkpoint vertices whenever a transaction did something"); sanitizer runtime as the '
                  'observer of freed/dangling/leaked memory; generator domain = documented preconditions (no add+delete of one object in one '
                  'transaction, no use of an object after its delete call, no connector from a junction to itself - also not via setEndpoint; pins: '
                  'no two pins of one owner that agree in class, directions, both offsets and inside offset (the set order calls them equivalent), '
                  'no `delete pin` after the owner was handed to deleteShape / deleteJunction, no connector with both ends on one shape when an '
                  'explicit pin class is involved; proportional offsets only, no setConnectionCost, no shape resize). The pin ops leave the core and '
                  'checkpoint state unchanged in the model (the processTransaction they trigger outside transactions finds an empty core queue; the '
                  'ConnectionPinChange markers are not modelled); ConnEnd::freeActivePin (detaching connector ends from a deleted pin) is not modelled '
                  'as state - the end stays a follower of the shape - so "a deleted pin is never used again by a connector end" is observed by the '
                  'sanitizers only. The harness drops its own handles at `Q`, so that whatever ~Router failed to free is unreachable and LSan reports it. '
                  'Library sweep (checks/c15sweep.py): no model, no proof; units vpsc.rect (removeoverlaps thirdPass false/true, fixed sets, '
                  'generateX/YConstraints), vpsc.solver (IncSolver + static Solver, histories, object re-use), avoid.vpsc, cola.cc (all compound '
                  'constraints, FD and majorization layouts, every run-axis mode, object re-use), cola.nonoverlap (clusters), cola.paths, topology, '
                  'topology.cycle (harness/c15_topo_cycle.cpp: cyclic cluster-boundary edges built by the client or by makeFeasible() for ConvexClusters, '
                  'used in a layout, freed by the client or by freeAssociatedObjects(); open-edge control), '
                  'dialect.sep, dialect.peel, dialect.tree, dialect.plan, dialect.hola. Limits: harness modes that fork and _exit (c13 scenes, c18 tglf, '
                  'c19 planarise) cannot show leaks; c13 layout mode runs with leak detection off (the harness does not free its scene); c20_layout '
                  'is not used (it replaces operator new); libtopology self-check assertions in the scene / layout modes are left to C13\'s classifiers '
                  '(counted and bounded at 1/8 of the inputs); assertion sites already recorded as known findings of C10 / C11 / C14 are recognised '
                  'by those fingerprints (doHOLA assertions by C14\'s blanket finding, bounded at 1/12 of the runs); leak fingerprints are '
                  '"leak:<file>:<innermost library function>" per directly leaked allocation site, narrowed by a classifier where the same site '
                  'could leak for another reason. Termination is only observed through timeouts. Uninitialised reads are observed only as far as '
                  'UBSan sees them (invalid bool / enum loads); there is no MemorySanitizer run.',
    'technique': 'Coq invariant proof over a protocol model + model/implementation correspondence under sanitizers + sanitizer sweep over the other '
                 'properties\' harnesses and generators',
}
