"""C06 - libavoid: incremental transactions give what routing from scratch gives (DESIGN 5.6).
proof: Properties/C06.v (the action queue of router.cpp as a state machine: queue consolidation refines applying the
edits one at a time, at most one queued action per (kind, object), an empty transaction is the identity, the model's routes
depend only on the final scene; the reflection estimate of the selective-reroute test is a lower bound).
tie: C, three-way.  Random legal histories run on ONE Avoid::Router (transactions on and off, polyline and orthogonal);
after every processTransaction(): actionList is empty and the router's shapes / connector ends equal the extracted queue
model's scene; every displayRoute passes the extracted route_ok on the current scene; its cost equals that of a FRESH router
on the same scene and (polyline) the extracted reference router's optimum, to 1e-6; an empty transaction returns false and
leaves every displayRoute bit-identical.  A failing route whose offending raw segments are all degenerate chords is the
known finding F-b; every other disagreement is a violation (DESIGN 6 F-g - stale routes after a shape moves away - is one).
Third round (DESIGN 9.10): "pocket" family = unroutable, then routable (one connector end in a pocket of 3-4 overlapping walls; a later transaction opens it);
a step at which the exact reference router finds NO obstacle-free path is not judged by route_ok but the placeholder route must equal the fresh router's; the
degenerate-chord classifier additionally requires that the proved per-shape blocking test does not block the chord (avoid_lib.chords_unblocked).
Router options (seeded change C04-6, DESIGN 9.16; checks/avoid_opts.py): configs opt-* run the directed family "unblock" (the obstacle blocking a connector's own
src-dst line is deleted / moved away / shrunk, blocked again, freed again; bystander obstacles) and move-heavy histories under the public Router flags
InvisibilityGrph / UseLeesAlgorithm (all combinations); the fresh router of every step is built with the same flags.  RubberBandRouting is left out: it keeps
routes that have a better alternative by design (router.cpp:1819-1824).
Fourth round (DESIGN 9.20): shapeBufferDistance > 0 in histories (configs buf4-* / buf10-*, rectangles only: the routing polygon is exactly the rectangle grown by the buffer
distance - checked against the harness's B lines - and every oracle is that of the scene of GROWN rectangles: validity, route_ok, fresh router, reference optimum; family "bufzone":
a rectangle added / moved / grown so that only its buffer zone lies across a connector's current route; seeded change C06-8); dual-mode routers (harness mode 2 =
PolyLineRouting|OrthogonalRouting) with the history op Y = ConnRef::setRoutingType on existing connectors, both directions (family "typeswitch" + generic histories with injected
switches; each connector is compared with the fresh dual-mode router's connector of the same type, poly-line ones also with the reference optimum; seeded change C03-8)."""
import os, json, hashlib
from vlib import common as C
from checks import avoid_lib as A
from checks import avoid_opts as AO

PID = 'C06'
TOL = 1e-6
R = 40

# (name, mode, segmentPenalty, transactions)
# '-moves' = denser scenes, mostly moves and deletes (the situations in which a stale route can survive)
CONFIGS = [('poly-pen0-trans', 0, 0, 1), ('poly-pen0-notrans', 0, 0, 0), ('poly-pen10-trans', 0, 10, 1),
           ('poly-pen0-trans-moves', 0, 0, 1), ('poly-pen0-notrans-moves', 0, 0, 0),
           ('orth-trans', 1, 10, 1), ('orth-notrans', 1, 10, 0)]
# "contains" family (checks/avoid_lib.py gen_contains_history): a connector endpoint starts strictly inside a shape, the shape is
# moved / resized / deleted away (variants: moved back over it, another shape moved or added onto it), then the other endpoint, the
# endpoint itself or some other shape is changed so that new visibility edges are computed for it.  Orthogonal: rectangles only.
# "shared" family: several connectors whose endpoints coincide exactly (the rotational sweep keeps a std::set of vertices ordered by
# angle, distance and VertID), in dense scenes with mostly shape moves / adds after the connectors exist
SHARED_CONFIGS = [('shared-poly-pen0-trans', 0, 0, 1), ('shared-poly-pen0-notrans', 0, 0, 0), ('shared-poly-pen10-trans', 0, 10, 1),
                  ('shared-orth-trans', 1, 10, 1)]
# directed families (checks/avoid_lib.py): "noop" = moves that leave a shape's polygon unchanged (zero move, self-cancelling relative moves, move to the
# same polygon, there and back) after connectors detour round it; "addmove" = add + 1-2 moves + a RELATIVE move of one shape in ONE transaction
# (the queue model composes relative moves on the polygon held by the queued add); "only" = transactions that contain only deletions / only
# additions / only endpoint changes (the static orthogonal visibility graph must be rebuilt after each of them)
NOOP_CONFIGS = [('noop-poly-pen0-trans', 0, 0, 1), ('noop-poly-pen0-notrans', 0, 0, 0), ('noop-poly-pen10-trans', 0, 10, 1), ('noop-orth-trans', 1, 10, 1)]
ADDMOVE_CONFIGS = [('addmove-poly-pen0-trans', 0, 0, 1), ('addmove-orth-trans', 1, 10, 1), ('addmove-poly-pen10-trans', 0, 10, 1), ('addmove-poly-pen0-notrans', 0, 0, 0)]
ONLY_CONFIGS = [('only-orth-trans', 1, 10, 1), ('only-orth-pen50-trans', 1, 50, 1), ('only-orth-notrans', 1, 10, 0), ('only-poly-pen0-trans', 0, 0, 1)]
# "pocket" family (checks/avoid_lib.py gen_pocket_history): unroutable, then routable - one endpoint in a pocket enclosed by 3-4 overlapping walls (no route:
# the router emits the straight line and must retry in every later transaction), then a wall is deleted / moved away / shrunk / slid aside
POCKET_CONFIGS = [('pocket-poly-pen0-trans', 0, 0, 1), ('pocket-poly-pen0-notrans', 0, 0, 0), ('pocket-poly-pen10-trans', 0, 10, 1),
                  ('pocket-orth-trans', 1, 10, 1), ('pocket-orth-notrans', 1, 10, 0)]
# router-option coverage (checks/avoid_opts.py, DESIGN 9.16): the public poly-line flags InvisibilityGrph / UseLeesAlgorithm in every combination,
# on the directed family "unblock" (the obstacle blocking a connector's own src-dst line is deleted / moved away / shrunk, blocked again, freed again)
# and on the move-heavy generic histories; the fresh router of every step has the same flags.  (name, mode, pen, trans, option combo name)
OPT_CONFIGS = [('opt-invis0-poly-pen0-trans', 0, 0, 1, 'invis0'), ('opt-invis0-poly-pen0-notrans', 0, 0, 0, 'invis0'),
               ('opt-invis0-poly-pen10-trans', 0, 10, 1, 'invis0'), ('opt-lees0-poly-pen0-trans', 0, 0, 1, 'lees0'),
               ('opt-invis0-lees0-poly-pen0-trans', 0, 0, 1, 'invis0-lees0'), ('opt-default-poly-pen0-trans', 0, 0, 1, 'default')]
# shapeBufferDistance > 0 (seeded change C06-8, DESIGN 9.20): rectangles only, so that the routing polygon is exactly the rectangle grown by the buffer distance and
# every oracle (scene validity, route_ok, fresh router, reference optimum) is that of the scene of GROWN rectangles.  Histories: the generic / move-heavy / noop /
# addmove / only generators scaled by S and shrunk by buf (avoid_lib.buffered_ops) and the directed family "bufzone" (a rectangle added / moved / grown so that only
# its buffer zone lies across a connector's current route).  (name, mode, pen, trans, buf, S)
BUF_CONFIGS = [('buf4-poly-pen0-trans', 0, 0, 1, 4, 5), ('buf10-poly-pen0-notrans', 0, 0, 0, 10, 11), ('buf4-poly-pen10-trans', 0, 10, 1, 4, 5),
               ('buf10-poly-pen0-trans', 0, 0, 1, 10, 12), ('buf10-orth-trans', 1, 10, 1, 10, 11), ('buf4-orth-notrans', 1, 10, 0, 4, 5)]
# dual-mode routers (mode 2 = PolyLineRouting | OrthogonalRouting) with routing-type switches on existing connectors (seeded change C03-8, DESIGN 9.20): op Y = ConnRef::setRoutingType;
# family "typeswitch" (avoid_lib.gen_typeswitch_history) and generic / move-heavy rectangle histories with injected switches; every connector is compared with the fresh dual-mode router's
# connector of the SAME type (set before the fresh router's only transaction); poly-line connectors also with the reference optimum
TYPE_CONFIGS = [('dual-typeswitch-pen10-trans', 2, 10, 1), ('dual-typeswitch-pen10-notrans', 2, 10, 0), ('dual-typeswitch-pen50-trans', 2, 50, 1)]
CONTAINS_CONFIGS = [('contains-poly-pen0-trans', 0, 0, 1), ('contains-poly-pen0-notrans', 0, 0, 0), ('contains-poly-pen10-trans', 0, 10, 1),
                    ('contains-orth-trans', 1, 10, 1), ('contains-orth-notrans', 1, 10, 0)]


# ------------------------------------------------------------------------------------------ histories
def op_str(o):
    if o[0] == 'A' or o[0] == 'T':
        return '%s %d %s' % (o[0], o[1], A.fmt_poly(o[2]))
    if o[0] == 'M':
        return 'M %d %d %d' % (o[1], o[2], o[3])
    if o[0] == 'D':
        return 'D %d' % o[1]
    if o[0] == 'C':
        return 'C %d %d %d %d %d' % (o[1], o[2][0], o[2][1], o[3][0], o[3][1])
    if o[0] == 'E':
        return 'E %d %d %d %d' % (o[1], o[2], o[3][0], o[3][1])
    if o[0] == 'Y':
        return 'Y %d %d' % (o[1], o[2])          # setRoutingType on a dual-mode router (mode 2): 1 poly-line, 2 orthogonal
    return 'P'


def hist_script(ops, mode, pen, trans, opts=None, buf=0):
    """opts: public Router member flags ((name, value), ...), set right after the router is created (checks/avoid_opts.py); buf: shapeBufferDistance"""
    return ['R %d %s %s 0.0 %d' % (mode, repr(float(pen)), repr(float(buf)), trans)] + AO.opt_lines(opts) + [op_str(o) for o in ops] + ['X']


def scene_valid(shapes, conns, generic=True, family=None):
    """shapes {id: poly}, conns {cid: (s, d)}: boxes separated by >= 1, endpoints outside every (closed) bounding box
    (family 'contains': or strictly inside a shape), distinct endpoints, and (generic stream) no degenerate chord between
    graph vertices"""
    if family == 'contains':
        return A.contains_scene_valid(shapes, conns, generic)
    if family == 'pocket':
        # walls may overlap each other (that is the point of the family); endpoints are never on or in a shape
        polys = list(shapes.values())
        return all(s != d and not any(A.inside_closed(P, s) or A.inside_closed(P, d) for P in polys) for (s, d) in conns.values())
    polys = list(shapes.values())
    corners = set(tuple(v) for P in polys for v in P) if family == 'shared' else ()
    bs = [A.bbox(P) for P in polys]
    for i in range(len(bs)):
        for j in range(i + 1, len(bs)):
            if not A.box_sep(bs[i], bs[j], 1):
                return False
    pts = []
    for (s, d) in conns.values():
        if s == d or (A.in_any_bbox(polys, s) and tuple(s) not in corners) or (A.in_any_bbox(polys, d) and tuple(d) not in corners):
            return False          # family 'shared': an endpoint may also coincide exactly with a shape vertex
        pts += [s, d]
    if generic and A.scene_has_degenerate_chord(polys, sorted(set(pts))):
        return False
    return True


def seq_apply(shapes, conns, o):
    """the sequential semantics (Python twin of ActionQueueModel.seq_step), returns new dicts"""
    shapes, conns = dict(shapes), dict(conns)
    if o[0] in ('A', 'T'):
        shapes[o[1]] = list(o[2])
    elif o[0] == 'M':
        shapes[o[1]] = [(x + o[2], y + o[3]) for x, y in shapes[o[1]]]
    elif o[0] == 'D':
        del shapes[o[1]]
    elif o[0] == 'C':
        conns[o[1]] = (o[2], o[3])
    elif o[0] == 'E':
        s, d = conns[o[1]]
        conns[o[1]] = (s, o[3]) if o[2] else (o[3], d)
    return shapes, conns


def simulate(ops, trans, generic=True, family=None, buf=0):
    """legality + validity of a history; returns the list of (shapes, conns) at each P, or None.  buf > 0 (rectangles only): validity is that of the
    scene of routing polygons (rectangles grown by the buffer distance)"""
    shapes, conns, fresh, snaps = {}, {}, set(), []
    for o in ops:
        if o[0] == 'P':
            snaps.append((dict(shapes), dict(conns)))
            fresh = set()
            continue
        if o[0] == 'A' and o[1] in shapes:
            return None
        if o[0] in ('M', 'T', 'D') and o[1] not in shapes:
            return None
        if o[0] == 'T' and len(o[2]) != len(shapes[o[1]]):
            return None
        if o[0] == 'D' and trans and o[1] in fresh:
            return None          # documented precondition: no add + delete of one shape in one transaction
        if o[0] == 'C' and o[1] in conns:
            return None
        if o[0] in ('E', 'Y') and o[1] not in conns:
            return None
        shapes, conns = seq_apply(shapes, conns, o)
        if o[0] == 'A':
            fresh.add(o[1])
        if buf and o[0] in ('A', 'T') and not A.is_rect(o[2]):
            return None
        if not scene_valid(A.inflate_shapes(shapes, buf), conns, generic, family):
            return None
    return snaps


def gen_history(rng, trans, orth, w_add=28, w_move=30, w_resize=10, w_del=17, shared=False, rect_only=False):
    """shared: 2-4 connectors, most of which share an endpoint POSITION with an earlier connector (coincident source points, coincident
    destination points, one's source on another's destination); endpoint moves may land exactly on another connector's endpoint or on a
    shape vertex (the only boundary points allowed)"""
    ops, shapes, conns = [], {}, {}
    nid = [1]

    def new_poly():
        for _ in range(40):
            x = rng.range(0, R - 1); y = rng.range(0, R - 1); w = rng.range(2, 11); h = rng.range(2, 11)
            P = A.poly_in_box(rng, (x, y, x + w, y + h), 0 if rect_only else None)
            yield P

    fam = 'shared' if shared else None

    def corner():
        return tuple(rng.choice(shapes[rng.choice(sorted(shapes))]))

    def try_op(o):
        s2, c2 = seq_apply(shapes, conns, o)
        if scene_valid(s2, c2, True, fam):
            ops.append(o)
            shapes.clear(); shapes.update(s2); conns.clear(); conns.update(c2)
            return True
        return False

    for _ in range(rng.range(1, 4) if w_add > 10 else rng.range(3, 6)):
        for P in new_poly():
            if try_op(('A', nid[0], P)):
                nid[0] += 1
                break
    for c in range(rng.range(2, 4) if shared else rng.range(1, 3)):
        for _ in range(40):
            polys = list(shapes.values())
            s = A.free_point(rng, polys, R, use_bbox=True); d = A.free_point(rng, polys, R, avoid=(s,), use_bbox=True)
            if shared and conns and rng.chance(4, 5):
                o = conns[rng.choice(sorted(conns))]
                k = rng.below(4)
                if k == 0:
                    s = o[0]
                elif k == 1:
                    d = o[1]
                elif k == 2:
                    s = o[1]
                else:
                    s, d = o[0], (d if rng.chance(3, 4) else (o[1][0] + rng.range(-4, 4), o[1][1] + rng.range(-4, 4)))
            if shared and not orth and shapes and rng.chance(1, 5):
                s = corner()                                   # an endpoint exactly on a shape vertex
            if s != d and try_op(('C', 100 + c, s, d)):
                break
    ops.append(('P',))
    fresh = set()
    nops = rng.range(2, 12)
    since = 0
    k = 0
    while k < nops:
        k += 1
        r = rng.below(100)
        done = False
        if r < w_add or not shapes:
            if len(shapes) < 8:
                for P in new_poly():
                    if try_op(('A', nid[0], P)):
                        fresh.add(nid[0]); nid[0] += 1; done = True
                        break
        elif r < w_add + w_move:
            i = rng.choice(sorted(shapes))
            if rng.chance(1, 8):
                done = try_op(('M', i, 0, 0))          # a move that changes nothing
            for _ in range(0 if done else 30):
                if try_op(('M', i, rng.range(-15, 15), rng.range(-15, 15))):
                    done = True
                    break
        elif r < w_add + w_move + w_resize:
            # resize / reshape: Obstacle::setNewPoly asserts that the vertex count is unchanged (obstacle.cpp:103)
            i = rng.choice(sorted(shapes))
            for P in new_poly():
                if len(P) == len(shapes[i]) and try_op(('T', i, P)):
                    done = True
                    break
        elif r < w_add + w_move + w_resize + w_del:
            cand = [i for i in sorted(shapes) if not (trans and i in fresh)]
            if cand:
                done = try_op(('D', rng.choice(cand)))
        elif conns:
            c = rng.choice(sorted(conns))
            for _ in range(30):
                p = A.free_point(rng, list(shapes.values()), R, use_bbox=True)
                if shared and len(conns) > 1 and rng.chance(1, 2):
                    p = conns[rng.choice([x for x in sorted(conns) if x != c])][rng.below(2)]      # onto another connector's endpoint
                elif shared and not orth and shapes and rng.chance(1, 2):
                    p = corner()                                                                # onto a shape vertex
                if try_op(('E', c, rng.below(2), p)):
                    done = True
                    break
        if done:
            since += 1
        if since >= rng.range(1, 3) or k == nops:
            if since > 0:
                ops.append(('P',)); fresh = set(); since = 0
                if rng.chance(1, 4):
                    ops.append(('P',))          # an empty transaction
    if ops[-1] != ('P',):
        ops.append(('P',))
    return ops


def gen_chord_history(rng):
    """degenerate stream: route a diagonal connector, then drop / move a square whose diagonal lies on it"""
    a = rng.range(-6, 2); k = rng.range(3, 9); off = rng.range(2, 6)
    s, d = (a, a), (a + off + k + rng.range(2, 6), a + off + k + rng.range(2, 6))
    d = (d[0], d[0])
    x0 = a + off
    sq = [(x0 + k, x0), (x0 + k, x0 + k), (x0, x0 + k), (x0, x0)]
    if rng.chance(1, 2):
        return [('C', 100, s, d), ('P',), ('A', 1, sq), ('P',)]
    dx = rng.range(12, 20)
    far = [(x + dx, y) for x, y in sq]
    return [('A', 1, far), ('C', 100, s, d), ('P',), ('M', 1, -dx, 0), ('P',)]


# ------------------------------------------------------------------------------------------ evaluation of one batch
def route_cost(pts, mode, pen):
    return A.poly_cost(pts, pen)[0] if mode == 0 else A.orth_cost(pts, pen)


def parse_model_line(line):
    """-> list of blocks: None (ERR) or (empty, {id: poly}, {cid: (s, d)})"""
    out = []
    for blk in line.split('|')[1:]:
        t = blk.split()
        if not t:
            continue
        if t[0] == 'ERR':
            out.append(None)
            break
        empty = int(t[0]); ns = int(t[1]); p = 2
        shapes = {}
        for _ in range(ns):
            i = int(t[p]); k = int(t[p + 1]); p += 2
            shapes[i] = [(float(t[p + 2 * j]), float(t[p + 2 * j + 1])) for j in range(k)]
            p += 2 * k
        nc = int(t[p]); p += 1
        cs = {}
        for _ in range(nc):
            c = int(t[p])
            e = t[p + 1:p + 5]
            cs[c] = None if '?' in e else ((float(e[0]), float(e[1])), (float(e[2]), float(e[3])))
            p += 5
        out.append((empty, shapes, cs))
    return out


def evaluate(exe, drv, qdrv, hists, stats, with_model=True, samples=None):
    """hists: list of dict(cfg, mode, pen, trans, ops, generic).  Returns a list of failure dicts (unclassified:
    'kind' in scene / exception / route_invalid / cost / noop)."""
    fails = []
    lines = []
    for h in hists:
        lines += hist_script(h['ops'], h['mode'], h['pen'], h['trans'], h.get('opts'), h.get('buf', 0))
    runs, rc, err = A.run_harness(exe, lines)
    if rc != 0 or len(runs) != len(hists):
        if len(hists) == 1:
            return [dict(kind='crash', what='harness crashed (rc %s) on this history' % rc, stderr=err[-800:], hist=hists[0])]
        for h in hists:
            fails += evaluate(exe, drv, qdrv, [h], stats, with_model, samples)
        return fails
    mlines = A.run_driver(qdrv, ['HIST %d %s' % (h['trans'], ' '.join(op_str(o) for o in h['ops'] if o[0] != 'Y')) for h in hists])     # the queue model has no routing-type op (it changes no scene)
    # fresh routers for every process step of every history
    fresh_lines, fresh_idx = [], []
    per_hist = []
    for h, run, ml in zip(hists, runs, mlines):
        snaps = simulate(h['ops'], h['trans'], generic=False, family=h.get('family'), buf=h.get('buf', 0)) or []
        model = parse_model_line(ml)
        per_hist.append((snaps, model))
        h['_snaps'] = snaps
        h['_disp_raw'] = [d.get('disp_raw', {}) for d in run['dumps']]
        nP = sum(1 for o in h['ops'] if o[0] == 'P')
        if run['exc'] is not None:
            fails.append(dict(kind='exception', what='assertion / exception inside libavoid on a legal history', exception=run['exc'], hist=h))
            continue
        if len(run['dumps']) != nP or len(snaps) != nP:
            fails.append(dict(kind='crash', what='harness produced %d dumps for %d processTransaction calls' % (len(run['dumps']), nP), hist=h))
            continue
        for k, (shapes, conns) in enumerate(snaps):
            ids = sorted(shapes)
            cids = sorted(conns)
            L = ['R %d %s %s 0.0 1' % (h['mode'], repr(float(h['pen'])), repr(float(h.get('buf', 0))))] + AO.opt_lines(h.get('opts'))     # the fresh router has the same flags
            L += ['A %d %s' % (i, A.fmt_poly(shapes[i])) for i in ids]
            L += ['C %d %d %d %d %d' % (c, conns[c][0][0], conns[c][0][1], conns[c][1][0], conns[c][1][1]) for c in cids]
            if h['mode'] == 2:
                # dual-mode router: the fresh router's connectors get the routing type they have at this step, before its only transaction
                ppos = [i for i, o in enumerate(h['ops']) if o[0] == 'P']
                ty = A.conn_types_after(h['ops'][:ppos[k]])
                L += ['Y %d 2' % c for c in cids if ty.get(c) == 2]
            L += ['P', 'X']
            fresh_lines += L
            fresh_idx.append((h, run, k))
    fruns, frc, ferr = A.run_harness(exe, fresh_lines) if fresh_lines else ([], 0, '')
    if frc != 0 or len(fruns) != len(fresh_idx):
        return fails + [dict(kind='crash', what='fresh-router batch crashed', stderr=ferr[-800:], hist=hists[0])]
    fresh_of = {}
    for (h, run, k), fr in zip(fresh_idx, fruns):
        fresh_of[(id(h), k)] = fr
    queries, qmeta = [], []
    qcache = {}

    def ask(q):
        if q not in qcache:
            qcache[q] = len(queries)
            queries.append(q)
        return qcache[q]

    for h, run, (snaps, model) in zip(hists, runs, per_hist):
        if run['exc'] is not None or len(run['dumps']) != len(snaps):
            continue
        stats['histories'] += 1
        stats['by_config'][h['cfg']] = stats['by_config'].get(h['cfg'], 0) + 1
        stats['ops_hist'][len([o for o in h['ops'] if o[0] != 'P'])] = stats['ops_hist'].get(len([o for o in h['ops'] if o[0] != 'P']), 0) + 1
        for o in h['ops']:
            stats['op_kinds'][o[0]] = stats['op_kinds'].get(o[0], 0) + 1
        prevP = False
        k = -1
        for o in h['ops']:
            if o[0] != 'P':
                prevP = False
                continue
            k += 1
            d = run['dumps'][k]
            shapes, conns = snaps[k]
            step = dict(hist=h, step=k)
            # (a) queue drained, router scene = model scene
            mb = model[k] if k < len(model) else None
            if mb is None:
                fails.append(dict(step, kind='scene', what='the queue model reports a violated precondition on a history the router accepted'))
                break
            rshapes = {i: [tuple(p) for p in P] for i, P in d['shapes'].items()}
            mshapes = {i: [tuple(p) for p in P] for i, P in mb[1].items()}
            rends = d['ends']
            mends = {c: e for c, e in mb[2].items() if e is not None}
            if not d['empty'] or not mb[0] or rshapes != mshapes or rends != mends:
                fails.append(dict(step, kind='scene', what='after processTransaction the router state differs from the queue model '
                                  '(actionList empty / shapes / connector ends)',
                                  router=dict(actionList_empty=d['empty'], shapes=rshapes, ends=rends),
                                  model=dict(queue_empty=mb[0], shapes=mshapes, ends=mends)))
                break
            stats['scene_checks'] += 1
            # empty transaction: returns false, routes bit-identical
            if prevP:
                stats['noop_checks'] += 1
                prev = run['dumps'][k - 1]
                if d['ret'] != 0 or d.get('disp_raw') != prev.get('disp_raw'):
                    fails.append(dict(step, kind='noop', what='an empty transaction returned true or changed a displayRoute',
                                      ret=d['ret'], before=prev.get('disp_raw'), after=d.get('disp_raw')))
            prevP = True
            polys = [shapes[i] for i in sorted(shapes)]
            if h.get('buf', 0):
                # shapeBufferDistance > 0: the obstacles of the property are the routing polygons (rectangles grown by the buffer distance); tie to
                # Obstacle::routingPolygon(): the harness prints it (line B) and it must be exactly the grown rectangle
                polys = [A.inflate_rect(P, h['buf']) for P in polys]
                rb = {i: [tuple(p) for p in P] for i, P in d['bshapes'].items()}
                if rb != {i: [tuple(map(float, p)) for p in A.inflate_rect(shapes[i], h['buf'])] for i in sorted(shapes)}:
                    fails.append(dict(step, kind='scene', what='routingPolygon() of a rectangle is not the rectangle grown by shapeBufferDistance',
                                      router=rb, expected={i: A.inflate_rect(shapes[i], h['buf']) for i in sorted(shapes)}))
                    break
            fr = fresh_of[(id(h), k)]
            if fr['exc'] is not None or len(fr['dumps']) != 1:
                fails.append(dict(step, kind='exception', what='a fresh router fails on the scene of this step', exception=fr['exc']))
                continue
            fd = fr['dumps'][0]
            ctypes = None
            if h['mode'] == 2:
                ppos = [i for i, o in enumerate(h['ops']) if o[0] == 'P']
                ctypes = A.conn_types_after(h['ops'][:ppos[k]])
                if d.get('ctype', {}) != ctypes or fd.get('ctype', {}) != ctypes:
                    fails.append(dict(step, kind='scene', what='routingType() of the connectors differs from the types the history set (dual-mode router)',
                                      router=d.get('ctype'), fresh_router=fd.get('ctype'), expected=ctypes))
                    break
            for c in sorted(conns):
                s, t = conns[c]
                route = d['disp'].get(c, [])
                cmode = h['mode'] if ctypes is None else ctypes[c] - 1          # routing type of THIS connector: 0 poly-line, 1 orthogonal
                qi = ask(A.q_chk(polys, s, t, route))
                qr = ask(A.q_chk(polys, s, t, d['route'].get(c, [])))
                qm = None
                if with_model and cmode == 0:
                    qm = ask(A.q_plain(polys, s, t) if h['pen'] == 0 else A.q_taut(h['pen'], polys, s, t))
                qmeta.append((h, k, c, s, t, polys, route, d['route'].get(c, []), fd['disp'].get(c, []), qi, qr, qm, cmode))
    ans = A.run_driver(drv, queries)
    for (h, k, c, s, t, polys, route, raw, froute, qi, qr, qm, cmode) in qmeta:
        stats['comparisons'] += 1
        step = dict(hist=h, step=k, connector=c, shapes=polys, src=s, dst=t, displayRoute=route, fresh_displayRoute=froute)
        if h['mode'] == 2:
            step['connector_routing_type'] = ['poly-line', 'orthogonal'][cmode]
            if cmode == 1 and not A.is_orthogonal(route) and A.is_orthogonal(froute):
                fails.append(dict(step, kind='route_invalid', what='an orthogonal connector of a dual-mode router has a route with a diagonal segment (the fresh router\'s is orthogonal)',
                                  offenders=[], raw_route=raw, raw_offenders=[], degenerate=False))
                continue
        off = A.parse_chk(ans[qi])
        if off:
            roff = A.parse_chk(ans[qr])
            if off != [(-1, -1, 0)] and A.parse_route_answer(A.run_driver(drv, [A.q_plain(polys, s, t)])[0]) is None:
                # no obstacle-free path exists in this scene (exact reference router: NoPath): the property is silent about the route's shape, but
                # the history must still give what a fresh router gives (libavoid emits the straight line and retries in later transactions)
                stats['unroutable_steps'] = stats.get('unroutable_steps', 0) + 1
                if [tuple(q) for q in route] != [tuple(q) for q in froute]:
                    fails.append(dict(step, kind='cost', what='no obstacle-free path exists in this scene; the incremental router and a fresh router '
                                      'disagree on the placeholder route', incremental_cost=None, fresh_cost=None, model_optimum=None))
                continue
            # known finding F-b only if the code's own per-shape test (as proved) does not block the chord: fewer than two end-point touches
            fails.append(dict(step, kind='route_invalid', what='displayRoute of the incremental router fails route_ok on the current scene',
                              offenders=off, raw_route=raw, raw_offenders=roff,
                              degenerate=A.chords_unblocked(drv, polys, raw, roff)))
            continue
        ci = route_cost(route, cmode, h['pen'])
        cf = route_cost(froute, cmode, h['pen'])
        if len(route) > 2:
            stats['nontrivial'].add(hashlib.sha256(repr((h['cfg'], polys, s, t)).encode()).hexdigest())
        if samples is not None and len(samples) < 3 and len(route) > 2 and k >= 2:
            if h['cfg'] not in [x['config'] for x in samples]:
                samples.append(dict(config=h['cfg'], history=[op_str(o) for o in h['ops']], step=k, connector=c, displayRoute=route,
                                    cost=ci, fresh_cost=cf))
        cm = None
        if qm is not None:
            m = A.parse_route_answer(ans[qm])
            if m == 'fail':
                fails.append(dict(step, kind='model', what='reference search failed its certificate (SearchFail)'))
                continue
            cm = None if m is None else m[0] / A.PICO
        # endpoints strictly inside a shape of the CURRENT scene ("contains" family): libavoid ignores such a shape only for the
        # visibility edges of that endpoint, the reference router (like the property's wording) for the whole connector, so the model
        # optimum is a lower bound there; with both endpoints in free space it is the exact optimum.
        inside_now = [j for j, Pg in enumerate(polys) if A.inside_strict(Pg, s) or A.inside_strict(Pg, t)]
        if h.get('family') == 'contains':
            stats['contains_comparisons'] += 1
            if inside_now:
                stats['contains_endpoint_inside_now'] += 1
            # was an endpoint of this connector inside a shape (by id) at an earlier step that does not contain it now?
            hs = h.get('_snaps') or []
            was = False
            for (sh0, cn0) in hs[:k]:
                if c in cn0:
                    for i0, P0 in sh0.items():
                        for e_old, e_new in zip(cn0[c], (s, t)):
                            if A.inside_strict(P0, e_old) and e_old == e_new and not (i0 in hs[k][0] and A.inside_strict(hs[k][0][i0], e_new)):
                                was = True
            if was:
                stats['contains_left_behind_endpoint'] += 1
                if len(route) > 2:
                    stats['contains_left_behind_nontrivial'] += 1
        model_bad = cm is not None and (ci < cm - TOL if inside_now else abs(ci - cm) > TOL)
        if abs(ci - cf) > TOL or model_bad:
            # classifier of the known finding selective_reroute_not_flagged: polyline; the connector kept the (still valid) route it had at
            # the previous dump, its ends were not moved, a fresh router is cheaper, and the selective-reroute test as coded, re-evaluated for
            # every shape that left its place in between (with the shape's old polygon and the real route length), flags nothing
            silent = None
            hs = h.get('_snaps') or []
            if cmode == 0 and not h.get('buf', 0) and k >= 1 and ci > cf + TOL and not (cm is not None and ci < cm - TOL) and len(route) >= 2 and k < len(hs) and \
                    hs[k - 1][1].get(c) == (s, t) and h['_disp_raw'][k].get(c) == h['_disp_raw'][k - 1].get(c):
                ppos = [i for i, o in enumerate(h['ops']) if o[0] == 'P']
                silent = A.reroute_test_silent(h['ops'][ppos[k - 1] + 1:ppos[k]], h['trans'], hs[k - 1][0], route)
            fails.append(dict(step, kind='cost', what='route cost after the history differs from routing from scratch '
                              '(incremental %.9g, fresh router %.9g, model optimum %s%s)' % (ci, cf, cm, ' = lower bound only: an endpoint is '
                              'inside a shape' if inside_now else ''),
                              incremental_cost=ci, fresh_cost=cf, model_optimum=cm, shapes_containing_an_endpoint=inside_now,
                              route_unchanged_and_selective_reroute_test_silent=bool(silent),
                              euclidean_length_incremental=A.polyline_length(route), euclidean_length_fresh=A.polyline_length(froute) if len(froute) >= 2 else None))
    return fails


def shrink(exe, drv, qdrv, h, kind):
    """delta-debug the op list: drop ops while the history stays legal/valid and a failure of the same kind remains"""
    ops = list(h['ops'])
    changed = True
    rounds = 0
    while changed and rounds < 6:
        changed = False
        rounds += 1
        i = 0
        while i < len(ops):
            cand = ops[:i] + ops[i + 1:]
            if cand and cand[-1] == ('P',) and simulate(cand, h['trans'], generic=h.get('generic', True), family=h.get('family'), buf=h.get('buf', 0)) is not None:
                st = new_stats()
                f = evaluate(exe, drv, qdrv, [dict(h, ops=cand)], st, with_model=False)
                if any(x['kind'] == kind for x in f):
                    ops = cand
                    changed = True
                    continue
            i += 1
    return ops


def new_stats():
    return {'histories': 0, 'by_config': {}, 'ops_hist': {}, 'op_kinds': {}, 'scene_checks': 0, 'noop_checks': 0, 'comparisons': 0,
            'nontrivial': set(), 'known_degenerate_chord': 0, 'corpus': 0, 'contains_comparisons': 0, 'contains_endpoint_inside_now': 0,
            'contains_left_behind_endpoint': 0, 'contains_left_behind_nontrivial': 0, 'contains_variants': {}, 'directed_variants': {}}


def report(res, exe, drv, qdrv, fails, stats, do_shrink=True):
    seen = set()
    for f in fails:
        h = f['hist']
        if f['kind'] == 'route_invalid' and f.get('degenerate'):
            stats['known_degenerate_chord'] += 1
            obj = dict(f, hist=None, config=h['cfg'], history=[op_str(o) for o in h['ops']], script=hist_script(h['ops'], h['mode'], h['pen'], h['trans'], h.get('opts'), h.get('buf', 0)))
            if not res.violation(obj, fingerprint='degenerate_chord'):
                continue
        key = (id(h), f['kind'])
        if key in seen:
            continue
        if f['kind'] == 'cost' and f.get('route_unchanged_and_selective_reroute_test_silent'):
            seen.add(key)
            stats['known_reroute_silent'] = stats.get('known_reroute_silent', 0) + 1
            obj = dict(f, hist=None, config=h['cfg'], mode=h['mode'], segmentPenalty=h['pen'], transactions=h['trans'],
                       history=[op_str(o) for o in h['ops']], script=hist_script(h['ops'], h['mode'], h['pen'], h['trans'], h.get('opts'), h.get('buf', 0)))
            if not res.violation(obj, fingerprint='selective_reroute_not_flagged'):
                continue
        if len(res.violations) >= 6:
            continue
        seen.add(key)
        ops = h['ops']
        if do_shrink and f['kind'] in ('cost', 'route_invalid', 'noop', 'scene'):
            try:
                ops = shrink(exe, drv, qdrv, h, f['kind'])
            except Exception as e:
                C.log('shrink failed: %s' % e)
        obj = dict(f)
        obj.pop('hist')
        if ops != h['ops']:
            # the step / connector / routes reported are those of the MINIMAL history (the shrink may end on another connector or step)
            try:
                f2 = [x for x in evaluate(exe, drv, qdrv, [dict(h, ops=ops)], new_stats(), with_model=False) if x['kind'] == f['kind']]
                if f2:
                    obj = dict(f2[0]); obj.pop('hist')
            except Exception as e:
                C.log('re-evaluation of the minimal history failed: %s' % e)
        obj.update({'config': h['cfg'], 'mode': h['mode'], 'segmentPenalty': h['pen'], 'transactions': h['trans'], 'family': h.get('family'),
                    'history': [op_str(o) for o in h['ops']],
                    'minimal_history': [op_str(o) for o in ops],
                    'script': hist_script(ops, h['mode'], h['pen'], h['trans'], h.get('opts'), h.get('buf', 0)), 'shapeBufferDistance': h.get('buf', 0),
                    'router_flags': AO.opts_json(h.get('opts')),
                    'replay': './check C06 --replay <this file>  (runs "script" on harness/c03_route.cpp, a fresh router per step, and compares)'})
        res.violation(obj)


def parse_ops(strs):
    ops = []
    for s in strs:
        t = s.split()
        if t[0] in ('A', 'T'):
            k = int(t[2]); ops.append((t[0], int(t[1]), [(int(t[3 + 2 * j]), int(t[4 + 2 * j])) for j in range(k)]))
        elif t[0] == 'M':
            ops.append(('M', int(t[1]), int(t[2]), int(t[3])))
        elif t[0] == 'D':
            ops.append(('D', int(t[1])))
        elif t[0] == 'C':
            ops.append(('C', int(t[1]), (int(t[2]), int(t[3])), (int(t[4]), int(t[5]))))
        elif t[0] == 'E':
            ops.append(('E', int(t[1]), int(t[2]), (int(t[3]), int(t[4]))))
        elif t[0] == 'Y':
            ops.append(('Y', int(t[1]), int(t[2])))
        elif t[0] == 'P':
            ops.append(('P',))
    return ops


def corpus_hists():
    out = []
    d = os.path.join(C.VERIF, 'corpus')
    for f in sorted(os.listdir(d)):
        if f.startswith('c06_') and f.endswith('.json'):
            j = json.load(open(os.path.join(d, f)))
            out.append(dict(cfg='corpus:' + f, mode=j['mode'], pen=j['segmentPenalty'], trans=j['transactions'], ops=parse_ops(j['history']),
                            generic=False, family=j.get('family'), opts=AO.opts_from_json(j.get('router_flags')), buf=j.get('shapeBufferDistance', 0)))
    return out


def run(tier):
    res = C.Result(PID, tier, 'proof')
    info = C.prove(res, PID, gen_modules=['Geometry'])
    res.assumptions = [
        'scenes: convex integer polygons whose boxes stay separated by >= 1 and endpoints outside every bounding box after every edit; contains family: an '
        'endpoint may instead lie strictly inside a shape (orthogonal: rectangles only) - route_ok exempts a shape only while it contains an endpoint in the CURRENT '
        'scene, and there the reference optimum (which ignores such a shape for the whole connector, libavoid only for that endpoint\'s edges) is a lower bound; '
        'shared family: several connectors with exactly coincident endpoints, endpoints also exactly on shape vertices (no other boundary points)',
        'generic stream rejects scenes with a degenerate chord between graph vertices (the known finding F-b has its own stream)',
        'orthogonal mode: incremental vs fresh router only (its optimum is C05\'s subject); polyline: also vs the reference router optimum',
        'shapeBufferDistance > 0 (configs buf*): rectangles only; obstacles = routing polygons = rectangles grown by the buffer distance (tie: harness line B = Obstacle::routingPolygon() must equal '
        'the grown rectangle); boxes of the GROWN rectangles separated by >= 1, endpoints outside them; the selective_reroute_not_flagged classifier is not applied there',
        'dual-mode routers (mode 2): rectangles only, endpoints outside every box, segmentPenalty > 0 (documented precondition of orthogonal routing); a connector\'s cost is measured in its own routing type '
        '(poly_cost / orth_cost) and compared with the fresh dual-mode router\'s connector of the same type; the queue model has no routing-type op (Y ops are dropped from its op list: they change no scene)',
        'pins, junctions, clusters, checkpoints are not exercised; router flags: InvisibilityGrph and UseLeesAlgorithm in all four combinations (fresh router under the '
        'same flags); RubberBandRouting is left out: by its own comments it keeps routes that may have a better alternative (router.cpp:1819-1824)']
    exe = A.harness(); drv = A.driver()
    qdrv = C.ocaml_build('c06', 'C06.v', 'c06_driver.ml', 'c06_model.ml')
    rng = C.SplitMix64(C.get_seed() ^ 0xC06)
    stats = new_stats()
    samples = []
    # corpus first
    ch = corpus_hists()
    fails = evaluate(exe, drv, qdrv, ch, stats, True, None) if ch else []
    stats['corpus'] = len(ch)
    report(res, exe, drv, qdrv, fails, stats, do_shrink=False)
    n_per = 12 if tier == 'quick' else 110
    hists = []
    for (name, mode, pen, trans) in CONFIGS:
        for _ in range(n_per):
            if name.endswith('-moves'):
                ops = gen_history(rng, trans, mode == 1, w_add=5, w_move=65, w_resize=10, w_del=10)
            else:
                ops = gen_history(rng, trans, mode == 1)
            hists.append(dict(cfg=name, mode=mode, pen=pen, trans=trans, ops=ops, generic=True))
    for _ in range(6 if tier == 'quick' else 40):
        hists.append(dict(cfg='chord-poly-pen0', mode=0, pen=0, trans=1, ops=gen_chord_history(rng), generic=False))
    for (name, mode, pen, trans) in SHARED_CONFIGS:
        for k in range(8 if tier == 'quick' else n_per):
            ops = gen_history(rng, trans, mode == 1, w_add=20, w_move=50, w_resize=10, w_del=8, shared=True) if k % 2 else \
                gen_history(rng, trans, mode == 1, w_add=5, w_move=65, w_resize=10, w_del=10, shared=True)
            hists.append(dict(cfg=name, mode=mode, pen=pen, trans=trans, ops=ops, generic=True, family='shared'))
    n_cont = 14 if tier == 'quick' else 120
    for (name, mode, pen, trans) in CONTAINS_CONFIGS:
        k = 0
        while k < n_cont:
            ops, tags = A.gen_contains_history(rng, rect_only=(mode == 1))
            if ops is None:
                continue
            k += 1
            for t in tags:
                stats['contains_variants'][t] = stats['contains_variants'].get(t, 0) + 1
            hists.append(dict(cfg=name, mode=mode, pen=pen, trans=trans, ops=ops, generic=True, family='contains'))
    for (name, mode, pen, trans) in POCKET_CONFIGS:
        k = 0
        while k < (10 if tier == 'quick' else 90):
            ops, tags = A.gen_pocket_history(rng, rect_only=(mode == 1))
            if ops is None:
                continue
            k += 1
            for t in tags:
                stats['directed_variants']['pocket:' + t] = stats['directed_variants'].get('pocket:' + t, 0) + 1
            hists.append(dict(cfg=name, mode=mode, pen=pen, trans=trans, ops=ops, generic=False, family='pocket'))
    for fam, cfgs, gen, n in (('noop', NOOP_CONFIGS, A.gen_noop_move_history, 10 if tier == 'quick' else 100),
                              ('addmove', ADDMOVE_CONFIGS, A.gen_addmove_history, 8 if tier == 'quick' else 80),
                              ('only', ONLY_CONFIGS, A.gen_homogeneous_history, 14 if tier == 'quick' else 120)):
        for (name, mode, pen, trans) in cfgs:
            k = 0
            while k < n:
                ops, tags = gen(rng, rect_only=(mode == 1))
                if ops is None:
                    continue
                k += 1
                for t in tags:
                    stats['directed_variants'][fam + ':' + t] = stats['directed_variants'].get(fam + ':' + t, 0) + 1
                hists.append(dict(cfg=name, mode=mode, pen=pen, trans=trans, ops=ops, generic=True))
    # router options: own rng stream, so that the older families keep their histories per seed
    rng_o = C.SplitMix64(C.get_seed() ^ 0xC0604)
    combos = dict(AO.OPT_COMBOS)
    for (name, mode, pen, trans, combo) in OPT_CONFIGS:
        k = 0
        n_un, n_gen = (7, 3) if tier == 'quick' else (60, 30)
        while k < n_un:
            ops, tags = AO.gen_unblock_history(rng_o)
            if ops is None or simulate(ops, trans, generic=True) is None:
                continue
            k += 1
            for t in tags:
                stats['directed_variants']['unblock:' + t] = stats['directed_variants'].get('unblock:' + t, 0) + 1
            hists.append(dict(cfg=name, mode=mode, pen=pen, trans=trans, ops=ops, generic=True, opts=combos[combo]))
        for _ in range(n_gen):
            ops = gen_history(rng_o, trans, False, w_add=5, w_move=65, w_resize=10, w_del=10)
            hists.append(dict(cfg=name + '-moves', mode=mode, pen=pen, trans=trans, ops=ops, generic=True, opts=combos[combo]))
    # shapeBufferDistance > 0: own rng stream
    rng_b = C.SplitMix64(C.get_seed() ^ 0xC0608)
    for (name, mode, pen, trans, buf, S) in BUF_CONFIGS:
        n_gen, n_dir, n_zone = (4, 3, 8 if mode == 0 else 3) if tier == 'quick' else (40, 30, 80 if mode == 0 else 30)
        k = 0
        while k < n_gen + n_dir:
            if k < n_gen:
                ops0, fam = (gen_history(rng_b, trans, mode == 1, w_add=5, w_move=65, w_resize=10, w_del=10, rect_only=True) if k % 2 else
                             gen_history(rng_b, trans, mode == 1, rect_only=True)), 'generic'
            else:
                fam, g = [('noop', A.gen_noop_move_history), ('addmove', A.gen_addmove_history), ('only', A.gen_homogeneous_history)][k % 3]
                ops0 = g(rng_b, rect_only=True)[0]
            ops = A.buffered_ops(ops0, S, buf) if ops0 else None
            if ops is None or simulate(ops, trans, generic=True, buf=buf) is None:
                continue
            k += 1
            stats['directed_variants']['buffer:' + fam] = stats['directed_variants'].get('buffer:' + fam, 0) + 1
            hists.append(dict(cfg=name, mode=mode, pen=pen, trans=trans, ops=ops, generic=True, buf=buf))
        k = tries = 0
        while k < n_zone and tries < 40 * n_zone:
            tries += 1
            ops, tags = A.gen_bufzone_history(rng_b, buf)
            if ops is None or simulate(ops, trans, generic=True, buf=buf) is None:
                continue
            k += 1
            for t in tags:
                stats['directed_variants']['bufzone:' + t] = stats['directed_variants'].get('bufzone:' + t, 0) + 1
            hists.append(dict(cfg=name + '-bufzone', mode=mode, pen=pen, trans=trans, ops=ops, generic=True, buf=buf))
    for (name, mode, pen, trans) in TYPE_CONFIGS:
        n_ts, n_inj = (10, 4) if tier == 'quick' else (90, 40)
        k = 0
        while k < n_ts + n_inj:
            if k < n_ts:
                ops, tags = A.gen_typeswitch_history(rng_b)
            else:
                ops0 = gen_history(rng_b, trans, True, w_add=5, w_move=65, w_resize=10, w_del=10, rect_only=True) if k % 2 else gen_history(rng_b, trans, True, rect_only=True)
                ops, tags = A.inject_type_switches(rng_b, ops0), ['injected']
            if ops is None or simulate(ops, trans, generic=True) is None:
                continue
            k += 1
            for t in tags:
                stats['directed_variants']['typeswitch:' + t.split(':')[0] + (':' + t.split(':')[1] if t.startswith(('alone', 'end_', 'switch_')) else '')] = \
                    stats['directed_variants'].get('typeswitch:' + t.split(':')[0] + (':' + t.split(':')[1] if t.startswith(('alone', 'end_', 'switch_')) else ''), 0) + 1
            hists.append(dict(cfg=name, mode=mode, pen=pen, trans=trans, ops=ops, generic=True))
    allfails = []
    for i in range(0, len(hists), 60):
        allfails += evaluate(exe, drv, qdrv, hists[i:i + 60], stats, True, samples)
    report(res, exe, drv, qdrv, allfails, stats)
    res.cov.update({
        'evaluations': stats['comparisons'] + stats['scene_checks'] + stats['noop_checks'],
        'distinct_nontrivial': len(stats['nontrivial']),
        'rule': 'one evaluation = one (history, processTransaction step, connector) comparison incremental-vs-fresh-vs-model, or one scene / '
                'empty-transaction check; histories: 1-3 initial shapes and 1-2 connectors, then 2-12 add / relative move / resize / delete / '
                'move-endpoint ops with processTransaction every 1-3 ops; non-trivial = distinct (config, scene, connector) whose route bends',
        'samples': samples, 'traces_validated_against_impl': stats['histories'],
        'histories_by_config': stats['by_config'], 'ops_per_history_histogram': {str(k): v for k, v in sorted(stats['ops_hist'].items())},
        'op_kind_counts': stats['op_kinds'], 'scene_checks': stats['scene_checks'], 'empty_transaction_checks': stats['noop_checks'],
        'route_comparisons': stats['comparisons'], 'known_degenerate_chord_cases': stats['known_degenerate_chord'],
        'known_selective_reroute_not_flagged_cases': stats.get('known_reroute_silent', 0),
        'steps_without_any_obstacle_free_path_(placeholder_route_compared_with_fresh_router)': stats.get('unroutable_steps', 0),
        'corpus_histories': stats['corpus'], 'exhaustive': False,
        'directed_families': {'what': 'noop = moves leaving the polygon unchanged (zero / cancelling / same polygon / there and back); addmove = add + moves + '
                                      'relative move of one shape in one transaction; only = transactions of only deletions / only additions / only endpoint changes',
                              'variant_histogram': stats['directed_variants']},
        'contains_family': {'what': 'histories with a connector endpoint strictly inside a shape that later leaves it (move / resize / delete; moved '
                                    'back; another shape moved or added onto it) followed by a change that recomputes the endpoint\'s visibility',
                            'route_comparisons': stats['contains_comparisons'],
                            'comparisons_with_an_endpoint_inside_a_shape_now': stats['contains_endpoint_inside_now'],
                            'comparisons_after_the_containing_shape_left_the_endpoint': stats['contains_left_behind_endpoint'],
                            'of_those_with_a_bent_route': stats['contains_left_behind_nontrivial'],
                            'variant_histogram': stats['contains_variants']}})
    if not res.violations and not info['ok']:
        res.violation({'what': 'a proof obligation of C06 no longer checks; the search (history vs fresh router vs model on the corpus and the '
                               'random histories) found no failing history',
                       'broken_files': info.get('broken'), 'broken_lemmas': info.get('broken_lemmas'),
                       'unsupported': info.get('unsupported'), 'forbidden': info.get('forbidden'),
                       'coq_log_tail': info['log'][-3000:]}, no_input=True)
    return res.finish()


def replay(path):
    j = json.load(open(path))
    exe = A.harness(); drv = A.driver()
    qdrv = C.ocaml_build('c06', 'C06.v', 'c06_driver.ml', 'c06_model.ml')
    ops = parse_ops(j.get('minimal_history') or j['history'])
    cfgname = str(j.get('config', ''))
    fam = j.get('family')
    if fam is None:
        fam = 'pocket' if 'pocket' in cfgname else 'shared' if cfgname.startswith('shared') else \
            'contains' if cfgname.startswith('contains') or simulate(ops, j['transactions'], generic=False, buf=j.get('shapeBufferDistance', 0)) is None else None
    h = dict(cfg='replay', mode=j['mode'], pen=j['segmentPenalty'], trans=j['transactions'], ops=ops, generic=False, family=fam,
             opts=AO.opts_from_json(j.get('router_flags')), buf=j.get('shapeBufferDistance', 0))
    fails = evaluate(exe, drv, qdrv, [h], new_stats(), True, None)
    for f in fails:
        f.pop('hist', None)
        print(json.dumps(f, indent=1, default=str))
    print('failures:', len(fails))
    return 1 if fails else 0


def warm():
    A.harness(); A.driver()
    C.ocaml_build('c06', 'C06.v', 'c06_driver.ml', 'c06_model.ml')


META = {
    'property_id': PID,
    'level_claimed': {
        'category': 'proof',
        'text': 'Coq theorems (Properties/C06.v) over a hand model of Router\'s action queue (addShape / moveShape / deleteShape / modifyConnector / '
                'processActions with the de-duplication rules of router.cpp): for EVERY history accepted by the model (every asserted precondition '
                'respected, in particular no add+delete of one shape in one transaction), with transactions on or off, the shapes held after '
                'processing equal those obtained by applying the edits one at a time; at most one queued action per (kind, object); an empty '
                'transaction is the identity and returns false; the model\'s routes depend only on the final scene; the reflection estimate of '
                'the selective-reroute test is a true lower bound, attained at the code\'s x*. Tie (C, three-way, every run): random legal '
                'histories on one Avoid::Router vs the extracted queue model (scene, connector ends, empty actionList), vs a fresh Router and vs '
                'the extracted reference router optimum (route cost to 1e-6), route_ok on every route, bit-identical routes over empty transactions. Streams: '
                'generic, move-heavy, degenerate chord, "contains" (an endpoint starts strictly inside a shape that is then moved / resized / deleted away, moved back, '
                'or replaced by another shape, followed by a change that recomputes the endpoint\'s visibility), "shared" (several connectors with exactly coincident endpoints) '
                'and "pocket" (unroutable, then routable: a connector end enclosed by 3-4 overlapping walls, then a wall deleted / moved away / shrunk / slid aside; transactions on and off, polyline and orthogonal); '
                'router options: the public flags InvisibilityGrph / UseLeesAlgorithm in all four combinations (fresh router under the same flags) on the directed family "unblock" '
                '(blocker of a connector\'s own src-dst line deleted / moved / shrunk / back / away again) and on move-heavy histories; '
                'shapeBufferDistance 4 / 10 on rectangle histories (generic, move-heavy, noop, addmove, only, and the directed family "bufzone": only the buffer zone of an added / moved / grown '
                'rectangle lies across a current route), oracles on the routing polygons; dual-mode routers with routing-type switches of existing connectors (family "typeswitch", both directions, '
                'alone / with endpoint moves / shape edits / double switch).',
        'design_ref': 'DESIGN.md 5.6'},
    'level_note': 'partial: the refinement theorem covers the whole scene, shapes and connector ends (queue_refines_sequential_full; pin-move '
                  'updates are proved for the generalised update function, the op log has no pin-move op); the clamped reflection estimate is proved a lower '
                  'bound (reflect_lower_bound_clamped); the invisibility-graph bookkeeping (m_blocker, checkAllBlockedEdges) and the '
                  'orthogonal optimum are exercised only through the history-vs-scratch comparison, and so is the alternative bookkeeping of InvisibilityGrph=false (checkAllMissingEdges) and '
                  'UseLeesAlgorithm=false (pairwise visibility); RubberBandRouting is outside the property (keeps non-optimal routes by design). Known finding F-b (degenerate chord) has its own '
                  'stream and classifier (narrowed in round 3: only chords with fewer than two end-point touches, which the proved per-shape test does not block); '
                  'F-g (stale routes, fixed in /repo) is kept as corpus regression entries. The retry of connectors without a route (m_needs_reroute_flag) is not modelled: seen only through the pocket '
                  'family, where steps without any obstacle-free path (reference router: NoPath) are compared with the fresh router\'s placeholder route only. Buffer distance and routing-type switches (DESIGN 9.20) are NOT in the Coq queue model: '
                  'the buffered histories use the model only for the un-grown scene, the grown rectangles are a Python-side transformation tied to routingPolygon() by exact comparison; setRoutingType is dropped from the model\'s op list. '
                  'Trusted: Coq kernel, extraction, '
                  'drivers, the hand model\'s reading of router.cpp (validated against the implementation on every run).',
    'technique': 'Coq refinement proof of the action queue + three-way history correspondence (incremental / fresh router / extracted model)',
}
