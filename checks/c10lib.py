"""Shared machinery of check C10 (DESIGN 5.10): scene generator for orthogonal routing + nudging, the script protocol
of harness/c10_nudge.cpp, the parser of the hook-H1 region dump.  Not a check itself."""
import os
from fractions import Fraction as F
from vlib import common as C

OPT_NAMES = ['nudgeOrthogonalSegmentsConnectedToShapes', 'nudgeOrthogonalTouchingColinearSegments',
             'performUnifyingNudgingPreprocessingStep', 'nudgeSharedPathsWithCommonEndPoint',
             'penaliseOrthogonalSharedPathsAtConnEnds']
NUDGE_DISTS = ['4', '2', '1', '8', '3', '6', '0.5', '10', '2.5', '5']
CONN_DIR_ALL = 15


def hook_present(repo=None):
    p = os.path.join(repo or C.REPO, 'cola', 'libavoid', 'orthogonal.cpp')
    try:
        return 'verif_nudge_log' in open(p).read()
    except OSError:
        return False


# ------------------------------------------------------------------------------------------------ scenes
def box_sep(a, b, gap):
    return a[2] + gap <= b[0] or b[2] + gap <= a[0] or a[3] + gap <= b[1] or b[3] + gap <= a[1]


def near_box(b, p, m):
    return b[0] - m <= p[0] <= b[2] + m and b[1] - m <= p[1] <= b[3] + m


def gen_scene(rng, sid, family=None):
    """a scene dict: opts (5 bools), nudge (string), pen, buf, fspp, boxes [(id,x0,y0,x1,y1)], pins [(sid,cls,xo,yo,ins,dirs)],
    conns [(id, end, end)] with end = ('P',x,y) | ('S',sid,cls); cps {id: [(x,y)..]}.  All coordinates multiples of 4."""
    fam = family if family is not None else rng.below(13)
    R = 24
    sc = {'id': sid, 'family': fam}
    if fam >= 10:
        return gen_corridor(rng, sc)
    sc['opts'] = [int(rng.chance(1, 2)) for _ in range(5)]
    if fam < 3:
        # the design-time family: default-like options, free endpoints
        sc['opts'][0] = 0
    sc['nudge'] = rng.choice(NUDGE_DISTS) if rng.chance(3, 4) else '4'
    sc['pen'] = rng.choice(['50', '10', '20', '100'])
    sc['buf'] = '0'
    sc['fspp'] = '0' if rng.chance(5, 6) else rng.choice(['30', '110'])
    boxes = []
    t = 0
    nb = rng.range(1, 5)
    while len(boxes) < nb and t < 100:
        t += 1
        x = rng.below(R) * 4; y = rng.below(R) * 4; w = rng.range(2, 7) * 4; h = rng.range(2, 7) * 4
        b = (x, y, x + w, y + h)
        if all(box_sep(b, o, 24) for o in boxes):
            boxes.append(b)
    sc['boxes'] = [(i + 1,) + b for i, b in enumerate(boxes)]
    pins = []
    use_pins = fam >= 6
    if use_pins:
        for (bid, x0, y0, x1, y1) in sc['boxes']:
            k = rng.below(4)
            if k == 0:
                pins.append((bid, 1, '0.5', '0.5', '0', 0))               # centre pin, all directions
            elif k == 1:
                pins.append((bid, 1, '0.5', '0', '0', 1))                 # top side (ConnDirUp)
                pins.append((bid, 1, '0.5', '1', '0', 2))                 # bottom side
            elif k == 2:
                pins.append((bid, 1, '0', '0.5', '0', 4))                 # left
                pins.append((bid, 1, '1', '0.5', '0', 8))                 # right
            else:
                pins.append((bid, 1, '0.5', '0.5', '0', 0))
                pins.append((bid, 2, '0.25', '0.5', '0', 0))
    sc['pins'] = pins
    pinned = sorted(set((p[0], p[1]) for p in pins))
    conns = []
    nc = rng.range(2, 5)
    # anchor clusters so that cheapest routes share corridors
    def free_point():
        for _ in range(200):
            p = (rng.range(-5, R + 9) * 4, rng.range(-5, R + 9) * 4)
            if not any(near_box(b, p, 8) for b in boxes):
                return p
        return (-40, -40)
    anchors = [free_point() for _ in range(2)]
    used = set()
    for c in range(nc):
        ends = []
        for e in range(2):
            if pinned and rng.chance(1, 3):
                s = rng.choice(pinned)
                ends.append(('S', s[0], s[1]))
                continue
            for _ in range(200):
                if rng.chance(1, 2):
                    a = anchors[e]
                    p = (a[0] + rng.range(-3, 3) * 4, a[1] + rng.range(-3, 3) * 4)
                else:
                    p = free_point()
                if p not in used and not any(near_box(b, p, 8) for b in boxes):
                    break
            used.add(p)
            ends.append(('P', p[0], p[1]))
        if ends[0] != ends[1]:
            conns.append((100 + c, ends[0], ends[1]))
    sc['conns'] = conns
    cps = {}
    if fam in (4, 5, 9) and conns:
        for (cid, a, b) in conns:
            if rng.chance(1, 3):
                p = free_point()
                cps[cid] = [p]
    sc['cps'] = cps
    return sc


def gen_corridor(rng, sc):
    """families 10-12: k connectors squeezed through one corridor of width w between two rectangles, so that the region
    needs reduced separation distances or cannot be satisfied at all (the do/while loop and the unsatisfied-range rewriting)"""
    fam = sc['family']
    sc['opts'] = [int(rng.chance(1, 2)) for _ in range(5)]
    sc['opts'][0] = 0 if fam < 12 else int(rng.chance(1, 2))
    sc['nudge'] = rng.choice(['4', '6', '8', '10', '3', '5', '2'])
    sc['pen'] = rng.choice(['50', '10', '20'])
    sc['buf'] = '0'
    sc['fspp'] = '0'
    w = rng.choice([4, 8, 8, 12, 12, 16, 20, 24])
    horiz = rng.chance(1, 2)
    L0, L1 = 40, 40 + rng.range(4, 10) * 4          # corridor extent along its axis
    a0 = rng.range(2, 6) * 4                         # thickness of the two boxes
    c0 = 60                                          # corridor starts at this coordinate across
    b1 = (c0 - a0, L0, c0, L1)
    b2 = (c0 + w, L0, c0 + w + a0, L1)
    extra = []
    if rng.chance(1, 2) and L1 - L0 >= 28:
        extra.append((c0 - a0 - 40, L0 + 8, c0 - a0 - 24, L1 - 8))
    boxes = [b1, b2] + extra

    def tr(b):
        return b if not horiz else (b[1], b[0], b[3], b[2])

    def tp(p):
        return p if not horiz else (p[1], p[0])
    sc['boxes'] = [(i + 1,) + tr(b) for i, b in enumerate(boxes)]
    sc['pins'] = []
    k = rng.range(2, 5)
    conns, used = [], set()
    for c in range(k):
        for _ in range(100):
            s = (c0 + rng.range(-6, 6 + w // 4) * 4, L0 - rng.range(2, 8) * 4)
            d = (c0 + rng.range(-6, 6 + w // 4) * 4, L1 + rng.range(2, 8) * 4)
            if rng.chance(1, 5):
                d = (c0 + w + a0 + rng.range(2, 8) * 4, L0 + rng.range(0, (L1 - L0) // 4) * 4)
            if s not in used and d not in used and not any(near_box(b, s, 4) or near_box(b, d, 4) for b in boxes):
                break
        used.add(s); used.add(d)
        if rng.chance(1, 2):
            s, d = d, s
        conns.append((100 + c, ('P',) + tp(s), ('P',) + tp(d)))
    sc['conns'] = conns
    sc['cps'] = {}
    if fam == 11 and rng.chance(1, 2):
        cid = conns[0][0]
        sc['cps'][cid] = [tp((c0 + (w // 8) * 4, L0 + 8))]
    return sc


def scene_text(sc):
    L = ['R %s %s %s %s %s' % (sc['pen'], sc['nudge'], sc['buf'], sc['fspp'], ' '.join(str(o) for o in sc['opts']))]
    for (bid, x0, y0, x1, y1) in sc['boxes']:
        L.append('A %d %d %d %d %d' % (bid, x0, y0, x1, y1))
    for p in sc['pins']:
        L.append('N %d %d %s %s %s %d' % p)

    def end(e):
        return 'P %d %d' % (e[1], e[2]) if e[0] == 'P' else 'S %d %d' % (e[1], e[2])
    for (cid, a, b) in sc['conns']:
        L.append('C %d %s %s' % (cid, end(a), end(b)))
    for cid, ps in sorted(sc['cps'].items()):
        L.append('K %d %d %s' % (cid, len(ps), ' '.join('%d %d' % p for p in ps)))
    L.append('P')
    L.append('X')
    return '\n'.join(L) + '\n'


# ------------------------------------------------------------------------------------------------ dump parser
def fx(s):
    return float.fromhex(s)


def parse_output(txt):
    """split harness output into per-scene results: dict(regions=[...], routes={id:{O,D,E}}, flags, exc)"""
    res = []
    cur = None
    reg = None
    lines = txt.split('\n')
    for line in lines:
        t = line.split()
        if not t:
            continue
        k = t[0]
        if k == 'NUDGE-BEGIN':
            cur = {'regions': [], 'routes': {}, 'flags': None, 'exc': None, 'done': False}
            res.append(cur)
            reg = None
        elif cur is None:
            continue
        elif k == 'REGION':
            reg = {'dim': int(t[1]), 'unify': int(t[2]), 'base': fx(t[3]), 'nfs': int(t[4]), 'nsp': int(t[5]), 'n': int(t[6]),
                   'fspp': fx(t[7]), 'segs': [], 'rel': {}, 'vars': None, 'cons': None, 'gapcs': None, 'pot': None,
                   'iters': [], 'end': None}
            cur['regions'].append(reg)
        elif k == 'SEG':
            reg['segs'].append({'k': int(t[1]), 'conn': int(t[2]), 'pos': fx(t[3]), 'fixed': int(t[4]), 'final': int(t[5]),
                                'ends_in_shape': int(t[6]), 'cp': int(t[7]), 'single': int(t[8]), 'zigzag': int(t[9]),
                                'min': fx(t[10]), 'max': fx(t[11]), 'var': int(t[12]), 'des': fx(t[13]), 'wt': fx(t[14]),
                                'id': int(t[15]), 'lo': fx(t[16]), 'hi': fx(t[17]), 'nidx': int(t[18])})
        elif k == 'REL':
            reg['rel'][(int(t[1]), int(t[2]))] = tuple(int(x) for x in t[3:7])
        elif k == 'VARS':
            n = int(t[1])
            reg['vars'] = [(int(t[2 + 3 * i]), fx(t[3 + 3 * i]), fx(t[4 + 3 * i])) for i in range(n)]
        elif k == 'CONS':
            n = int(t[1])
            cs = [(int(t[2 + 4 * i]), int(t[3 + 4 * i]), fx(t[4 + 4 * i]), int(t[5 + 4 * i])) for i in range(n)]
            if reg['cons'] is None:
                reg['cons'] = cs
            else:
                reg['iters'][-1]['cons_after'] = cs
        elif k == 'GAPCS':
            reg['gapcs'] = [int(x) for x in t[2:]]
        elif k == 'POT':
            n = int(t[1])
            reg['pot'] = [(int(t[2 + 2 * i]), int(t[3 + 2 * i])) for i in range(n)]
        elif k == 'SOLVE':
            n = int(t[2])
            reg['iters'].append({'sep': fx(t[1]), 'x': [fx(v) for v in t[3:3 + n]]})
        elif k == 'UNSAT':
            reg['iters'][-1]['unsat'] = [int(x) for x in t[2:]]
        elif k == 'SCAN':
            reg['iters'][-1]['sat_scan'] = int(t[1])
        elif k == 'RANGES':
            n = int(t[1])
            rs = [(int(t[2 + 2 * i]), int(t[3 + 2 * i])) for i in range(n)]
            it = reg['iters'][-1]
            if 'ranges_scan' not in it:
                it['ranges_scan'] = rs
            else:
                it['ranges_after'] = rs
        elif k == 'STEP':
            it = reg['iters'][-1]
            it['sep_after'] = fx(t[1]); it['sat_after'] = int(t[2]); it['just_added'] = int(t[3])
        elif k == 'END':
            n = int(t[3])
            reg['end'] = {'sat': int(t[1]), 'sep': fx(t[2]), 'pos': [fx(v) for v in t[4:4 + n]]}
        elif k == 'NUDGE-END':
            pass
        elif k in ('O', 'D'):
            cid = int(t[1]); n = int(t[2])
            cur['routes'].setdefault(cid, {})[k] = [(fx(t[3 + 2 * i]), fx(t[4 + 2 * i])) for i in range(n)]
        elif k == 'E':
            cur['routes'].setdefault(int(t[1]), {})['E'] = [(fx(t[2]), fx(t[3])), (fx(t[4]), fx(t[5]))]
        elif k == 'F':
            cur['flags'] = (int(t[1]), int(t[2]))
        elif k == '.':
            cur['done'] = True
        elif k == 'EXC':
            cur['exc'] = line[4:]
    return res


# ------------------------------------------------------------------------------------------------ driver protocol
def qstr(x):
    """a binary64 as an exact [-]HEX/HEX rational"""
    fr = F(x)
    return ('-' if fr < 0 else '') + '%x/%x' % (abs(fr.numerator), fr.denominator)


def conv_tok(t):
    if t.startswith('0x') or t.startswith('-0x'):
        return qstr(float.fromhex(t))
    return t


def split_scenes(txt):
    """harness output -> list of (dump lines, all lines) per processed scene"""
    out, cur, dump, in_dump = [], None, None, False
    for line in txt.split('\n'):
        if line.startswith('NUDGE-BEGIN'):
            cur, dump, in_dump = [], [], True
            out.append((dump, cur))
            continue
        if cur is None:
            continue
        if line.startswith('NUDGE-END') or line.startswith('EXC'):
            in_dump = False
        if in_dump and line:
            dump.append(line)
        cur.append(line)
    return out


def driver_regions(dump_lines):
    return [' '.join(conv_tok(t) for t in l.split()) for l in dump_lines] + ['ENDREGIONS']


def attached(sc, cid):
    for (c, a, b) in sc['conns']:
        if c == cid:
            return [e[1] for e in (a, b) if e[0] == 'S']
    return []


def driver_scene(sc, res, tol='1/f4240'):
    L = ['SCENE %s %s' % (tol, qstr(float(sc['nudge'])))]
    for (bid, x0, y0, x1, y1) in sc['boxes']:
        L.append('BOX %d %s %s %s %s' % (bid, qstr(x0), qstr(y0), qstr(x1), qstr(y1)))
    for (cid, a, b) in sc['conns']:
        rt = res['routes'].get(cid, {})
        raw, disp = rt.get('O', []), rt.get('D', [])
        cps = sc['cps'].get(cid, [])

        def pts(ps):
            return '%d %s' % (len(ps), ' '.join('%s %s' % (qstr(p[0]), qstr(p[1])) for p in ps))
        att = attached(sc, cid)
        L.append('CONN %d %s %s %s %d %s' % (cid, pts(raw), pts(disp), pts(cps), len(att), ' '.join(str(x) for x in att)))
    L.append('ENDSCENE')
    return L


def parse_driver(txt):
    regs, scenes = [], []
    for line in txt.split('\n'):
        if line.startswith('R '):
            t = line.split(' ', 9)
            d = {'line': line}
            for kv in t[2:9]:
                if '=' in kv:
                    k, v = kv.split('=', 1)
                    d[k] = v
            d['notes'] = line.split('notes=', 1)[1] if 'notes=' in line else ''
            d['error'] = ' ERROR ' in line
            regs.append(d)
        elif line.startswith('S '):
            d = {'line': line, 'error': ' ERROR ' in line}
            for kv in line.split()[2:]:
                if '=' in kv:
                    k, v = kv.split('=', 1)
                    d[k] = v.strip('[]')
            scenes.append(d)
    return regs, scenes


def region_json(g):
    d = dict(g)
    d['rel'] = [[i, j] + list(v) for (i, j), v in sorted(g['rel'].items())]
    return d


def on_route_py(ps, p):
    for a, b in zip(ps, ps[1:]):
        if min(a[0], b[0]) <= p[0] <= max(a[0], b[0]) and min(a[1], b[1]) <= p[1] <= max(a[1], b[1]):
            return True
    return False


def spur_tip(ps, p):
    """p lies on a stretch of the polyline that is traversed forth and back: there is a vertex where the polyline turns
    back on itself (incoming and outgoing directions opposite) and p is on both the incoming and the outgoing run"""
    q = [tuple(x) for i, x in enumerate(ps) if i == 0 or tuple(x) != tuple(ps[i - 1])]
    # merge straight runs first
    r = []
    for x in q:
        while len(r) >= 2:
            a, b = r[-2], r[-1]
            d1 = (b[0] - a[0], b[1] - a[1]); d2 = (x[0] - b[0], x[1] - b[1])
            if d1[0] * d2[1] - d1[1] * d2[0] == 0 and d1[0] * d2[0] + d1[1] * d2[1] > 0:
                r.pop()
            else:
                break
        r.append(x)

    def on(a, b):
        return min(a[0], b[0]) <= p[0] <= max(a[0], b[0]) and min(a[1], b[1]) <= p[1] <= max(a[1], b[1])
    for i in range(1, len(r) - 1):
        a, b, c = r[i - 1], r[i], r[i + 1]
        d1 = (b[0] - a[0], b[1] - a[1]); d2 = (c[0] - b[0], c[1] - b[1])
        if d1[0] * d2[1] - d1[1] * d2[0] == 0 and d1[0] * d2[0] + d1[1] * d2[1] < 0 and on(a, b) and on(b, c):
            return True
    return False


def cp_on_plain_fixed_segment(regions, cid, p):
    """some dumped nudging-stage region has a segment of connector cid that is fixed, has no checkpoints recorded, contains
    the point p, and is related by canAlignWith to another segment of the same connector"""
    for g in regions:
        if g['unify']:
            continue
        across, along = (p[0], p[1]) if g['dim'] == 0 else (p[1], p[0])
        for i, s in enumerate(g['segs']):
            if s['conn'] == cid and s['fixed'] and not s['cp'] and s['pos'] == across and s['lo'] <= along <= s['hi']:
                for (a, b), rel in g['rel'].items():
                    if i in (a, b) and rel[2] and g['segs'][a]['conn'] == cid and g['segs'][b]['conn'] == cid:
                        return True
    return False


def sandwiched(regions, a, b):
    """the failing pair (a, b) sits in a nudging-stage region that ended unsatisfied and whose generated constraints
    contain a chain  fixed -> movable -> fixed  of positive gaps with the first fixed variable not left of the second
    (infeasible for every positive separation: the processing order put a movable segment between two immovable
    segments at the same position)"""
    for g in regions:
        if g['unify'] or not g['end'] or g['end']['sat']:
            continue
        conns = set(s['conn'] for s in g['segs'])
        if a not in conns or b not in conns:
            continue
        vs, cs = g['vars'], g['cons']
        for (l1, m, g1, e1) in cs:
            if g1 > 0 and vs[l1][0] == 1 and vs[m][0] == 0:
                for (m2, r2, g2, e2) in cs:
                    if m2 == m and g2 > 0 and vs[r2][0] == 1 and vs[l1][1] >= vs[r2][1]:
                        return True
    return False
