"""Shared machinery of check C10 (DESIGN 5.10): scene generator for orthogonal routing + nudging, the script protocol
of harness/c10_nudge.cpp, the parser of the hook-H1 region dump.  Not a check itself."""
import os
from fractions import Fraction as F
from vlib import common as C

OPT_NAMES = ['nudgeOrthogonalSegmentsConnectedToShapes', 'nudgeOrthogonalTouchingColinearSegments',
             'performUnifyingNudgingPreprocessingStep', 'nudgeSharedPathsWithCommonEndPoint',
             'penaliseOrthogonalSharedPathsAtConnEnds']
NUDGE_DISTS = ['4', '2', '1', '8', '3', '6', '0.5', '10', '2.5', '5']
CONN_DIR_ALL = 15


def hook_b_present(repo=None):
    """hook H1b (ALLSEG / AROUTE / ASEG / SEGX records) is in the tree"""
    p = os.path.join(repo or C.REPO, 'cola', 'libavoid', 'orthogonal.cpp')
    try:
        return 'verifDumpSegmentExtra' in open(p).read()
    except OSError:
        return False


def hook_present(repo=None):
    p = os.path.join(repo or C.REPO, 'cola', 'libavoid', 'orthogonal.cpp')
    try:
        return 'verif_nudge_log' in open(p).read()
    except OSError:
        return False


# ------------------------------------------------------------------------------------------------ scenes
def box_sep(a, b, gap):
    return a[2] + gap <= b[0] or b[2] + gap <= a[0] or a[3] + gap <= b[1] or b[3] + gap <= a[1]


def near_box(b, p, m):
    return b[0] - m <= p[0] <= b[2] + m and b[1] - m <= p[1] <= b[3] + m


def gen_scene(rng, sid, family=None):
    """a scene dict: opts (5 bools), nudge (string), pen, buf, fspp, boxes [(id,x0,y0,x1,y1)], pins [(sid,cls,xo,yo,ins,dirs)],
    conns [(id, end, end)] with end = ('P',x,y) | ('S',sid,cls); cps {id: [(x,y)..]}.  All coordinates multiples of 4.
    Optional: fixed {id: [(x,y)..]} connectors with a user-specified route (ConnRef::setFixedRoute), later [[('M',sid,dx,dy)..]..]
    further transactions (moveShape ops, each list followed by processTransaction).  Families 16-18 (fixed routes, seeded
    change C10-6) are only generated when asked for by number."""
    fam = family if family is not None else rng.below(16)
    R = 24
    sc = {'id': sid, 'family': fam}
    if fam in (16, 17, 18):
        return gen_fixed(rng, sc)
    if fam in (13, 15):
        return gen_cpline(rng, sc)
    if fam == 14:
        return gen_edge(rng, sc)
    if fam >= 10:
        return gen_corridor(rng, sc)
    sc['opts'] = [int(rng.chance(1, 2)) for _ in range(5)]
    if fam < 3:
        # the design-time family: default-like options, free endpoints
        sc['opts'][0] = 0
    sc['nudge'] = rng.choice(NUDGE_DISTS) if rng.chance(3, 4) else '4'
    sc['pen'] = rng.choice(['50', '10', '20', '100'])
    sc['buf'] = '0'
    sc['fspp'] = '0' if rng.chance(5, 6) else rng.choice(['30', '110'])
    boxes = []
    t = 0
    nb = rng.range(1, 5)
    while len(boxes) < nb and t < 100:
        t += 1
        x = rng.below(R) * 4; y = rng.below(R) * 4; w = rng.range(2, 7) * 4; h = rng.range(2, 7) * 4
        b = (x, y, x + w, y + h)
        if all(box_sep(b, o, 24) for o in boxes):
            boxes.append(b)
    sc['boxes'] = [(i + 1,) + b for i, b in enumerate(boxes)]
    pins = []
    use_pins = fam >= 6
    if use_pins:
        for (bid, x0, y0, x1, y1) in sc['boxes']:
            k = rng.below(4)
            if k == 0:
                pins.append((bid, 1, '0.5', '0.5', '0', 0))               # centre pin, all directions
            elif k == 1:
                pins.append((bid, 1, '0.5', '0', '0', 1))                 # top side (ConnDirUp)
                pins.append((bid, 1, '0.5', '1', '0', 2))                 # bottom side
            elif k == 2:
                pins.append((bid, 1, '0', '0.5', '0', 4))                 # left
                pins.append((bid, 1, '1', '0.5', '0', 8))                 # right
            else:
                pins.append((bid, 1, '0.5', '0.5', '0', 0))
                pins.append((bid, 2, '0.25', '0.5', '0', 0))
    sc['pins'] = pins
    pinned = sorted(set((p[0], p[1]) for p in pins))
    conns = []
    nc = rng.range(2, 5)
    # anchor clusters so that cheapest routes share corridors
    def free_point():
        for _ in range(200):
            p = (rng.range(-5, R + 9) * 4, rng.range(-5, R + 9) * 4)
            if not any(near_box(b, p, 8) for b in boxes):
                return p
        return (-40, -40)
    anchors = [free_point() for _ in range(2)]
    used = set()
    for c in range(nc):
        ends = []
        for e in range(2):
            if pinned and rng.chance(1, 3):
                s = rng.choice(pinned)
                ends.append(('S', s[0], s[1]))
                continue
            for _ in range(200):
                if rng.chance(1, 2):
                    a = anchors[e]
                    p = (a[0] + rng.range(-3, 3) * 4, a[1] + rng.range(-3, 3) * 4)
                else:
                    p = free_point()
                if p not in used and not any(near_box(b, p, 8) for b in boxes):
                    break
            used.add(p)
            ends.append(('P', p[0], p[1]))
        if ends[0] != ends[1]:
            conns.append((100 + c, ends[0], ends[1]))
    sc['conns'] = conns
    cps = {}
    if fam in (4, 5, 9) and conns:
        for (cid, a, b) in conns:
            if rng.chance(1, 3):
                p = free_point()
                cps[cid] = [p]
    sc['cps'] = cps
    return sc


def gen_corridor(rng, sc):
    """families 10-12: k connectors squeezed through one corridor of width w between two rectangles, so that the region
    needs reduced separation distances or cannot be satisfied at all (the do/while loop and the unsatisfied-range rewriting)"""
    fam = sc['family']
    sc['opts'] = [int(rng.chance(1, 2)) for _ in range(5)]
    sc['opts'][0] = 0 if fam < 12 else int(rng.chance(1, 2))
    sc['nudge'] = rng.choice(['4', '6', '8', '10', '3', '5', '2'])
    sc['pen'] = rng.choice(['50', '10', '20'])
    sc['buf'] = '0'
    sc['fspp'] = '0'
    w = rng.choice([4, 8, 8, 12, 12, 16, 20, 24])
    horiz = rng.chance(1, 2)
    L0, L1 = 40, 40 + rng.range(4, 10) * 4          # corridor extent along its axis
    a0 = rng.range(2, 6) * 4                         # thickness of the two boxes
    c0 = 60                                          # corridor starts at this coordinate across
    b1 = (c0 - a0, L0, c0, L1)
    b2 = (c0 + w, L0, c0 + w + a0, L1)
    extra = []
    if rng.chance(1, 2) and L1 - L0 >= 28:
        extra.append((c0 - a0 - 40, L0 + 8, c0 - a0 - 24, L1 - 8))
    boxes = [b1, b2] + extra

    def tr(b):
        return b if not horiz else (b[1], b[0], b[3], b[2])

    def tp(p):
        return p if not horiz else (p[1], p[0])
    sc['boxes'] = [(i + 1,) + tr(b) for i, b in enumerate(boxes)]
    sc['pins'] = []
    k = rng.range(2, 5)
    conns, used = [], set()
    for c in range(k):
        for _ in range(100):
            s = (c0 + rng.range(-6, 6 + w // 4) * 4, L0 - rng.range(2, 8) * 4)
            d = (c0 + rng.range(-6, 6 + w // 4) * 4, L1 + rng.range(2, 8) * 4)
            if rng.chance(1, 5):
                d = (c0 + w + a0 + rng.range(2, 8) * 4, L0 + rng.range(0, (L1 - L0) // 4) * 4)
            if s not in used and d not in used and not any(near_box(b, s, 4) or near_box(b, d, 4) for b in boxes):
                break
        used.add(s); used.add(d)
        if rng.chance(1, 2):
            s, d = d, s
        conns.append((100 + c, ('P',) + tp(s), ('P',) + tp(d)))
    sc['conns'] = conns
    sc['cps'] = {}
    if fam == 11 and rng.chance(1, 2):
        cid = conns[0][0]
        sc['cps'][cid] = [tp((c0 + (w // 8) * 4, L0 + 8))]
    return sc


def _transform_pins(sc, mirror, swap):
    """_transform for scenes with pins, fixed routes and later moveShape transactions (families 16-18): pin offsets and
    visibility directions (ConnDirUp 1, Down 2, Left 4, Right 8) are mirrored / swapped with the scene"""
    def tp(p):
        x, y = p
        if mirror:
            x = 400 - x
        return (y, x) if swap else (x, y)

    def tb(b):
        (x0, y0), (x1, y1) = tp((b[1], b[2])), tp((b[3], b[4]))
        return (b[0], min(x0, x1), min(y0, y1), max(x0, x1), max(y0, y1))

    def tdir(d):
        if mirror:
            d = (d & 3) | (8 if d & 4 else 0) | (4 if d & 8 else 0)
        if swap:
            d = (4 if d & 1 else 0) | (8 if d & 2 else 0) | (1 if d & 4 else 0) | (2 if d & 8 else 0)
        return d

    def tpin(p):
        (sid, cls, xo, yo, ins, dirs) = p
        xo, yo = F(xo), F(yo)
        if mirror:
            xo = 1 - xo
        if swap:
            xo, yo = yo, xo
        return (sid, cls, str(float(xo)), str(float(yo)), ins, tdir(dirs))

    def tend(e):
        return ('P',) + tp(e[1:3]) if e[0] == 'P' else e
    sc['boxes'] = [tb(b) for b in sc['boxes']]
    sc['pins'] = [tpin(p) for p in sc['pins']]
    sc['conns'] = [(c, tend(a), tend(b)) for (c, a, b) in sc['conns']]
    sc['cps'] = {c: [tp(p) for p in ps] for c, ps in sc['cps'].items()}
    sc['fixed'] = {c: [tp(p) for p in ps] for c, ps in sc.get('fixed', {}).items()}

    def tmove(m):
        dx, dy = m[2], m[3]
        if mirror:
            dx = -dx
        return ('M', m[1], dy, dx) if swap else ('M', m[1], dx, dy)
    sc['later'] = [[tmove(m) for m in ops] for ops in sc.get('later', [])]
    return sc


def gen_fixed(rng, sc):
    """families 16-18 (seeded change C10-6, DESIGN 9.13): connectors with a user-specified FIXED route (ConnRef::setFixedRoute).
    A fixed route is never rerouted but "will still be considered for the purpose of nudging" (connector.h): its segments are
    immovable members of the nudging regions and the other connectors are nudged away from them.
      16: k Z-shaped connectors (pins on the facing sides of two boxes, or free ends) whose middle segment is centred in its
          corridor; a fixed route runs exactly along the centre line of one or several of these corridors (straight, L, or
          Z whose own middle segment is already centred so that it is not shifted itself), nothing else near;
      17: a fixed route with several bends (staircase of 2-5 bends, arbitrary positions) through a field of boxes with 2-4
          normally routed connectors sharing its lines (ends on the lines of the fixed route's segments);
      18: family 16 followed by 1-2 later transactions that move one of the boxes a connector is pinned to (the connector is
          rerouted, the fixed route must still be avoided)."""
    fam = sc['family']
    sc['opts'] = [int(rng.chance(1, 2)) for _ in range(5)]
    sc['opts'][0] = int(rng.chance(1, 8))
    sc['nudge'] = rng.choice(['4', '4', '8', '6', '2', '5', '10', '3'])
    sc['pen'] = rng.choice(['50', '20', '100'])
    sc['buf'] = '0'
    sc['fspp'] = '0'
    sc['cps'] = {}
    sc['later'] = []
    boxes, pins, conns, fixed = [], [], [], {}
    if fam in (16, 18):
        k = rng.range(1, 3)
        y = 0
        centres = []                                    # (centre x, y range of the Z's middle segment)
        bends = []                                      # free level between corridor c and corridor c + 1
        for c in range(k):
            # corridor c: box L (pin on its right side) at the left, box Rr (pin on its left side) at the right, lower down
            half = rng.range(5, 20) * 4                 # half corridor width
            cx = 100 + rng.range(0, 10) * 4 + (40 * c if rng.chance(1, 2) else 0)
            yl = y + rng.range(5, 8) * 4
            dy = rng.range(8, 20) * 4
            yr = yl + dy
            free = rng.chance(1, 3)
            cid = 10 + 10 * c + rng.below(3)
            if free:
                a, b = ('P', cx - half, yl), ('P', cx + half, yr)
            else:
                bl = (len(boxes) + 1, cx - half - 20, yl - 12, cx - half, yl + 12)
                br = (len(boxes) + 2, cx + half, yr - 12, cx + half + 20, yr + 12)
                boxes += [bl, br]
                pins += [(bl[0], 1, '1', '0.5', '0', 8), (br[0], 2, '0', '0.5', '0', 4)]
                a, b = ('S', bl[0], 1), ('S', br[0], 2)
            if rng.chance(1, 2):
                a, b = b, a
            conns.append((cid, a, b))
            centres.append((cx, yl, yr))
            y = yr + rng.range(5, 10) * 4
            bends.append(y)
        # the fixed route: along the centre line of corridor 0, then (if it uses more corridors) over a bend in the free
        # level between two corridors on to the next centre line
        fid = rng.choice([5, 25, 45])                  # never a normal connector's id (10-12, 20-22, ...)
        use = rng.range(1, len(centres))
        top = centres[0][1] - rng.range(4, 12) * 4
        bottom = centres[use - 1][2] + rng.range(4, 12) * 4
        if use == 2 and rng.chance(1, 2):
            # make the bend the midpoint of the route's two ends: the library centres a Z-bend's middle segment between the
            # adjoining ends, so this fixed route is not shifted itself
            d = max(bends[0] - top, bottom - bends[0])
            top, bottom = bends[0] - d, bends[0] + d
        pts = [(centres[0][0], top)]
        for i in range(use - 1):
            if centres[i][0] != centres[i + 1][0]:
                pts.append((centres[i][0], bends[i]))
                pts.append((centres[i + 1][0], bends[i]))
        pts.append((centres[use - 1][0], bottom))
        if rng.chance(1, 5) and len(pts) == 2:
            # L-shaped fixed route: a last leg off to the side (no middle segment)
            pts.append((pts[-1][0] + rng.choice([-1, 1]) * rng.range(10, 30) * 4, pts[-1][1]))
        if rng.chance(1, 2):
            pts = pts[::-1]
        fixed[fid] = pts
        if fam == 18 and boxes:
            nt = rng.range(1, 2)
            for _ in range(nt):
                b = rng.choice(boxes)
                # a shift along the corridor axis only: the corridor keeps its width and its centre line
                sc['later'].append([('M', b[0], 0, rng.choice([-2, -1, 1, 2]) * 4)])
        elif fam == 18:
            sc['later'].append([])
    else:
        # family 17: staircase fixed route + connectors with ends on its lines
        nbends = rng.range(2, 5)
        x, y = 100 + rng.range(0, 10) * 4, 20 + rng.range(0, 5) * 4
        pts = [(x, y)]
        vertical = rng.chance(1, 2)
        sx, sy = rng.choice([-1, 1]), 1
        for i in range(nbends + 1):
            step = rng.range(6, 20) * 4
            if vertical:
                y += sy * step
            else:
                x += sx * step
                if rng.chance(1, 4):
                    sx = -sx
            pts.append((x, y))
            vertical = not vertical
        fid = rng.choice([5, 25, 45])                  # never a normal connector's id (10-12, 20-22, ...)
        fixed[fid] = pts if rng.chance(1, 2) else pts[::-1]
        # boxes away from the fixed route
        def near_route(b, m):
            for p, q in zip(pts, pts[1:]):
                x0, x1 = min(p[0], q[0]), max(p[0], q[0]); y0, y1 = min(p[1], q[1]), max(p[1], q[1])
                if not (b[2] + m <= x0 or x1 + m <= b[0] or b[3] + m <= y0 or y1 + m <= b[1]):
                    return True
            return False
        t = 0
        nb = rng.range(0, 3)
        xs = [p[0] for p in pts]; ysr = [p[1] for p in pts]
        while len(boxes) < nb and t < 100:
            t += 1
            bx = min(xs) - 60 + rng.range(0, (max(xs) - min(xs) + 120) // 4) * 4
            by = min(ysr) - 40 + rng.range(0, (max(ysr) - min(ysr) + 80) // 4) * 4
            b = (bx, by, bx + rng.range(3, 8) * 4, by + rng.range(3, 8) * 4)
            if not near_route(b, 12) and all(box_sep(b, o[1:], 16) for o in boxes):
                boxes.append((len(boxes) + 1,) + b)
        nc = rng.range(2, 4)
        used = set(pts)
        for c in range(nc):
            for _ in range(100):
                # ends relative to a segment of the fixed route: on its line beyond its ends, or beside it on either side
                i = rng.below(len(pts) - 1)
                p, q = pts[i], pts[i + 1]
                if p[0] == q[0]:
                    lo, hi = min(p[1], q[1]), max(p[1], q[1])
                    kind = rng.below(3)
                    if kind == 0:       # a Z across the segment whose middle is likely centred onto it
                        h = rng.range(4, 16) * 4
                        a = (p[0] - h, lo + rng.range(1, max(1, (hi - lo) // 8)) * 4)
                        b = (p[0] + h, hi - rng.range(1, max(1, (hi - lo) // 8)) * 4)
                    elif kind == 1:     # ends on the segment's own line, beyond it on both sides
                        a = (p[0], lo - rng.range(2, 10) * 4)
                        b = (p[0] + rng.range(-3, 3) * 4, hi + rng.range(2, 10) * 4)
                    else:
                        a = (p[0] + rng.range(-10, 10) * 4, lo + rng.range(-4, 4) * 4)
                        b = (p[0] + rng.range(-10, 10) * 4, hi + rng.range(-4, 4) * 4)
                else:
                    lo, hi = min(p[0], q[0]), max(p[0], q[0])
                    kind = rng.below(3)
                    if kind == 0:
                        h = rng.range(4, 16) * 4
                        a = (lo + rng.range(1, max(1, (hi - lo) // 8)) * 4, p[1] - h)
                        b = (hi - rng.range(1, max(1, (hi - lo) // 8)) * 4, p[1] + h)
                    elif kind == 1:
                        a = (lo - rng.range(2, 10) * 4, p[1])
                        b = (hi + rng.range(2, 10) * 4, p[1] + rng.range(-3, 3) * 4)
                    else:
                        a = (lo + rng.range(-4, 4) * 4, p[1] + rng.range(-10, 10) * 4)
                        b = (hi + rng.range(-4, 4) * 4, p[1] + rng.range(-10, 10) * 4)
                if a != b and a not in used and b not in used and not any(near_box(o[1:], a, 8) or near_box(o[1:], b, 8) for o in boxes):
                    break
            used.add(a); used.add(b)
            if rng.chance(1, 2):
                a, b = b, a
            conns.append((10 + 10 * c + rng.below(3), ('P',) + a, ('P',) + b))
    sc['boxes'] = boxes
    sc['pins'] = pins
    sc['conns'] = conns
    sc['fixed'] = fixed
    return _transform_pins(sc, rng.chance(1, 2), rng.chance(1, 2))


def scene_views(sc):
    """one scene per transaction of a scene with later transactions: the same scene (same script, `txn` = index of the
    transaction) with the boxes where the moveShape ops up to that transaction have put them; boxes0 keeps the initial ones"""
    later = sc.get('later') or []
    if not later:
        return [sc]
    views = []
    boxes = [tuple(b) for b in sc['boxes']]
    for t in range(len(later) + 1):
        if t > 0:
            for (_, sid, dx, dy) in later[t - 1]:
                boxes = [(b[0], b[1] + dx, b[2] + dy, b[3] + dx, b[4] + dy) if b[0] == sid else b for b in boxes]
        v = dict(sc)
        v['boxes0'] = [tuple(b) for b in sc.get('boxes0', sc['boxes'])]
        v['boxes'] = list(boxes)
        v['txn'] = t
        views.append(v)
    return views


def _transform(sc, mirror, swap):
    """mirror x -> 400 - x and / or swap the axes of a whole scene (boxes, connector ends, checkpoints)"""
    def tp(p):
        x, y = p
        if mirror:
            x = 400 - x
        return (y, x) if swap else (x, y)

    def tb(b):
        (x0, y0), (x1, y1) = tp((b[1], b[2])), tp((b[3], b[4]))
        return (b[0], min(x0, x1), min(y0, y1), max(x0, x1), max(y0, y1))
    sc['boxes'] = [tb(b) for b in sc['boxes']]
    sc['conns'] = [(c, ('P',) + tp(a[1:3]), ('P',) + tp(b[1:3])) for (c, a, b) in sc['conns']]
    sc['cps'] = {c: [tp(p) for p in ps] for c, ps in sc['cps'].items()}
    return sc


def gen_cpline(rng, sc):
    """families 13 / 15: a connector with 2-3 COLLINEAR checkpoints inside one straight segment of its route; the segment
    ends in a bend into a channel between two rectangles, so the adjoining (shiftable) segment is centred / nudged and
    must be limited by the checkpoint nearest to the bend (buildConnectorRouteCheckpointCache ->
    buildOrthogonalNudgingSegments prevCheckpoints / nextCheckpoints).  With and without the unifying step, with a second
    connector sharing the channel or elsewhere.  Family 15 puts the last checkpoint exactly on a channel wall."""
    fam = sc['family']
    sc['opts'] = [int(rng.chance(1, 2)) for _ in range(5)]
    sc['opts'][0] = int(rng.chance(1, 8))
    sc['nudge'] = rng.choice(['10', '4', '8', '6', '2', '5'])
    sc['pen'] = rng.choice(['50', '20', '100'])
    sc['buf'] = '0'
    sc['fspp'] = '0'
    w = rng.choice([16, 24, 32, 40, 48])
    c0 = 200
    a0, a1 = rng.range(10, 30) * 4, rng.range(10, 40) * 4
    y0 = 152
    h = rng.range(10, 30) * 4
    sc['boxes'] = [(1, c0 - a0, y0, c0, y0 + h), (2, c0 + w, y0, c0 + w + a1, y0 + h)]
    sc['pins'] = []
    Y = y0 - rng.range(3, 14) * 4                       # the line of the checkpoints, above the rectangles
    src = (c0 - a0 - rng.range(4, 20) * 4, Y)
    dst = (c0 + w + rng.range(4, 20) * 4, y0 + h + rng.range(4, 14) * 4)
    k = rng.range(2, 3)
    if fam == 15:
        last = c0 + w if rng.chance(1, 2) else c0
    elif rng.chance(3, 4):
        last = c0 + rng.range(1, w // 4 - 1) * 4        # strictly inside the channel
    else:
        last = c0 - rng.range(1, 8) * 4                 # before the channel
    xs = set([last])
    t = 0
    while len(xs) < k and t < 50:
        t += 1
        xs.add(src[0] + rng.range(2, max(3, (last - src[0]) // 4 - 1)) * 4)
    xs = sorted(x for x in xs if src[0] < x <= last)
    A = 10 + rng.below(3) * 10
    conns = [(A, ('P',) + src, ('P',) + dst)]
    cps = {A: [(x, Y) for x in xs]}
    used = set([src, dst])
    nb = rng.range(0, 2)
    for i in range(nb):
        for _ in range(50):
            if rng.chance(1, 2):                        # shares the channel
                s = (c0 - a0 + rng.range(2, 16) * 4, Y - rng.range(2, 12) * 4)
                d = (c0 + w + rng.range(4, 20) * 4, y0 + h + rng.range(4, 20) * 4)
            else:                                       # elsewhere
                s = (src[0] - rng.range(0, 10) * 4, Y - rng.range(2, 12) * 4)
                d = (dst[0] + rng.range(-4, 10) * 4, dst[1] + rng.range(2, 12) * 4)
            if s not in used and d not in used and not any(near_box(b[1:], s, 4) or near_box(b[1:], d, 4) for b in sc['boxes']):
                break
        used.add(s); used.add(d)
        if rng.chance(1, 3):
            s, d = d, s
        cid = rng.choice([5, 15, 25, 35]) + i
        conns.append((cid, ('P',) + s, ('P',) + d))
    if rng.chance(1, 2):                                # route A in the other direction (checkpoints in route order)
        conns[0] = (A, conns[0][2], conns[0][1])
        cps[A] = cps[A][::-1]
    if rng.chance(1, 2):
        conns = conns[::-1]
    sc['conns'] = conns
    sc['cps'] = cps
    return _transform(sc, rng.chance(1, 2), rng.chance(1, 2))


def gen_edge(rng, sc):
    """family 14: an END segment of one connector (a straight connector, or the first leg of an L / Z route) lies exactly
    on a rectangle edge along which another connector's MIDDLE segment runs (a C-bend round that side of the rectangle):
    the fixed segment's shift range [p, p] and the middle segment's range [p, +inf) touch in one point.  All orders of
    connector ids and of creation, all four sides."""
    sc['opts'] = [int(rng.chance(1, 2)) for _ in range(5)]
    sc['opts'][0] = int(rng.chance(1, 8))
    sc['nudge'] = rng.choice(['10', '4', '8', '6', '2', '5', '3'])
    sc['pen'] = rng.choice(['50', '20', '100'])
    sc['buf'] = '0'
    sc['fspp'] = '0'
    x0, y0 = 40 + rng.range(0, 5) * 4, 100
    x1, y1 = x0 + rng.range(20, 60) * 4, y0 + rng.range(20, 50) * 4
    sc['boxes'] = [(1, x0, y0, x1, y1)]
    sc['pins'] = []
    ids = [10, 20, 30]
    ia = rng.below(3)
    A = ids[ia]
    others = [i for i in ids if i != A]
    F = others[rng.below(2)]
    G = [i for i in others if i != F][0]
    ax = x1 - rng.range(2, 10) * 4                      # A starts and ends left of the edge, above / below the box
    a_s = (ax, y0 - rng.range(3, 18) * 4)
    a_d = (ax + rng.range(-2, 2) * 4, y1 + rng.range(3, 30) * 4)
    f_s = (x1, a_s[1] - rng.range(1, 6) * 4)           # F runs along x = x1, longer than A's stretch
    kind = rng.below(3)
    if kind == 0:
        f_d = (x1, a_d[1] + rng.range(1, 20) * 4)       # straight connector
    elif kind == 1:
        f_d = (x1 + rng.range(10, 30) * 4, a_d[1] + rng.range(1, 20) * 4)   # L: first leg on the edge line
    else:
        f_s = (x1, y0 + rng.range(2, 10) * 4 - 60)
        f_d = (x1, a_d[1] - rng.range(1, 2) * 4)        # straight, ends inside A's stretch
    conns = [(A, ('P',) + a_s, ('P',) + a_d), (F, ('P',) + f_s, ('P',) + f_d)]
    if rng.chance(1, 2):
        conns[0] = (A, conns[0][2], conns[0][1])
    if rng.chance(1, 2):
        conns[1] = (F, conns[1][2], conns[1][1])
    if rng.chance(1, 3):
        g_s = (x1 + rng.range(2, 20) * 4, a_s[1] + rng.range(-6, 6) * 4)
        g_d = (x1 + rng.range(2, 20) * 4, a_d[1] + rng.range(-6, 6) * 4)
        if g_s != g_d and g_s[0] != x1 and g_d[0] != x1:
            conns.append((G, ('P',) + g_s, ('P',) + g_d))
    order = rng.below(6)
    perm = [[0, 1, 2], [0, 2, 1], [1, 0, 2], [1, 2, 0], [2, 0, 1], [2, 1, 0]][order]
    sc['conns'] = [conns[i] for i in perm if i < len(conns)]
    sc['cps'] = {}
    return _transform(sc, rng.chance(1, 2), rng.chance(1, 2))


def scene_text(sc):
    L = ['R %s %s %s %s %s' % (sc['pen'], sc['nudge'], sc['buf'], sc['fspp'], ' '.join(str(o) for o in sc['opts']))]
    for (bid, x0, y0, x1, y1) in sc.get('boxes0', sc['boxes']):
        L.append('A %d %d %d %d %d' % (bid, x0, y0, x1, y1))
    for p in sc['pins']:
        L.append('N %d %d %s %s %s %d' % p)

    def end(e):
        if e[0] == 'D':
            return 'D %d %d %d' % (e[1], e[2], e[3])    # free end with ConnDirFlags
        return 'P %d %d' % (e[1], e[2]) if e[0] == 'P' else 'S %d %d' % (e[1], e[2])
    for (cid, a, b) in sc['conns']:
        L.append('C %d %s %s' % (cid, end(a), end(b)))
    for cid, ps in sorted(sc['cps'].items()):
        L.append('K %d %d %s' % (cid, len(ps), ' '.join('%d %d' % p for p in ps)))
    for cid, ps in sorted(sc.get('fixed', {}).items()):
        L.append('F %d %d %s' % (cid, len(ps), ' '.join('%d %d' % tuple(p) for p in ps)))
    L.append('P')
    for ops in sc.get('later') or []:
        for (_, sid, dx, dy) in ops:
            L.append('M %d %d %d' % (sid, dx, dy))
        L.append('P')
    L.append('X')
    return '\n'.join(L) + '\n'


# ------------------------------------------------------------------------------------------------ dump parser
def fx(s):
    return float.fromhex(s)


def parse_output(txt):
    """split harness output into per-scene results: dict(regions=[...], routes={id:{O,D,E}}, flags, exc)"""
    res = []
    cur = None
    reg = None
    lines = txt.split('\n')
    for line in lines:
        t = line.split()
        if not t:
            continue
        k = t[0]
        if k == 'NUDGE-BEGIN':
            cur = {'regions': [], 'routes': {}, 'flags': None, 'exc': None, 'done': False, 'passes': []}
            res.append(cur)
            reg = None
        elif cur is None:
            continue
        elif k == 'REGION':
            reg = {'dim': int(t[1]), 'unify': int(t[2]), 'base': fx(t[3]), 'nfs': int(t[4]), 'nsp': int(t[5]), 'n': int(t[6]),
                   'fspp': fx(t[7]), 'segs': [], 'rel': {}, 'vars': None, 'cons': None, 'gapcs': None, 'pot': None,
                   'iters': [], 'end': None}
            cur['regions'].append(reg)
        elif k == 'SEG':
            reg['segs'].append({'k': int(t[1]), 'conn': int(t[2]), 'pos': fx(t[3]), 'fixed': int(t[4]), 'final': int(t[5]),
                                'ends_in_shape': int(t[6]), 'cp': int(t[7]), 'single': int(t[8]), 'zigzag': int(t[9]),
                                'min': fx(t[10]), 'max': fx(t[11]), 'var': int(t[12]), 'des': fx(t[13]), 'wt': fx(t[14]),
                                'id': int(t[15]), 'lo': fx(t[16]), 'hi': fx(t[17]), 'nidx': int(t[18])})
        elif k == 'ALLSEG':
            cur['passes'].append({'dim': int(t[1]), 'unify': int(t[2]), 'n': int(t[3]), 'segs': [], 'routes': {}})
        elif k == 'AROUTE':
            n = int(t[2])
            cur['passes'][-1]['routes'][int(t[1])] = [(fx(t[3 + 2 * i]), fx(t[4 + 2 * i])) for i in range(n)]
        elif k == 'ASEG':
            nidx = int(t[16])
            cur['passes'][-1]['segs'].append({'conn': int(t[2]), 'pos': fx(t[3]), 'fixed': int(t[4]), 'final': int(t[5]),
                                              'cp': int(t[7]), 'zigzag': int(t[9]), 'min': fx(t[10]), 'max': fx(t[11]),
                                              'lo': fx(t[12]), 'hi': fx(t[13]), 'idx': [int(x) for x in t[17:17 + nidx]]})
        elif k == 'SEGX':
            pass
        elif k == 'REL':
            reg['rel'][(int(t[1]), int(t[2]))] = tuple(int(x) for x in t[3:7])
        elif k == 'VARS':
            n = int(t[1])
            reg['vars'] = [(int(t[2 + 3 * i]), fx(t[3 + 3 * i]), fx(t[4 + 3 * i])) for i in range(n)]
        elif k == 'CONS':
            n = int(t[1])
            cs = [(int(t[2 + 4 * i]), int(t[3 + 4 * i]), fx(t[4 + 4 * i]), int(t[5 + 4 * i])) for i in range(n)]
            if reg['cons'] is None:
                reg['cons'] = cs
            else:
                reg['iters'][-1]['cons_after'] = cs
        elif k == 'GAPCS':
            reg['gapcs'] = [int(x) for x in t[2:]]
        elif k == 'POT':
            n = int(t[1])
            reg['pot'] = [(int(t[2 + 2 * i]), int(t[3 + 2 * i])) for i in range(n)]
        elif k == 'SOLVE':
            n = int(t[2])
            reg['iters'].append({'sep': fx(t[1]), 'x': [fx(v) for v in t[3:3 + n]]})
        elif k == 'UNSAT':
            reg['iters'][-1]['unsat'] = [int(x) for x in t[2:]]
        elif k == 'SCAN':
            reg['iters'][-1]['sat_scan'] = int(t[1])
        elif k == 'RANGES':
            n = int(t[1])
            rs = [(int(t[2 + 2 * i]), int(t[3 + 2 * i])) for i in range(n)]
            it = reg['iters'][-1]
            if 'ranges_scan' not in it:
                it['ranges_scan'] = rs
            else:
                it['ranges_after'] = rs
        elif k == 'STEP':
            it = reg['iters'][-1]
            it['sep_after'] = fx(t[1]); it['sat_after'] = int(t[2]); it['just_added'] = int(t[3])
        elif k == 'END':
            n = int(t[3])
            reg['end'] = {'sat': int(t[1]), 'sep': fx(t[2]), 'pos': [fx(v) for v in t[4:4 + n]]}
        elif k == 'NUDGE-END':
            pass
        elif k in ('O', 'D'):
            cid = int(t[1]); n = int(t[2])
            cur['routes'].setdefault(cid, {})[k] = [(fx(t[3 + 2 * i]), fx(t[4 + 2 * i])) for i in range(n)]
        elif k == 'E':
            cur['routes'].setdefault(int(t[1]), {})['E'] = [(fx(t[2]), fx(t[3])), (fx(t[4]), fx(t[5]))]
        elif k == 'F':
            cur['flags'] = (int(t[1]), int(t[2]))
        elif k == '.':
            cur['done'] = True
        elif k == 'EXC':
            cur['exc'] = line[4:]
    return res


# ------------------------------------------------------------------------------------------------ driver protocol
def qstr(x):
    """a binary64 as an exact [-]HEX/HEX rational"""
    fr = F(x)
    return ('-' if fr < 0 else '') + '%x/%x' % (abs(fr.numerator), fr.denominator)


def conv_tok(t):
    if t.startswith('0x') or t.startswith('-0x'):
        return qstr(float.fromhex(t))
    return t


def split_scenes(txt):
    """harness output -> list of (dump lines, all lines) per processed scene"""
    out, cur, dump, in_dump = [], None, None, False
    for line in txt.split('\n'):
        if line.startswith('NUDGE-BEGIN'):
            cur, dump, in_dump = [], [], True
            out.append((dump, cur))
            continue
        if cur is None:
            continue
        if line.startswith('NUDGE-END') or line.startswith('EXC'):
            in_dump = False
        if in_dump and line:
            dump.append(line)
        cur.append(line)
    return out


def driver_regions(dump_lines, sc=None, complete=True):
    """the dump of one scene in the driver's number format; REGION records get the scene's
    nudgeOrthogonalTouchingColinearSegments option appended (hook H1 does not dump it), the scene's checkpoints go in
    front as CPS records (for the checkpoint-limit oracle of the pass records of hook H1b)"""
    out = []
    if sc is not None:
        for cid, ps in sorted(sc['cps'].items()):
            out.append('CPS %d %d %s' % (cid, len(ps), ' '.join('%s %s' % (qstr(p[0]), qstr(p[1])) for p in ps)))
    for l in dump_lines:
        x = ' '.join(conv_tok(t) for t in l.split())
        if sc is not None and l.startswith('REGION '):
            x += ' %d' % sc['opts'][1]
        if sc is not None and l.startswith('ALLSEG '):
            x += ' %d' % sc['opts'][0]              # nudgeOrthogonalSegmentsConnectedToShapes (linesort merges segments)
        out.append(x)
    return out + ['ENDREGIONS %d' % (1 if complete else 0)]


def count_passes(dump_lines):
    return sum(1 for l in dump_lines if l.startswith('ALLSEG '))


def attached(sc, cid):
    for (c, a, b) in sc['conns']:
        if c == cid:
            return [e[1] for e in (a, b) if e[0] == 'S']
    return []


def driver_scene(sc, res, tol='1/f4240'):
    L = ['SCENE %s %s' % (tol, qstr(float(sc['nudge'])))]
    for (bid, x0, y0, x1, y1) in sc['boxes']:
        L.append('BOX %d %s %s %s %s' % (bid, qstr(x0), qstr(y0), qstr(x1), qstr(y1)))
    for (cid, a, b) in sc['conns']:
        rt = res['routes'].get(cid, {})
        raw, disp = rt.get('O', []), rt.get('D', [])
        cps = sc['cps'].get(cid, [])

        def pts(ps):
            return '%d %s' % (len(ps), ' '.join('%s %s' % (qstr(p[0]), qstr(p[1])) for p in ps))
        att = attached(sc, cid)
        L.append('CONN %d %s %s %s %d %s' % (cid, pts(raw), pts(disp), pts(cps), len(att), ' '.join(str(x) for x in att)))
    for cid, given in sorted(sc.get('fixed', {}).items()):
        # a fixed route: the "raw" route is the route the client gave (route() returns exactly it, checked by the caller)
        rt = res['routes'].get(cid, {})
        disp = rt.get('D', [])

        def pts(ps):
            return '%d %s' % (len(ps), ' '.join('%s %s' % (qstr(p[0]), qstr(p[1])) for p in ps))
        L.append('CONN %d %s %s 0  0  FX' % (cid, pts([tuple(p) for p in given]), pts(disp)))
    L.append('ENDSCENE')
    return L


def parse_driver(txt):
    """-> (region verdicts, scene verdicts, pass verdicts)"""
    regs, scenes, passes = [], [], []
    for line in txt.split('\n'):
        if line.startswith('R ') or line.startswith('G '):
            d = {'line': line}
            for kv in line.split('notes=', 1)[0].split()[2:]:
                if '=' in kv:
                    k, v = kv.split('=', 1)
                    d[k] = v.strip('[]')
            d['notes'] = line.split('notes=', 1)[1] if 'notes=' in line else ''
            d['error'] = ' ERROR ' in line
            (regs if line[0] == 'R' else passes).append(d)
        elif line.startswith('S '):
            d = {'line': line, 'error': ' ERROR ' in line}
            for kv in line.split()[2:]:
                if '=' in kv:
                    k, v = kv.split('=', 1)
                    d[k] = v.strip('[]')
            scenes.append(d)
    return regs, scenes, passes


def region_json(g):
    d = dict(g)
    d['rel'] = [[i, j] + list(v) for (i, j), v in sorted(g['rel'].items())]
    return d


def on_route_py(ps, p):
    for a, b in zip(ps, ps[1:]):
        if min(a[0], b[0]) <= p[0] <= max(a[0], b[0]) and min(a[1], b[1]) <= p[1] <= max(a[1], b[1]):
            return True
    return False


def spur_tip(ps, p):
    """p lies on a stretch of the polyline that is traversed forth and back: there is a vertex where the polyline turns
    back on itself (incoming and outgoing directions opposite) and p is on both the incoming and the outgoing run"""
    q = [tuple(x) for i, x in enumerate(ps) if i == 0 or tuple(x) != tuple(ps[i - 1])]
    # merge straight runs first
    r = []
    for x in q:
        while len(r) >= 2:
            a, b = r[-2], r[-1]
            d1 = (b[0] - a[0], b[1] - a[1]); d2 = (x[0] - b[0], x[1] - b[1])
            if d1[0] * d2[1] - d1[1] * d2[0] == 0 and d1[0] * d2[0] + d1[1] * d2[1] > 0:
                r.pop()
            else:
                break
        r.append(x)

    def on(a, b):
        return min(a[0], b[0]) <= p[0] <= max(a[0], b[0]) and min(a[1], b[1]) <= p[1] <= max(a[1], b[1])
    for i in range(1, len(r) - 1):
        a, b, c = r[i - 1], r[i], r[i + 1]
        d1 = (b[0] - a[0], b[1] - a[1]); d2 = (c[0] - b[0], c[1] - b[1])
        if d1[0] * d2[1] - d1[1] * d2[0] == 0 and d1[0] * d2[0] + d1[1] * d2[1] < 0 and on(a, b) and on(b, c):
            return True
    return False


def cp_on_plain_fixed_segment(regions, cid, p):
    """some dumped nudging-stage region has a segment of connector cid that is fixed, has no checkpoints recorded, contains
    the point p, and is related by canAlignWith to another segment of the same connector which that region moved ONTO the
    fixed segment's position (it started elsewhere and ended there: the detour through the checkpoint became collinear)"""
    for g in regions:
        if g['unify'] or not g['end'] or not g['end']['sat']:
            continue
        across, along = (p[0], p[1]) if g['dim'] == 0 else (p[1], p[0])
        for i, s in enumerate(g['segs']):
            if s['conn'] == cid and s['fixed'] and not s['cp'] and s['pos'] == across and s['lo'] <= along <= s['hi']:
                for (a, b), rel in g['rel'].items():
                    if i in (a, b) and rel[2] and g['segs'][a]['conn'] == cid and g['segs'][b]['conn'] == cid:
                        j = b if i == a else a
                        if g['segs'][j]['pos'] != s['pos'] and abs(g['end']['pos'][j] - s['pos']) <= 1e-6:
                            return True
    return False


def cp_at_moved_corner(sc, regions, cid, p):
    """the unifying pass ran (option on, fixedSharedPathPenalty 0) and some dumped NUDGING-stage region has a non-fixed
    segment of connector cid without checkpoints whose position is exactly the checkpoint's coordinate in the shift
    dimension and one of whose ends is the checkpoint's other coordinate - the checkpoint sits exactly on the corner
    between this segment and the adjoining one (the unifying pass clamped the segment onto its checkpoint limit) - and
    whose limits leave room to move (buildOrthogonalNudgingSegments tests `< thisPos` / `> thisPos`, so a checkpoint AT
    thisPos no longer limits the segment)"""
    if not (sc['opts'][2] == 1 and float(sc['fspp']) == 0):
        return False
    for g in regions:
        d = g['dim']
        if g['unify']:
            # variant: the unifying-stage region itself moved a segment of the connector from elsewhere exactly onto the
            # checkpoint's coordinate (the checkpoint is the far vertex of the adjoining segment, which collapses to zero
            # length; the detour through the checkpoint becomes a collinear spur and is simplified away)
            if g['end'] and g['end']['sat']:
                for j, s in enumerate(g['segs']):
                    if s['conn'] == cid and not s['fixed'] and not s['cp'] and s['pos'] != p[d] \
                            and g['end']['pos'][j] == p[d] and p[1 - d] in (s['lo'], s['hi']):
                        return True
            continue
        for s in g['segs']:
            if s['conn'] == cid and not s['fixed'] and not s['cp'] and s['pos'] == p[d] and p[1 - d] in (s['lo'], s['hi']) \
                    and (s['min'] < s['pos'] or s['pos'] < s['max']):
                return True
    return False


def pair_flagged_shared(regions, a, b):
    """some dumped region ties a segment of connector a to a segment of connector b through overlapping segment pairs that
    carry the shared-path flag (the connector pair is in m_shared_path_connectors_with_common_endpoints): each such pair
    gets an EQUALITY constraint, so a chain a = c = b glues a and b together even when the pair (a, b) itself is not
    flagged"""
    for g in regions:
        adj = {}
        for (i, j), rel in g['rel'].items():
            if rel[0] and rel[3]:
                ci, cj = g['segs'][i]['conn'], g['segs'][j]['conn']
                adj.setdefault(ci, set()).add(cj)
                adj.setdefault(cj, set()).add(ci)
        seen, todo = {a}, [a]
        while todo:
            c = todo.pop()
            for d in adj.get(c, ()):
                if d not in seen:
                    seen.add(d)
                    todo.append(d)
        if b in seen and a in adj:
            return True
    return False


def sandwiched(regions, a, b):
    """the failing pair (a, b) sits in a nudging-stage region that ended unsatisfied and whose generated constraints
    contain a chain  fixed -> movable -> fixed  of positive gaps with the first fixed variable not left of the second
    (infeasible for every positive separation: the processing order put a movable segment between two immovable
    segments at the same position); an unsatisfied region writes nothing back, so every overlapping pair inside it stays"""
    for g in regions:
        if g['unify'] or not g['end'] or g['end']['sat']:
            continue
        owner = {s['var']: s['conn'] for s in g['segs']}
        if a not in owner.values() or b not in owner.values():
            continue
        vs, cs = g['vars'], g['cons']
        for (l1, m, g1, e1) in cs:
            if g1 > 0 and vs[l1][0] == 1 and vs[m][0] == 0:
                for (m2, r2, g2, e2) in cs:
                    if m2 == m and g2 > 0 and vs[r2][0] == 1 and vs[l1][1] >= vs[r2][1]:
                        return True         # the region cannot be satisfied: none of its pairs is separated
    return False


def _feasible(nv, cons, pinned):
    """difference constraints  x[l] + g <= x[r]  (and x[r] <= x[l] + g for equalities) with the variables in `pinned`
    held at the given values: Bellman-Ford from a virtual origin, True iff there is no negative cycle"""
    E = []
    for (l, r, g, eq) in cons:
        E.append((r, l, -g))                # x[l] - x[r] <= -g
        if eq:
            E.append((l, r, g))             # x[r] - x[l] <= g
    O = nv
    for i, v in pinned.items():
        E.append((O, i, v))                 # x[i] - x[O] <= v
        E.append((i, O, -v))                # x[O] - x[i] <= -v
    dist = [0.0] * (nv + 1)
    for _ in range(nv + 2):
        ch = False
        for (u, w, c) in E:
            if dist[u] + c < dist[w] - 1e-9:
                dist[w] = dist[u] + c
                ch = True
        if not ch:
            return True
    return False


def blocked_by_shared_equality(regions, a, b):
    """the failing pair (a, b) sits in a nudging-stage region that ended unsatisfied, whose last solved constraint system (gaps at
    the last positive separation tried, fixed / channel variables pinned at their positions) is infeasible, and becomes feasible
    when the EQUALITY constraints between segments of different connectors (the shared-path exemption; shouldAlignWith
    equalities are between segments of one connector) are dropped: nothing of the region is written back because of
    the exemption"""
    for g in regions:
        if g['unify'] or not g['end'] or g['end']['sat'] or not g['iters']:
            continue
        owner = {s['var']: s['conn'] for s in g['segs']}
        if a not in owner.values() or b not in owner.values():
            continue
        # the system the LAST solve of the region saw (gaps at the last positive separation tried)
        cons = (g['iters'][-2].get('cons_after') if len(g['iters']) >= 2 else None) or g['cons']
        vs = g['vars']
        pinned = {i: v[1] for i, v in enumerate(vs) if v[0] != 0}
        shared = [c for c in cons if c[3] and owner.get(c[0]) is not None and owner.get(c[1]) is not None
                  and owner[c[0]] != owner[c[1]]]
        if not shared:
            continue
        rest = [c for c in cons if c not in shared]
        if not _feasible(len(vs), cons, pinned) and _feasible(len(vs), rest, pinned):
            return True
    return False


def _runs(route):
    """maximal axis-parallel runs of a polyline: (vertical?, position, lo, hi)"""
    out = []
    for p, q in zip(route, route[1:]):
        if p == q:
            continue
        if p[0] == q[0]:
            out.append((True, p[0], min(p[1], q[1]), max(p[1], q[1])))
        elif p[1] == q[1]:
            out.append((False, p[1], min(p[0], q[0]), max(p[0], q[0])))
    return out


def overlap_created_across_dimensions(r, a, b, tol=1e-6):
    """every collinear overlap of the display routes of a and b is NEW: on that line the raw routes of a and b shared no
    stretch of positive length (so no region of that dimension ever held the two segments together - checked too), one of
    the two display segments is longer than the raw route's run on that line, i.e. it was lengthened by the shift of an
    adjoining segment in the OTHER dimension (centring / nudging of the second pass), into the other connector's segment"""
    da, db = _runs(r['routes'][a]['D']), _runs(r['routes'][b]['D'])
    ra, rb = _runs(r['routes'][a]['O']), _runs(r['routes'][b]['O'])
    found = False
    for (v1, p1, l1, h1) in da:
        for (v2, p2, l2, h2) in db:
            if v1 == v2 and abs(p1 - p2) <= tol and min(h1, h2) - max(l1, l2) > tol:
                found = True
                lo, hi = max(l1, l2), min(h1, h2)
                # raw coverage of the stretch [lo, hi] on that line by each connector
                def covers(runs):
                    return any(v == v1 and abs(p - p1) <= tol and min(h, hi) - max(l, lo) > tol for (v, p, l, h) in runs)
                if covers(ra) and covers(rb):
                    return False
                dim = 0 if v1 else 1
                for g in r['regions']:
                    if g['dim'] == dim:
                        cs = set(s['conn'] for s in g['segs'] if abs(s['pos'] - p1) <= tol)
                        if a in cs and b in cs:
                            return False
    return found


def order_against_limits(regions, a, b):
    """the failing pair (a, b) sits in a nudging-stage region that ended unsatisfied and whose last solved system holds a
    positive-gap constraint  L + gap <= R  between segments of two different connectors that no placement within the two
    segments' own limits can meet (lowest position of L + gap > highest position of R): the processing order contradicts
    the channel limits, the region cannot be satisfied and none of its pairs is separated.  Neither of the two segments is
    fixed in the sense of fixedOrder() (that case - a one-side-limited segment sorted on the wrong side of a fixed one - is
    what CmpLineOrder's fixed-order rule exists to prevent and is NOT covered by this finding)"""
    for g in regions:
        if g['unify'] or not g['end'] or g['end']['sat'] or not g['iters']:
            continue
        byvar = {s['var']: s for s in g['segs']}
        conns = set(s['conn'] for s in g['segs'])
        if a not in conns or b not in conns:
            continue
        cons = (g['iters'][-2].get('cons_after') if len(g['iters']) >= 2 else None) or g['cons']
        for (l, r, gap, eq) in cons:
            if gap > 0 and l in byvar and r in byvar and byvar[l]['conn'] != byvar[r]['conn']:
                sl, sr = byvar[l], byvar[r]
                # neither segment is "fixed" in the sense of NudgingShiftSegment::fixedOrder (fixed, or limited on both
                # sides within the nudging distance): CmpLineOrder's rule for ordering around a fixed segment does not
                # apply to the pair, the order came from the other rules
                if any(x['fixed'] or (x['pos'] - x['min'] < g['base'] and x['max'] - x['pos'] < g['base']) for x in (sl, sr)):
                    continue
                lowest = sl['pos'] if sl['fixed'] else sl['min']
                highest = sr['pos'] if sr['fixed'] else sr['max']
                if lowest + gap > highest:
                    return True
    return False


def fixed_route_middle_shifted(sc, r, cid, earlier=()):
    """finding fixed_route_middle_segment_shifted: connector cid has a fixed route, its display route has the same first
    and last point as the given route and no more bends (the unifying step may merge two shifted middle segments and the
    bends between them disappear), it differs from it, and some dumped region that ended
    satisfied holds a NON-fixed segment of cid (a middle segment of the fixed route built as a shiftable
    NudgingShiftSegment) whose written position differs from the position it had - in this transaction or in an earlier
    transaction of the same scene (`earlier` = the results of the earlier transactions: a fixed route is never rerouted,
    its display route persists)"""
    given = sc.get('fixed', {}).get(cid)
    disp = r['routes'].get(cid, {}).get('D')
    if not given or not disp:
        return False
    g = _simplify([tuple(float(v) for v in p) for p in given])
    d = _simplify(disp)
    if len(d) > len(g) or g[0] != d[0] or g[-1] != d[-1] or g == d:
        return False
    for rr in [r] + list(earlier):
        for reg in rr['regions']:
            if not reg['end'] or not reg['end']['sat']:
                continue
            for i, sg in enumerate(reg['segs']):
                if sg['conn'] == cid and not sg['fixed'] and not sg['final'] and reg['end']['pos'][i] != sg['pos']:
                    return True
    return False


def _simplify(ps):
    out = []
    for p in ps:
        p = tuple(p)
        if out and out[-1] == p:
            continue
        while len(out) >= 2 and ((out[-2][0] == out[-1][0] == p[0]) or (out[-2][1] == out[-1][1] == p[1])):
            out.pop()
        out.append(p)
    return out
