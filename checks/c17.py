"""C17 - libcola: all-pairs shortest paths and the layout distance matrix are exact (DESIGN 5.17).
proof: Graph/{Paths,FloydWarshall,Dijkstra,PairingHeap,BellmanFord,ApspAgree}.v (theorems about hand-written models of
floyd_warshall / dijkstra / johnsons / PairingHeap / computePathLengths);
tie (C): the compiled functions from /repo's working tree are run on generated multigraphs / heap op sequences and
compared exactly with the extracted models; search side: the extracted, verified Bellman-Ford oracle (bf_correct)
is compared with every matrix the implementation returns.  The check determines on every run which of the two
modelled initialisations of floyd_warshall (fw_init_current = overwrite, fw_init_fixed = minimum, skip self-loops)
the compiled code follows; fw_correct needs "no self-loop, parallel edges equal" for the former (fw_refuted, F-a)."""
import os, json, glob
from fractions import Fraction
from vlib import common as C

PID = 'C17'
SENT = 'M'
FA_FINGERPRINT = 'fw_init_overwrites'


# ------------------------------------------------------------------------------------------- generators
def dyadic(rng, zero_num=1, zero_den=6):
    if rng.chance(zero_num, zero_den):
        return (0, 1)
    s = rng.choice([0, 0, 0, 1, 2, 3, 4])
    return (rng.range(1, 40 if s == 0 else 255), 1 << s)


def gen_graph(rng, family, nmax, exact=False):
    """returns dict(n, edges=[(u,v,num,den)], weighted, family); exact: n = nmax"""
    n = rng.range(2, max(2, nmax))
    if exact:
        n = nmax
    es = []
    w = lambda: dyadic(rng)
    weighted = 1
    if family == 'sparse':
        m = rng.range(n // 2, 2 * n)
        es = [(rng.below(n), rng.below(n)) + w() for _ in range(m)]
    elif family == 'disconnected':
        # two or three clusters, some isolated nodes
        k = rng.range(2, 4)
        m = rng.range(n // 2, n + n // 2)
        for _ in range(m):
            c = rng.below(k)
            mem = [x for x in range(n) if x % (k + 1) == c]
            if len(mem) >= 1:
                es.append((rng.choice(mem), rng.choice(mem)) + w())
    elif family == 'multi':
        # parallel edges with different weights and self-loops on purpose
        m = rng.range(1, n + 2)
        base = [(rng.below(n), rng.below(n)) for _ in range(m)]
        for (u, v) in base:
            for _ in range(rng.range(1, 3)):
                a, b = (u, v) if rng.chance(1, 2) else (v, u)
                es.append((a, b) + w())
        for _ in range(rng.range(1, 3)):
            x = rng.below(n)
            es.append((x, x) + w())
        es = rng.shuffle(es)
    elif family == 'zero':
        m = rng.range(n, 2 * n)
        es = [(rng.below(n), rng.below(n)) + dyadic(rng, 3, 5) for _ in range(m)]
    elif family == 'dense':
        n = rng.range(2, min(nmax, 14))
        m = rng.range(n, n * n)
        es = [(rng.below(n), rng.below(n)) + w() for _ in range(m)]
    elif family == 'path':
        perm = rng.shuffle(list(range(n)))
        es = [(perm[i], perm[i + 1]) + w() for i in range(n - 1)]
        for _ in range(rng.range(0, 3)):
            es.append((rng.below(n), rng.below(n)) + w())
    elif family == 'grid':
        side = max(2, int(n ** 0.5))
        n = side * side
        for r in range(side):
            for c in range(side):
                if c + 1 < side:
                    es.append((r * side + c, r * side + c + 1) + w())
                if r + 1 < side:
                    es.append((r * side + c, (r + 1) * side + c) + w())
    elif family == 'unweighted':
        weighted = 0
        m = rng.range(0, 2 * n)
        es = [(rng.below(n), rng.below(n), 1, 1) for _ in range(m)]
    elif family == 'tiny':
        n = rng.range(1, 3)
        m = rng.range(0, 3)
        es = [(rng.below(n), rng.below(n)) + w() for _ in range(m)]
    elif family == 'neartie':
        # aimed at the relaxation comparison `v->d > u->d + w`: alternative routes whose lengths differ by 2^-k
        # (k = 20..50), dyadic so every path length is exact in binary64 (all sums < 64, grain >= 2^-50 per gadget)
        if rng.chance(1, 2):
            # chain of triangles p-q (W) versus p-r-q (W/2 + W/2 -/+ 2^-k)
            # exactness budget: (largest sum of two walk lengths) * 2^k < 2^53
            k = rng.range(20, 50)
            small = k > 45                      # k = 46..50: total length < 4, no other edges
            t = rng.range(1, 2 if small else 3)
            nodes, p = 1, 0
            for _ in range(t):
                r, q = nodes, nodes + 1
                nodes += 2
                wnum, wden = rng.choice([(1, 2), (1, 1)] if small else [(1, 2), (1, 1), (2, 1)])
                sgn = rng.choice([-1, -1, 1])
                K = 1 << k
                half = (wnum * K) // (2 * wden)
                es += [(p, q, wnum, wden), (p, r, half, K), (r, q, half + sgn, K)]
                p = q
            n = nodes + rng.range(0, 3)
            for _ in range(0 if small else rng.range(0, 3)):
                es.append((rng.below(n), rng.below(n), rng.range(8, 15), 1))
            perm = rng.shuffle(list(range(n)))
            es = [(perm[u], perm[v], a, b) if rng.chance(1, 2) else (perm[v], perm[u], a, b) for (u, v, a, b) in es]
            es = rng.shuffle(es)
        else:
            # random graph, weights c + s*2^-k with one k per graph: many near-ties between multi-edge routes
            n = rng.range(3, min(nmax, 12))
            k = rng.range(20, 45)
            K = 1 << k
            m = rng.range(n, 3 * n)
            es = [(rng.below(n), rng.below(n), rng.range(1, 4) * K + rng.choice([-1, 0, 0, 1, 2]), K) for _ in range(m)]
    elif family == 'tinyw':
        # every weight in [2^-40, 2^-20]
        n = rng.range(2, min(nmax, 40))
        m = rng.range(n, 3 * n)
        es = [(rng.below(n), rng.below(n), rng.range(1, 1 << 20), 1 << 40) for _ in range(m)]
    elif family == 'mixedmag':
        # weights of order 1 and of order 2^-30 on the same routes
        n = rng.range(2, min(nmax, 40))
        m = rng.range(n, 3 * n)
        es = [(rng.below(n), rng.below(n)) + ((rng.range(1, 8), 1) if rng.chance(1, 2) else (rng.range(1, 255), 1 << 30))
              for _ in range(m)]
    elif family == 'hugew':
        # weights of order 2^30 (and a few small ones)
        n = rng.range(2, min(nmax, 40))
        m = rng.range(n, 3 * n)
        es = [(rng.below(n), rng.below(n), rng.range(1, 255) * ((1 << 30) if rng.chance(4, 5) else 1), 1) for _ in range(m)]
    elif family == 'decimal':
        # not exactly representable weights: compared to 1e-9 relative only
        m = rng.range(n // 2, 2 * n)
        scale = rng.choice([1, 1, 10 ** 6, 10 ** 9])   # also tiny magnitudes (1e-9 .. 1e-7): the criterion is relative
        es = [(rng.below(n), rng.below(n), rng.range(0, 500), rng.choice([3, 7, 10, 100]) * scale) for _ in range(m)]
    return {'n': n, 'edges': [list(e) for e in es], 'weighted': weighted, 'family': family}


S_FAMILIES = ['sparse', 'disconnected', 'multi', 'zero', 'dense', 'path', 'grid', 'unweighted', 'tiny', 'decimal',
              'neartie', 'tinyw', 'mixedmag', 'hugew']


def gen_layout(rng, nmax, fam=None, ideal=None):
    fam = fam or rng.choice(['sparse', 'disconnected', 'multi', 'path', 'unweighted', 'tiny'])
    g = gen_graph(rng, fam, nmax)
    if g['weighted']:
        # non-positive ideal edge lengths (documented: replaced by 1)
        for e in g['edges']:
            r = rng.below(6)
            if r == 0:
                e[2], e[3] = 0, 1
            elif r == 1:
                e[2] = -abs(e[2]) if e[2] else -3
            elif e[2] == 0:
                e[2] = 1
    g['ideal'] = list(ideal or rng.choice([(1, 1), (3, 2), (50, 1), (1, 4), (7, 1), (25, 2), (1, 1024)]))
    g['family'] = 'layout-' + fam
    return g


def gen_heap(rng, nops):
    ops = []
    style = rng.below(3)   # 0 mixed, 1 insert-heavy then drain, 2 decreaseKey-heavy
    for i in range(nops):
        h = 0 if rng.chance(3, 4) else 1
        r = rng.below(100)
        if style == 1 and i > nops * 2 // 3:
            r = 50 + rng.below(25)
        if style == 2 and i > 20:
            r = 30 + rng.below(70)
        keyr = rng.choice([4, 30, 1000])
        if r < 40:
            ops.append('I %d %d' % (h, rng.below(keyr)))
        elif r < 48:
            ops.append('F %d' % h)
        elif r < 58:
            ops.append('D %d' % h)
        elif r < 72:
            ops.append('X %d' % h)
        elif r < 94:
            ops.append('K %d %d %d' % (h, rng.below(100000), rng.choice([0, 0, 1, 2, 5, 40])))
        else:
            ops.append('M %d %d' % (h, 1 - h))
    return ops


# ------------------------------------------------------------------------------------------- I/O
def graph_record(kind, gid, g, edges=None):
    es = g['edges'] if edges is None else edges
    head = '%s %s %d %d %d' % (kind, gid, g['n'], len(es), g['weighted'])
    if kind == 'L':
        head += ' %d %d' % tuple(g['ideal'])
    return head + '\n' + ''.join('%d %d %d %d\n' % tuple(e) for e in es)


def corrected_edges(g):
    out = []
    for (u, v, num, den) in g['edges']:
        if not g['weighted']:
            out.append([u, v, 1, 1])
        elif num <= 0:
            out.append([u, v, 1, 1])
        else:
            out.append([u, v, num, den])
    return out


def parse_val(tok):
    if tok == SENT:
        return SENT
    if tok == '-':
        return None
    if '/' in tok:
        a, b = tok.split('/')
        return Fraction(int(a), int(b))
    if 'x' in tok or 'p' in tok:
        return Fraction(float.fromhex(tok))
    return int(tok)


def parse_output(txt):
    """-> {id: {'n':..., tag: [values]}} for S/L records; {id: [lines]} for H records"""
    out, cur = {}, None
    for line in txt.split('\n'):
        if not line:
            continue
        f = line.split(' ')
        if f[0] in ('S', 'L') and len(f) == 3:
            cur = {'n': int(f[2])}
            out[f[1]] = cur
        elif f[0] == 'H' and len(f) == 3 and f[2] in ('0', '1'):
            cur = {'lines': []}
            out[f[1]] = cur
        elif cur is not None and 'lines' in cur:
            cur['lines'].append(line)
        elif cur is not None:
            cur[f[0]] = f[1:]
    return out


def vals(rec, tag):
    v = rec.get(tag)
    if v is None or (len(v) == 1 and v[0] in ('OUTOFFUEL', 'NOTCLOSED')):
        return None
    return [parse_val(t) for t in v]


def close(a, b, tol):
    """a: implementation value, b: reference; sentinel must match exactly"""
    if a == SENT or b == SENT:
        return a == b
    if a == b:
        return True
    if tol == 0:
        return False
    return abs(a - b) <= tol * abs(b)


def first_mismatch(n, got, ref, tol):
    if got is None or ref is None or len(got) != n * n or len(ref) != n * n:
        return {'what': 'missing or malformed matrix'}
    for k in range(n * n):
        if not close(got[k], ref[k], tol):
            return {'i': k // n, 'j': k % n, 'got': fmt(got[k]), 'expected': fmt(ref[k])}
    return None


def fmt(v):
    if v == SENT:
        return 'unreachable-sentinel'
    if v is None:
        return '-'
    if isinstance(v, Fraction):
        if v.denominator == 1:
            return str(v.numerator) if abs(v.numerator) < 10 ** 18 else '%d (~%.17g)' % (v.numerator, float(v))
        t = '%d/%d' % (v.numerator, v.denominator)
        return t if v.denominator < 10 ** 6 else '%s (~%.17g)' % (t, float(v))
    return str(v)


def fmt_matrix(n, m):
    return [[fmt(m[i * n + j]) for j in range(n)] for i in range(n)] if m and len(m) == n * n else None


class Runner:
    def __init__(self, litmax, modelmax, djmax):
        self.cpp = C.build_harness('c17_sp', ['libcola', 'libvpsc'], 'plain')
        self.model = C.ocaml_build('c17', 'C17.v', 'c17_driver.ml', 'c17_model.ml')
        self.args = [str(litmax), str(modelmax), str(djmax)]

    def run_many(self, records, timeout=3000, workers=8):
        """records: [(id, text, obj)]; the C++ side runs once, the model side in parallel chunks balanced by n^3"""
        import concurrent.futures
        text = ''.join(r[1] for r in records)
        rc1, o1, e1, t1 = C.sh([self.cpp], input=text, timeout=timeout)
        bins = [[0, []] for _ in range(workers)]
        for rid, rtxt, obj in sorted(records, key=lambda r: -(r[2].get('n', 10) ** 3)):
            b = min(bins, key=lambda b: b[0])
            b[0] += obj.get('n', 10) ** 3 + 1000
            b[1].append(rtxt)
        bins = [b for b in bins if b[1]]
        import time
        t0 = time.time()
        with concurrent.futures.ThreadPoolExecutor(max_workers=len(bins)) as ex:
            outs = list(ex.map(lambda b: C.sh([self.model] + self.args, input=''.join(b[1]), timeout=timeout), bins))
        rc2, merged, e2 = 0, {}, ''
        for rc, o, e, dt in outs:
            if rc != 0:
                rc2, e2 = rc, e
            merged.update(parse_output(o))
        return (rc1, parse_output(o1), e1, t1), (rc2, merged, e2, time.time() - t0)

    def run(self, text, timeout=1500, args=None):
        rc1, o1, e1, t1 = C.sh([self.cpp], input=text, timeout=timeout)
        rc2, o2, e2, t2 = C.sh([self.model] + (args or self.args), input=text, timeout=timeout)
        return (rc1, parse_output(o1), e1, t1), (rc2, parse_output(o2), e2, t2)


# ------------------------------------------------------------------------------------------- per-graph checks
def has_fa_shape(g):
    """classifier for F-a: a self-loop, or two edges on the same node pair with different weights"""
    seen = {}
    for (u, v, num, den) in g['edges']:
        if u == v:
            return True
        k = (min(u, v), max(u, v))
        w = Fraction(num, den) if g['weighted'] else Fraction(1)
        if k in seen and seen[k] != w:
            return True
        seen.setdefault(k, w)
    return False


def check_sp(g, crec, mrec):
    """compare one S graph. returns dict(oracle=[...property failures...], corr=[...model/impl disagreements...],
    variant='fixed'|'current'|'both'|'neither')"""
    n = g['n']
    exact = all(d & (d - 1) == 0 for (_, _, _, d) in g['edges'])
    tol = Fraction(0) if exact else Fraction(1, 10 ** 9)
    bf = vals(mrec, 'BF')
    res = {'oracle': [], 'corr': [], 'variant': None}
    if bf is None:
        res['corr'].append({'what': 'Bellman-Ford oracle returned no answer (closure check failed)'})
        return res
    impl = {t: vals(crec, t) for t in ('FW', 'JO', 'DJ')}
    for t, name in (('FW', 'floyd_warshall'), ('JO', 'johnsons'), ('DJ', 'dijkstra')):
        mm = first_mismatch(n, impl[t], bf, Fraction(1, 10 ** 9))
        if mm:
            mm.update({'algorithm': name, 'what': '%s differs from the shortest-path metric (verified Bellman-Ford oracle)' % name})
            res['oracle'].append(mm)
            continue
        m = impl[t]
        for i in range(n):
            if m[i * n + i] != 0:
                res['oracle'].append({'algorithm': name, 'what': 'diagonal not zero', 'i': i, 'j': i, 'got': fmt(m[i * n + i]), 'expected': '0'})
                break
        for k in range(n * n):
            i, j = k // n, k % n
            if not close(m[k], m[j * n + i], Fraction(1, 10 ** 9)):
                res['oracle'].append({'algorithm': name, 'what': 'matrix not symmetric', 'i': i, 'j': j, 'got': fmt(m[k]), 'expected': fmt(m[j * n + i])})
                break
    for a, b in (('FW', 'JO'), ('JO', 'DJ')):
        if impl[a] and impl[b]:
            mm = first_mismatch(n, impl[a], impl[b], Fraction(1, 10 ** 9))
            if mm and not res['oracle']:
                mm.update({'algorithm': a + ' vs ' + b, 'what': 'the algorithms disagree with each other'})
                res['oracle'].append(mm)
    # correspondence with the models
    fwc, fwf = vals(mrec, 'FWC'), vals(mrec, 'FWF')
    if fwc is not None and fwf is not None and impl['FW'] is not None:
        okc = first_mismatch(n, impl['FW'], fwc, tol) is None
        okf = first_mismatch(n, impl['FW'], fwf, tol) is None
        res['variant'] = 'both' if okc and okf else 'fixed' if okf else 'current' if okc else 'neither'
        if not okc and not okf:
            res['corr'].append({'what': 'floyd_warshall matches neither modelled variant',
                                'vs_fixed': first_mismatch(n, impl['FW'], fwf, tol),
                                'vs_current': first_mismatch(n, impl['FW'], fwc, tol)})
        mm = first_mismatch(n, fwf, bf, Fraction(0))
        if mm:
            res['corr'].append({'what': 'extracted fw_fixed differs from extracted Bellman-Ford (contradicts fw_correct_fixed)', 'at': mm})
    for lit, fast in (('FWCL', 'FWC'), ('FWFL', 'FWF')):
        a, b = vals(mrec, lit), vals(mrec, fast)
        if a is not None and b is not None:
            mm = first_mismatch(n, a, b, Fraction(0))
            if mm:
                res['corr'].append({'what': 'literal and row-organised Floyd-Warshall models differ (%s)' % lit, 'at': mm})
    jo = vals(mrec, 'JO')
    if 'JO' in mrec:
        if jo is None:
            res['corr'].append({'what': 'Dijkstra model ran out of fuel'})
        else:
            for t in ('JO', 'DJ'):
                mm = first_mismatch(n, impl[t], jo, tol)
                if mm:
                    res['corr'].append({'what': 'implementation %s differs from the Dijkstra model' % t, 'at': mm})
            mm = first_mismatch(n, jo, bf, Fraction(0))
            if mm:
                res['corr'].append({'what': 'extracted johnsons differs from extracted Bellman-Ford (contradicts johnsons_correct)', 'at': mm})
    return res


def check_layout(g, crec, mrec, mrec_corrected):
    n = g['n']
    ideal = Fraction(*g['ideal'])
    out = {'oracle': [], 'corr': []}
    ld, lg = vals(crec, 'LD'), vals(crec, 'LG')
    bf = vals(mrec_corrected, 'BF')
    if ld is None or lg is None or len(ld) != n * n or len(lg) != n * n or bf is None:
        out['corr'].append({'what': 'missing layout output / oracle'})
        return out
    adj = set()
    for (u, v, _, _) in g['edges']:
        adj.add((u, v)); adj.add((v, u))
    for k in range(n * n):
        i, j = k // n, k % n
        if i == j:
            if ld[k] != 0:
                out['oracle'].append({'what': 'D diagonal not zero', 'i': i, 'j': j, 'got': fmt(ld[k])})
                break
            continue
        exp = SENT if bf[k] == SENT else bf[k] * ideal
        if not close(ld[k], exp, Fraction(1, 10 ** 9)):
            out['oracle'].append({'what': 'readLinearD differs from idealLength x shortest path over the corrected lengths',
                                  'i': i, 'j': j, 'got': fmt(ld[k]), 'expected': fmt(exp)})
            break
        gexp = 1 if (i, j) in adj else (0 if bf[k] == SENT else 2)
        if lg[k] != gexp:
            out['oracle'].append({'what': 'readLinearG classification wrong (0 disconnected / 1 neighbours / 2 connected)',
                                  'i': i, 'j': j, 'got': lg[k], 'expected': gexp})
            break
    mld, mlg = vals(mrec, 'LD'), vals(mrec, 'LG')
    if mld is None:
        out['corr'].append({'what': 'compute_path_lengths model gave no answer'})
    else:
        mm = first_mismatch(n, ld, mld, Fraction(0))
        if mm:
            out['corr'].append({'what': 'readLinearD differs from the compute_path_lengths model', 'at': mm})
        for k in range(n * n):
            if k // n != k % n and lg[k] != mlg[k]:
                out['corr'].append({'what': 'readLinearG differs from the model', 'i': k // n, 'j': k % n, 'got': lg[k], 'expected': mlg[k]})
                break
    return out


# ---- pairing heap oracle: multiset + heap order from the dumped structure
def parse_dump(tok_str):
    """'4[12[20] 22]' -> (list of element strings, heap-order ok flag).  key = int before optional '.id'"""
    elems, ok = [], True
    stack = []      # keys of open ancestors
    cur = ''
    last_key = None

    def key_of(s):
        return int(s.split('.')[0])

    for ch in tok_str + ' ':
        if ch in '[] ':
            if cur:
                elems.append(cur)
                last_key = key_of(cur)
                if stack and last_key < stack[-1]:
                    ok = False
                cur = ''
            if ch == '[':
                stack.append(last_key)
            elif ch == ']':
                stack.pop()
        else:
            cur += ch
    return elems, ok


def check_heap(ops, lines):
    """independent oracle on the implementation's own output"""
    from collections import Counter
    if len(lines) != len(ops):
        return {'what': 'heap harness produced %d lines for %d ops' % (len(lines), len(ops))}
    state = [Counter(), Counter()]
    for idx, (op, line) in enumerate(zip(ops, lines)):
        parts = line.split(' | ')
        head = parts[0].split()
        new = []
        for h in range(2):
            size, dump = parts[1 + h].split(' ', 1)
            el, ok = parse_dump(dump) if dump != '-' else ([], True)
            if not ok:
                return {'op_index': idx, 'op': op, 'what': 'heap order violated in the stored structure', 'line': line}
            if int(size) != len(el):
                return {'op_index': idx, 'op': op, 'what': 'size() differs from the number of stored nodes', 'line': line}
            new.append(Counter(int(e.split('.')[0]) for e in el))
        f = op.split()
        kind, h = f[0], int(f[1])
        exp = [Counter(state[0]), Counter(state[1])]
        if kind == 'I':
            exp[h][int(f[2])] += 1
        elif kind in ('F', 'D', 'X'):
            if not state[h]:
                if head[-1] != 'U':
                    return {'op_index': idx, 'op': op, 'what': 'no Underflow on an empty heap', 'line': line}
            else:
                mn = min(state[h].elements())
                if kind in ('F', 'X') and int(head[1].split('.')[0]) != mn:
                    return {'op_index': idx, 'op': op, 'what': 'findMin/extractMin did not return a minimal element',
                            'returned': head[1], 'minimum_stored': mn, 'line': line}
                if kind in ('D', 'X'):
                    exp[h][mn] -= 1
                    exp[h] = +exp[h]
        elif kind == 'K':
            if head[1] != '-':
                nk = int(head[2])
                old = nk + int(f[3])
                exp[h][old] -= 1
                exp[h] = +exp[h]
                exp[h][nk] += 1
        elif kind == 'M':
            o = int(f[2])
            exp[h] = state[h] + state[o]
            exp[o] = Counter()
        if new != exp:
            return {'op_index': idx, 'op': op, 'what': 'multiset of stored keys not preserved by the operation', 'line': line,
                    'expected_keys': [sorted(e.elements()) for e in exp], 'stored_keys': [sorted(e.elements()) for e in new]}
        state = new
    return None


# ------------------------------------------------------------------------------------------- shrinking
def shrink_graph(runner, g, kind, still_fails):
    """greedy delta-debugging on the edge list, then drop unused trailing nodes"""
    g = dict(g, edges=[list(e) for e in g['edges']])
    budget = 150
    changed = True
    while changed and budget > 0:
        changed = False
        i = 0
        while i < len(g['edges']) and budget > 0:
            cand = dict(g, edges=g['edges'][:i] + g['edges'][i + 1:])
            budget -= 1
            if still_fails(cand):
                g = cand
                changed = True
            else:
                i += 1
    # renumber nodes densely
    used = sorted(set(x for e in g['edges'] for x in e[:2]))
    if used and budget > 0:
        mp = {x: k for k, x in enumerate(used)}
        cand = dict(g, n=len(used), edges=[[mp[e[0]], mp[e[1]], e[2], e[3]] for e in g['edges']])
        if still_fails(cand):
            g = cand
    if not g['edges']:
        for nn in (1, 2, 3):
            if nn < g['n'] and still_fails(dict(g, n=nn)):
                g = dict(g, n=nn)
                break
    return g


def sp_failure(runner, g, alg=None):
    if g['n'] < 1:
        return None
    (rc1, c, e1, _), (rc2, m, e2, _) = runner.run(graph_record('S', 'x', g), timeout=120, args=['0', '0', '0'])
    if rc1 != 0 or rc2 != 0 or 'x' not in c or 'x' not in m:
        return None
    r = check_sp(g, c['x'], m['x'])
    for o in r['oracle']:
        if alg is None or o.get('algorithm') == alg:
            return o
    return None


def layout_failure(runner, g):
    txt = graph_record('L', 'x', g) + graph_record('S', 'xc', dict(g, weighted=1), corrected_edges(g))
    (rc1, c, e1, _), (rc2, m, e2, _) = runner.run(txt, timeout=120, args=['0', '0', '0'])
    if rc1 != 0 or rc2 != 0 or 'x' not in c or 'x' not in m or 'xc' not in m:
        return None
    r = check_layout(g, c['x'], m['x'], m['xc'])
    return r['oracle'][0] if r['oracle'] else None


def matrices_for(runner, g):
    (rc1, c, e1, _), (rc2, m, e2, _) = runner.run(graph_record('S', 'x', g), timeout=120, args=['0', '100', '100'])
    n = g['n']
    d = {}
    if 'x' in c:
        for t in ('FW', 'JO', 'DJ'):
            d['implementation_' + t] = fmt_matrix(n, vals(c['x'], t))
    if 'x' in m:
        d['expected_shortest_paths_oracle'] = fmt_matrix(n, vals(m['x'], 'BF'))
        d['model_fw_current'] = fmt_matrix(n, vals(m['x'], 'FWC'))
        d['model_fw_fixed'] = fmt_matrix(n, vals(m['x'], 'FWF'))
    return d


# ------------------------------------------------------------------------------------------- the check
def load_corpus():
    cases = []
    for p in sorted(glob.glob(os.path.join(C.VERIF, 'corpus', 'c17_*.json'))):
        try:
            j = json.load(open(p))
        except (OSError, ValueError):
            continue
        for k, g in enumerate(j.get('graphs', [])):
            g = dict(g)
            g.setdefault('weighted', 1)
            g['family'] = 'corpus:' + os.path.basename(p)
            cases.append(g)
    return cases


def run(tier):
    res = C.Result(PID, tier, 'proof')
    info = C.prove(res, PID)
    res.assumptions = [
        'binary64 evaluation equals exact rational evaluation on the dyadic weights used (sums of at most a few hundred values k/2^s, '
        's <= 4, k < 256; validated by the exact comparison, not proved); non-dyadic weights are compared to 1e-9 relative only',
        'numeric_limits<double>::max() is modelled as None (= +infinity); weights are >= 0 as the property states',
        'the hand-written models mirror the C++ (validated by the exact correspondence on every run, including the heap structure after every operation)']
    quick = tier == 'quick'
    nmax = 60 if quick else 300
    litmax = 20 if quick else 32
    modelmax = 60 if quick else 300
    djmax = 60 if quick else 300
    runner = Runner(litmax, modelmax, djmax)
    rng = C.SplitMix64(C.get_seed())

    # ---- cases
    sgraphs = load_corpus()
    n_corpus = len(sgraphs)
    per_family = 8 if quick else 14
    for fam in S_FAMILIES:
        r = rng.fork()
        for k in range(per_family * (3 if fam == 'neartie' else 1)):
            cap = nmax if k == 0 else (24 if k % 2 else 60)
            if not quick and k == 0:
                cap = 110
            sgraphs.append(gen_graph(r, fam, min(cap, nmax)))
    # large ones (exact sizes)
    r = rng.fork()
    big = [('sparse', nmax), ('multi', nmax)] if quick else [('sparse', 300), ('multi', 200), ('disconnected', 260), ('grid', 225), ('zero', 150)]
    for fam, sz in big:
        sgraphs.append(gen_graph(r, fam, sz, exact=True))
    # always present: disconnected graphs with idealLength < 1, = 1, > 1 (the sentinel must not be scaled), then random
    forced = [('disconnected', (1, 4)), ('disconnected', (50, 1)), ('disconnected', (1, 1)), ('multi', (1, 1024)),
              ('unweighted', (1, 4)), ('sparse', (3, 2)), ('tiny', (1, 4))]
    lgraphs = [gen_layout(rng.fork(), 30, fam, ideal) for fam, ideal in forced]
    lgraphs += [gen_layout(rng.fork(), 40 if quick else 90) for _ in range(20 if quick else 50)]
    hcases = []
    r = rng.fork()
    for k in range(10 if quick else 30):
        hcases.append((k % 2, gen_heap(r, 250 if quick else 800)))

    records = []
    for k, g in enumerate(sgraphs):
        records.append(('s%d' % k, graph_record('S', 's%d' % k, g), g))
    for k, g in enumerate(lgraphs):
        records.append(('l%d' % k, graph_record('L', 'l%d' % k, g), g))
        records.append(('l%dc' % k, graph_record('S', 'l%dc' % k, dict(g, weighted=1), corrected_edges(g)), g))
    for k, (mode, ops) in enumerate(hcases):
        records.append(('h%d' % k, 'H h%d %d %d\n' % (k, mode, len(ops)) + '\n'.join(ops) + '\n', {'mode': mode, 'ops': ops}))
    (rc1, cpp, err1, t_cpp), (rc2, mod, err2, t_mod) = runner.run_many(records, timeout=3000)
    if rc2 != 0:
        raise RuntimeError('model driver failed: ' + err2[-2000:])
    if rc1 != 0:
        # the implementation crashed / aborted / hung: isolate the record
        culprit = None
        for rid, rtxt, obj in records:
            rc, o, e, dt = C.sh([runner.cpp], input=rtxt, timeout=300)
            if rc != 0:
                culprit = (rid, rtxt, obj, rc, e)
                break
        if culprit:
            rid, rtxt, obj, rc, e = culprit
            res.violation({'what': 'the implementation crashes / aborts / does not terminate on this input (exit code %s; 124 = timeout, '
                                   '-11 = SIGSEGV, -6 = abort/assertion)' % rc, 'record_id': rid,
                           'input': obj if len(rtxt) < 20000 else {'n': obj.get('n'), 'edges': len(obj.get('edges', []))},
                           'stderr_tail': e[-1500:], 'replay': 'feed this record to build/bin/c17_sp-plain-*:\n' + rtxt[:4000]})
        else:
            res.violation({'what': 'harness c17_sp failed on the whole input but on no single record', 'rc': rc1,
                           'stderr': err1[-2000:]}, no_input=True)
        return res.finish()

    # ---- shortest paths
    oracle_fail, corr_fail, variants = [], [], {'fixed': 0, 'current': 0, 'both': 0, 'neither': 0}
    evals = 0
    nontrivial = 0
    hist = {}
    for k, g in enumerate(sgraphs):
        gid = 's%d' % k
        hist[g['family']] = hist.get(g['family'], 0) + 1
        if gid not in cpp or gid not in mod:
            corr_fail.append((g, {'what': 'no output for graph ' + gid}))
            continue
        r = check_sp(g, cpp[gid], mod[gid])
        evals += 3 * g['n'] * g['n']
        bf = vals(mod[gid], 'BF')
        if bf:
            direct = {}
            for (u, v, num, den) in g['edges']:
                w = Fraction(num, den) if g['weighted'] else Fraction(1)
                for a, b in ((u, v), (v, u)):
                    direct[(a, b)] = min(direct.get((a, b), w), w)
            n = g['n']
            if any(bf[i * n + j] != SENT and i != j and ((i, j) not in direct or bf[i * n + j] < direct[(i, j)])
                   for i in range(n) for j in range(n)) and any(x == SENT for x in bf) or len(g['edges']) > g['n']:
                nontrivial += 1
        if r['variant']:
            variants[r['variant']] += 1
        for o in r['oracle']:
            oracle_fail.append((g, o))
        for c in r['corr']:
            corr_fail.append((g, c))

    if variants['neither'] == 0 and variants['current'] == 0:
        impl_variant = 'fw_init_fixed'
    elif variants['neither'] == 0 and variants['fixed'] == 0:
        impl_variant = 'fw_init_current'
    else:
        impl_variant = 'neither'

    # ---- layout
    lay_oracle, lay_corr = [], []
    for k, g in enumerate(lgraphs):
        hist[g['family']] = hist.get(g['family'], 0) + 1
        a, b, c = 'l%d' % k, 'l%d' % k, 'l%dc' % k
        if a not in cpp or a not in mod or c not in mod:
            lay_corr.append((g, {'what': 'no output for layout graph ' + a}))
            continue
        r = check_layout(g, cpp[a], mod[a], mod[c])
        evals += 2 * g['n'] * g['n']
        for o in r['oracle']:
            lay_oracle.append((g, o))
        for x in r['corr']:
            lay_corr.append((g, x))

    # ---- heap
    heap_oracle, heap_corr = [], []
    heap_ops = 0
    for k, (mode, ops) in enumerate(hcases):
        hid = 'h%d' % k
        cl = cpp.get(hid, {}).get('lines', [])
        ml = mod.get(hid, {}).get('lines', [])
        heap_ops += len(ops)
        o = check_heap(ops, cl)
        if o:
            o.update({'mode': mode, 'ops': ops[:o.get('op_index', 0) + 1]})
            heap_oracle.append(o)
        d = C_first_diff(cl, ml)
        if d is not None:
            heap_corr.append({'what': 'PairingHeap differs from the functional model', 'mode': mode, 'op_index': d,
                              'ops': ops[:d + 1], 'implementation': cl[d:d + 1], 'model': ml[d:d + 1]})
    evals += heap_ops

    # ---- decide
    reported = set()
    for g, o in oracle_fail:
        alg = o.get('algorithm', '?')
        if alg in reported:
            continue
        reported.add(alg)
        small = shrink_graph(runner, g, 'S', lambda c: sp_failure(runner, c, alg) is not None)
        fail = sp_failure(runner, small, alg) or o
        obj = {'what': fail.get('what'), 'algorithm': alg, 'graph': {'n': small['n'], 'weighted': small['weighted'],
               'edges_u_v_num_den': small['edges']}, 'entry': {k: fail.get(k) for k in ('i', 'j', 'got', 'expected')},
               'found_on': {'family': g['family'], 'n': g['n'], 'edges': len(g['edges'])},
               'floyd_warshall_follows_model_variant': impl_variant,
               'replay': 'printf "%s" | <build/bin/c17_sp-plain-*>   (record format: harness/c17_sp.cpp)' % graph_record('S', 'x', small).replace('\n', '\\n')}
        obj.update(matrices_for(runner, small))
        fp = None
        if alg == 'floyd_warshall' and impl_variant == 'fw_init_current' and has_fa_shape(small):
            fp = FA_FINGERPRINT
            obj['classification'] = ('F-a: floyd_warshall initialises D[u][v]=D[v][u]=w per edge: the last parallel edge wins and a self-loop '
                                     'overwrites the diagonal (Coq: fw_refuted; fw_correct needs no_self_loops /\\ parallel_equal)')
        res.violation(obj, fingerprint=fp)
    for g, o in lay_oracle[:1]:
        small = shrink_graph(runner, g, 'L', lambda c: layout_failure(runner, c) is not None)
        fail = layout_failure(runner, small) or o
        res.violation({'what': fail.get('what'), 'graph': {'n': small['n'], 'weighted': small['weighted'], 'ideal': small['ideal'],
                       'edge_lengths_u_v_num_den': small['edges']}, 'entry': {k: fail.get(k) for k in ('i', 'j', 'got', 'expected')},
                       'replay': 'printf "%s" | <build/bin/c17_sp-plain-*>' % graph_record('L', 'x', small).replace('\n', '\\n')})
    for o in heap_oracle[:1]:
        res.violation(dict(o, replay='feed "H x %d %d" + the ops to build/bin/c17_sp-plain-*' % (o['mode'], len(o['ops']))))

    any_oracle = bool(oracle_fail or lay_oracle or heap_oracle)
    broken_corr = corr_fail or lay_corr or heap_corr or impl_variant == 'neither'
    if not any_oracle and (not info['ok'] or broken_corr):
        first = None
        if corr_fail:
            g, c = corr_fail[0]
            first = {'graph': {'n': g['n'], 'weighted': g['weighted'], 'edges_u_v_num_den': g['edges'][:200]}, 'disagreement': c}
        elif lay_corr:
            g, c = lay_corr[0]
            first = {'layout_graph': {'n': g['n'], 'ideal': g['ideal'], 'edges': g['edges'][:200]}, 'disagreement': c}
        elif heap_corr:
            first = heap_corr[0]
        res.violation({'what': 'a proof obligation or the model/implementation correspondence no longer checks; the search against the '
                               'Bellman-Ford oracle, the layout oracle and the heap multiset oracle on %d graphs / %d heap ops found no input on '
                               'which the property itself fails' % (len(sgraphs) + len(lgraphs), heap_ops),
                       'broken_files': info.get('broken'), 'broken_lemmas': info.get('broken_lemmas'), 'forbidden': info.get('forbidden'),
                       'floyd_warshall_follows_model_variant': impl_variant, 'variant_counts': variants,
                       'first_correspondence_disagreement': first,
                       'n_disagreements': len(corr_fail) + len(lay_corr) + len(heap_corr),
                       'coq_log_tail': info['log'][-2500:] if not info['ok'] else ''}, no_input=True)

    samples = []
    for k in (0, len(sgraphs) // 2, len(sgraphs) - 1):
        g = sgraphs[k]
        bf = vals(mod.get('s%d' % k, {}), 'BF') or []
        samples.append({'family': g['family'], 'n': g['n'], 'edges': len(g['edges']),
                        'unreachable_pairs': sum(1 for x in bf if x == SENT),
                        'max_finite_distance': fmt(max([x for x in bf if x != SENT] or [0]))})
    res.cov.update({
        'evaluations': evals, 'distinct_nontrivial': nontrivial,
        'rule': 'evaluations = matrix entries of floyd_warshall/johnsons/dijkstra and of readLinearD/G compared with the oracle, plus heap '
                'operations; non-trivial = graphs with more edges than nodes or with both an unreachable pair and a pair whose shortest '
                'path is not a single edge',
        'graphs': len(sgraphs), 'corpus_graphs': n_corpus, 'layout_graphs': len(lgraphs), 'heap_sequences': len(hcases), 'heap_ops': heap_ops,
        'max_nodes': max(g['n'] for g in sgraphs), 'input_distribution': hist,
        'graphs_with_selfloop_or_unequal_parallel_edges': sum(1 for g in sgraphs if has_fa_shape(g)),
        'floyd_warshall_follows_model_variant': impl_variant, 'variant_counts': variants,
        'applicable_theorem': {'fw_init_fixed': 'fw_correct_fixed (no hypothesis on the multigraph)',
                               'fw_init_current': 'fw_correct (only under no_self_loops /\\ parallel_equal); fw_refuted applies',
                               'neither': 'none - correspondence broken'}[impl_variant],
        'traces_validated_against_impl': evals, 'exhaustive': False, 'samples': samples,
        'oracle_failures': len(oracle_fail) + len(lay_oracle) + len(heap_oracle),
        'correspondence_disagreements': len(corr_fail) + len(lay_corr) + len(heap_corr),
        'model_limits': {'literal_fw_model_up_to_n': litmax, 'fw_model_up_to_n': modelmax, 'dijkstra_model_up_to_n': djmax,
                         'bellman_ford_oracle': 'every graph'},
        'wall_cpp_s': round(t_cpp, 2), 'wall_model_s': round(t_mod, 2)})
    return res.finish()


def C_first_diff(a, b):
    if len(a) != len(b):
        return min(len(a), len(b))
    for i in range(len(a)):
        if a[i] != b[i]:
            return i
    return None


def replay(path):
    print(open(path).read())
    return 0


def warm():
    C.build_harness('c17_sp', ['libcola', 'libvpsc'], 'plain')
    C.ocaml_build('c17', 'C17.v', 'c17_driver.ml', 'c17_model.ml')


META = {
    'property_id': PID,
    'level_claimed': {
        'category': 'proof',
        'text': 'Coq theorems, for all finite multigraphs with weights >= 0 (self-loops, parallel edges, zero weights, disconnected) and all '
                'operation sequences, over hand-written executable models that mirror the C++: fw_correct_fixed (floyd_warshall with the '
                'repaired initialisation = the shortest-path metric `dist`, None exactly for unreachable pairs; diagonal 0; symmetric), '
                'fw_correct (the snapshot initialisation, only under no_self_loops /\\ parallel_equal) with fw_refuted (witness of defect F-a), '
                'dijkstra_sound / dijkstra_optimal (generic in vertex type, adjacency function, map and priority queue), johnsons_correct, '
                'johnsons_total, johnsons_eq_fw*, johnsons_diag_zero / johnsons_symmetric / johnsons_sentinel_iff / fw_fixed_sentinel_iff / apsp_all_agree (Graph/ApspAgree.v: the matrix johnsons returns has a zero diagonal, is symmetric, holds the unreachable sentinel exactly for pairs without any walk, and floyd_warshall, johnsons and the Bellman-Ford oracle agree entry by entry), path_lengths_scaled (D = idealLength x dist over lengths with non-positive entries replaced '
                'by 1, G = 0/1/2), heap_min (+ multiset effect of insert / deleteMin / decreaseKey / merge), bf_correct (the oracle). '
                'Tie: on every run the compiled floyd_warshall / johnsons / dijkstra / ConstrainedFDLayout::readLinearD,G / PairingHeap from '
                "/repo's working tree are compared exactly with the extracted models (graphs up to 60 nodes quick / 300 thorough, dyadic "
                'weights; heap structure after every operation) and with the extracted verified Bellman-Ford oracle; the check determines '
                'which modelled floyd_warshall initialisation the compiled code follows and reports F-a as a violation if it is the '
                'overwriting one.',
        'design_ref': 'DESIGN.md 5.17, 6 F-a'},
    'level_note': 'Trusted: Coq kernel; the hand-written models (Graph/*Model.v) as mirrors of shortest_paths.h / pairing_heap.h / '
                  'colafd.cpp:227-273 - validated by the exact correspondence, not derived from the source (no cpp2v tie: the code is '
                  'pointer/array based); exact-rational model of binary64 with None for numeric_limits<double>::max() (exact on the dyadic '
                  'inputs; non-dyadic weights compared to 1e-9 relative); extraction (ExtrOcamlBasic), the OCaml driver, the C++ harness, the '
                  'Python heap-multiset oracle. The row-organised Floyd-Warshall loops equal the literal element-wise loops '
                  '(fw_loops_lit_eq, proved; both are also extracted and compared for n <= 20/32). Not proved: '
                  'that Dijkstra as compiled drives the heap within the callers-obligations of heap_min (Node keys are mutated in place before '
                  'decreaseKey); heap amortised complexity; G[i][i] (never written by computePathLengths, uninitialised) is excluded. '
                  'Print Assumptions: closed under the global context for every theorem.',
    'technique': 'Coq proof over hand-written models + exact model/implementation correspondence + extracted verified Bellman-Ford oracle',
}
