"""C12 - hook H2 op-log correspondence (tools/hooks/H2.patch; DESIGN 5.12 "Tie").
Parses the "H2 ..." records the C12 harness prints for every transaction, turns every hyperedge-improvement and every
hyperedge-rerouting section into a command script for the extracted segment-level model (Avoid/HyperSegModel.v through
extract/c12_driver.ml: SEG / OP / ADJ / SAME / END / SMOOTH) and judges the driver's answers:
  (i)   every logged operation is defined in the model and its leaf-preservation guard holds,
  (ii)  after every operation the touched node has the logged neighbours, and the model's final graph is the logged AFTER tree,
  (iii) "tree whose degree-1 nodes are the terminal connector ends" holds before and after (verified checker), the terminal
        shapes at the leaves are the same before and after, and the connector-level reading (smooth) of the AFTER tree is the
        connector/junction graph the router really has (H2 C records at the end of the section)."""
import os
from vlib import common as C

HOOK_FILES = ('hyperedgetree.h', 'hyperedgetree.cpp', 'hyperedgeimprover.cpp', 'hyperedge.cpp', 'mtst.cpp')


def hook_present(repo=None):
    d = os.path.join(repo or C.REPO, 'cola', 'libavoid')
    try:
        return all('verif_hyper_log' in open(os.path.join(d, f)).read() for f in HOOK_FILES)
    except OSError:
        return False


class Namer:
    """pointer -> small model node id; a freed pointer may be reused by the allocator and then names a new node"""
    def __init__(self):
        self.cur, self.n = {}, 0

    def new(self, p):
        self.n += 1
        self.cur[p] = self.n
        return self.n

    def get(self, p):
        return self.cur.get(p)

    def free(self, p):
        self.cur.pop(p, None)


def parse_end(w, i):
    if w[i] == 'J':
        return ('J', int(w[i + 1])), i + 2
    if w[i] == 'S':
        return ('S', int(w[i + 1]), int(w[i + 2])), i + 3
    return ('P', float(w[i + 1]), float(w[i + 2])), i + 3


def parse_conn(w):
    a, i = parse_end(w, 3)
    b, i = parse_end(w, i)
    return int(w[2]), (a, b)


def split_sections(lines):
    """-> list of (kind, [token lists], complete)"""
    out, cur = [], None
    for l in lines:
        w = l.split()
        if len(w) < 2:
            continue
        if w[1] in ('REROUTE-BEGIN', 'IMPROVE-BEGIN'):
            if cur:
                out.append((cur[0], cur[1], False))
            cur = ('reroute' if w[1] == 'REROUTE-BEGIN' else 'improve', [w])
        elif cur:
            cur[1].append(w)
            if w[1] in ('REROUTE-END', 'IMPROVE-END'):
                out.append((cur[0], cur[1], True))
                cur = None
    if cur:
        out.append((cur[0], cur[1], False))
    return out


def read_trees(ws, i):
    """ws[i] is an 'H2 TREE tag' record; returns (tag, nodes {ptr: dict}, edges [(pa, pb, conn, fixed)], next index)"""
    tag = ws[i][2]
    nodes, edges = {}, []
    i += 1
    while i < len(ws) and ws[i][1] != 'ENDTREE':
        w = ws[i]
        if w[1] == 'N':
            nodes[w[2]] = {'junction': int(w[3]), 'pt': (float(w[4]), float(w[5])), 'src': w[6] == '1', 'final': w[7], 'dummy': w[8] == '1'}
        elif w[1] == 'E':
            edges.append((w[2], w[3], int(w[4]), w[5] == '1'))
        i += 1
    return tag, nodes, edges, i + 1


def degs(edges):
    d = {}
    for e in edges:
        d[e[0]] = d.get(e[0], 0) + 1
        d[e[1]] = d.get(e[1], 0) + 1
    return d


def leaf_terminals(nodes, edges, conns):
    """leaf pointer -> terminal descriptor: the non-junction end of the leaf's connector (shape id) or None"""
    d = degs(edges)
    out = {}
    for e in edges:
        for p, q in ((e[0], e[1]), (e[1], e[0])):
            if d.get(p) == 1:
                ends = conns.get(e[2])
                t = None
                if ends:
                    ns = [x for x in ends if x[0] != 'J']
                    if len(ns) == 1:
                        t = ns[0]
                    elif len(ns) == 2:
                        # a connector between two terminals (no junction): the end on this side
                        t = ns[0] if nodes.get(p, {}).get('src') else ns[1]
                if nodes.get(p, {}).get('junction', -1) >= 0:
                    t = ('JLEAF', nodes[p]['junction'])
                out[p] = t
    return out


class Section:
    """command script for one logged section + what is needed to judge the answers"""
    def __init__(self, kind, complete):
        self.kind, self.complete = kind, complete
        self.cmds = []          # (command text, meta dict)
        self.static = []        # problems found while parsing (before any model answer)
        self.info = {}

    def add(self, text, **meta):
        self.cmds.append((text, meta))


def edge_cmd(nm, edges):
    ids = []
    for e in edges:
        ids.append('%d %d' % (nm.get(e[0]), nm.get(e[1])))
    return '%d %s' % (len(edges), ' '.join(ids))


def rec_text(w):
    return ' '.join(w[1:])


# ------------------------------------------------------------------------------------------------ improvement
def plan_improve(ws, complete):
    sec = Section('improve', complete)
    major = ws[0][2] == '1'
    sec.info['major'] = major
    conns_before, conns_after = {}, {}
    before, after = [], []
    recs = []
    i = 1
    seen_after = False
    while i < len(ws):
        w = ws[i]
        if w[1] == 'TREE':
            tag, nodes, edges, i = read_trees(ws, i)
            (before if tag == 'before' else after).append((nodes, edges))
            seen_after = seen_after or tag == 'after'
            continue
        if w[1] == 'C':
            cid, ends = parse_conn(w)
            (conns_after if (seen_after or recs) else conns_before)[cid] = ends
        elif w[1] not in ('IMPROVE-END',):
            recs.append(w)
        i += 1
    sec.info.update(conns_before=conns_before, conns_after=conns_after, ntrees=len(before))
    if len(before) != 1:
        # the scenes of this check hold one hyperedge: a section with no tree (nothing to improve) or several is not replayed
        sec.info['skipped'] = 'trees=%d' % len(before)
        if len(before) > 1:
            sec.static.append({'kind': 'multi_tree', 'what': 'improvement section with %d hyperedge trees (the check\'s scenes hold one hyperedge)' % len(before)})
        return sec
    nodes, edges = before[0]
    nm = Namer()
    for p in nodes:
        nm.new(p)
    junc = {p: n['junction'] for p, n in nodes.items() if n['junction'] >= 0}     # tracked junction of every node
    d = degs(edges)
    leaves = [p for p in nodes if d.get(p, 0) == 1]
    sec.info['terminals_before'] = sorted(str(t) for t in leaf_terminals(nodes, edges, conns_before).values())
    sec.info['nodes_before'] = len(nodes)
    # classifier input for finding F-j (terminal_on_tree_path), a predicate on the tree *as built*: a junction sits on a
    # connector end (the junction node and a leaf that carries no junction are joined by zero-length segments only)
    cls = {p: p for p in nodes}

    def find(x):
        while cls[x] != x:
            x = cls[x]
        return x
    for a, b, c, f in edges:
        if nodes[a]['pt'] == nodes[b]['pt']:
            cls[find(a)] = find(b)
    on_end = []
    for p in nodes:
        if p in junc:
            for q in nodes:
                if q not in junc and d.get(q) == 1 and find(q) == find(p):
                    on_end.append({'junction': junc[p], 'at': nodes[p]['pt'], 'connector_end_of': [c for a, b, c, f in edges if q in (a, b)]})
    sec.info['junction_on_connector_end'] = on_end
    # connector ends (leaves that carry no junction) are anchored at their terminal: the place they have in the tree as built
    # must be the place of every later record that names them (HyperedgeTreeNode::isImmovable: a node with one edge)
    leaf_pt = {p: nodes[p]['pt'] for p in leaves if p not in junc}
    leaf_term = leaf_terminals(nodes, edges, conns_before)
    sec.add('SEG %s %d %s' % (edge_cmd(nm, edges), len(leaves), ' '.join(str(nm.get(p)) for p in leaves)), what='before',
            edges=[(nm.get(a), nm.get(b), c) for a, b, c, f in edges])
    compound = None      # (kind, self, target, ncommon, nother, folds done)
    expect = {'newj': [], 'newc': [], 'delj': [], 'delc': [], 'connend': []}
    nops = 0

    def known(*ps):
        bad = [p for p in ps if nm.get(p) is None]
        if bad:
            sec.static.append({'kind': 'unknown_node', 'what': 'op log names a node that is not in the tree (unlogged creation or stale pointer)', 'record': rec_text(w), 'unknown': bad})
            return False
        return True
    for k, w in enumerate(recs):
        r = w[1]
        if r == 'JJMERGE':
            keep, dele, cid = int(w[2]), int(w[3]), int(w[4])
            holder = [p for p, j in junc.items() if j == dele]
            for p in holder:
                del junc[p]
            if not holder:
                sec.static.append({'kind': 'jjmerge_unknown', 'what': 'JJMERGE deletes a junction the tree does not hold', 'record': rec_text(w)})
            if not major:
                sec.static.append({'kind': 'minor_major', 'what': 'junctions coalesced although major changes are off', 'record': rec_text(w)})
            expect['delj'].append(dele)
            expect['delc'].append(cid)
        elif r == 'CONTRACT':
            tgt, src = w[2], w[3]
            if not known(tgt, src):
                continue
            if (w[5], w[6]) != (w[7], w[8]):
                sec.static.append({'kind': 'geom_contract', 'what': 'removeZeroLengthEdges contracts an edge whose ends are at different places (precondition "zero length")',
                                   'record': rec_text(w)})
            for q, xy in ((tgt, (float(w[5]), float(w[6]))), (src, (float(w[7]), float(w[8])))):
                if q in leaf_pt and leaf_pt[q] != xy:
                    sec.static.append({'kind': 'leaf_displaced', 'what': 'a connector end (leaf of the hyperedge tree, anchored at its terminal) has been moved by the segment '
                                       'shifting before this contraction: the contraction happens away from the terminal', 'diverging_op': rec_text(w),
                                       'leaf_position_in_tree_as_built': leaf_pt[q], 'position_at_contraction': xy, 'leaf_terminal': leaf_term.get(q)})
            if src in junc:
                sec.static.append({'kind': 'junction_lost', 'what': 'the absorbed node of a contraction still carries a junction (junction lost without JJMERGE)', 'record': rec_text(w),
                                   'junction': junc[src]})
                del junc[src]
            sec.add('OP C %d %d' % (nm.get(tgt), nm.get(src)), what='op', record=rec_text(w), junction=junc.get(tgt))
            nm.free(src)
            nops += 1
        elif r == 'ADJ':
            p = w[2]
            nb = [w[j] for j in range(4, len(w), 2)]
            if not known(p, *nb):
                continue
            ids = [nm.get(x) for x in nb]
            if compound and compound.get('dropped_pending') and p == compound['target'] and nm.get(compound['self']) in ids:
                # the model's fold_drop has already deleted the emptied junction node; the code does so one record later
                ids.remove(nm.get(compound['self']))
            sec.add('ADJ %d %d %s' % (nm.get(p), len(ids), ' '.join(map(str, ids))), what='adj', record=rec_text(w),
                    after_op=next((m['record'] for c, m in reversed(sec.cmds) if m.get('what') == 'op'), None))
        elif r == 'SUBDIVIDE':
            a, b, n = w[2], w[3], w[4]
            if not known(a, b):
                continue
            nid = nm.new(n)
            sec.add('OP S %d %d %d' % (nm.get(a), nm.get(b), nid), what='op', record=rec_text(w))
            nops += 1
        elif r in ('MOVEJ', 'SPLITJ'):
            j, s, t = int(w[2]), w[3], w[4]
            compound = {'kind': r, 'self': s, 'target': t, 'ncommon': int(w[5]), 'nother': int(w[6]), 'folds': 0, 'junction': j}
            if junc.get(s) != j:
                sec.static.append({'kind': 'move_start', 'what': 'junction move starts at a node that does not hold that junction in the replayed tree', 'record': rec_text(w),
                                   'tracked': junc.get(s)})
            if r == 'SPLITJ' and not major:
                sec.static.append({'kind': 'minor_major', 'what': 'junction split although major changes are off', 'record': rec_text(w)})
            if t in junc:
                sec.static.append({'kind': 'move_onto_junction', 'what': 'junction moved onto a node that already holds a junction', 'record': rec_text(w)})
        elif r == 'FOLD':
            s, t, u = w[2], w[3], w[4]
            if not known(s, t, u):
                continue
            if (w[6], w[7]) != (w[8], w[9]):
                sec.static.append({'kind': 'geom_fold', 'what': 'moveJunctionAlongCommonEdge merges two neighbours that are at different places (precondition "common edge")',
                                   'record': rec_text(w)})
            if u in junc:
                sec.static.append({'kind': 'fold_junction', 'what': 'a node holding a junction is merged away by a junction move', 'record': rec_text(w), 'junction': junc[u]})
            last_drop = False
            if compound and compound['self'] == s:
                compound['folds'] += 1
                last_drop = compound['kind'] == 'MOVEJ' and compound['nother'] == 0 and compound['folds'] == compound['ncommon'] - 1
            else:
                sec.static.append({'kind': 'fold_outside', 'what': 'FOLD outside a junction move', 'record': rec_text(w)})
            sec.add('OP %s %d %d %d' % ('FD' if last_drop else 'F', nm.get(s), nm.get(t), nm.get(u)), what='op', record=rec_text(w))
            if last_drop:
                compound['dropped_pending'] = True
            nm.free(u)
            nops += 1
        elif r == 'DROPLEAF':
            s = w[2]
            if not (compound and compound.get('dropped_pending') and compound['self'] == s):
                sec.static.append({'kind': 'drop_unexpected', 'what': 'the old junction node is deleted although the replayed move leaves it other edges (or no move is open)',
                                   'record': rec_text(w)})
            else:
                compound['dropped_pending'] = False
                compound['dropped'] = True
            nm.free(s)
        elif r == 'RELABEL':
            pass
        elif r == 'MOVEJ-END':
            j, t = int(w[2]), w[3]
            if compound:
                if compound['nother'] == 0 and not compound.get('dropped'):
                    sec.static.append({'kind': 'move_nodrop', 'what': 'junction move with no other edges did not delete the old junction node', 'record': rec_text(w)})
                if compound['folds'] != compound['ncommon'] - 1:
                    sec.static.append({'kind': 'fold_count', 'what': 'junction move logged %d merges for %d common edges' % (compound['folds'], compound['ncommon']), 'record': rec_text(w)})
                junc.pop(compound['self'], None)
            junc[t] = j
            compound = None
        elif r == 'SPLITJ-END':
            j, s, nj, t, cid = int(w[2]), w[3], int(w[4]), w[5], int(w[6])
            if compound and compound['folds'] != compound['ncommon'] - 1:
                sec.static.append({'kind': 'fold_count', 'what': 'junction split logged %d merges for %d common edges' % (compound['folds'], compound['ncommon']), 'record': rec_text(w)})
            junc[t] = nj
            expect['newj'].append(nj)
            expect['newc'].append((cid, nj, j))
            compound = None
        elif r == 'CONNEND':
            expect['connend'].append((int(w[2]), w[3], int(w[4])))
        elif r == 'DELC':
            expect.setdefault('delc_done', []).append(int(w[2]))
        elif r == 'DELJ':
            expect.setdefault('delj_done', []).append(int(w[2]))
    sec.info['ops'] = nops
    sec.info['expect'] = expect
    if not after:
        if complete:
            sec.static.append({'kind': 'no_after', 'what': 'no AFTER tree in a complete improvement section'})
        return sec
    anodes, aedges = after[0]
    unknown = [p for p in anodes if nm.get(p) is None]
    if unknown:
        sec.static.append({'kind': 'after_unknown', 'what': 'the AFTER tree holds nodes the replay does not know (unlogged creation)', 'unknown': unknown[:6]})
        return sec
    sec.add('END %s' % edge_cmd(nm, aedges), what='end')
    jn = [p for p, n in anodes.items() if n['junction'] >= 0]
    sec.add('SMOOTH %d %s' % (len(jn), ' '.join(str(nm.get(p)) for p in jn)), what='smooth')
    # junction bookkeeping of the replay against the AFTER dump
    ajunc = {p: n['junction'] for p, n in anodes.items() if n['junction'] >= 0}
    if ajunc != junc:
        sec.static.append({'kind': 'junction_bookkeeping', 'what': 'junction placement after the replayed moves differs from the AFTER tree (unlogged junction change)',
                           'replayed': sorted(junc.values()), 'after': sorted(ajunc.values())})
    for q, xy in leaf_pt.items():
        if q in anodes and anodes[q]['pt'] != xy and not any(pr.get('kind') == 'leaf_displaced' for pr in sec.static):
            sec.static.append({'kind': 'leaf_displaced', 'what': 'a connector end (leaf of the hyperedge tree, anchored at its terminal) is at a different place in the AFTER tree',
                               'leaf_position_in_tree_as_built': xy, 'position_after': anodes[q]['pt'], 'leaf_terminal': leaf_term.get(q)})
    sec.info['after'] = {'ids': {p: nm.get(p) for p in anodes}, 'nodes': anodes, 'edges': aedges}
    sec.info['terminals_after'] = sorted(str(t) for t in leaf_terminals(anodes, aedges, conns_after).values())
    return sec


def conn_paths(anodes, aedges):
    """per connector label: (ok, end nodes) - its edges must form one path whose inner nodes have degree 2 in the tree and
    carry no junction and whose ends are junction nodes or leaves"""
    d = degs(aedges)
    by = {}
    for a, b, c, f in aedges:
        by.setdefault(c, []).append((a, b))
    out = {}
    for c, es in by.items():
        dc = degs([(a, b) for a, b in es])
        ends = sorted(p for p, k in dc.items() if k == 1)
        inner = [p for p, k in dc.items() if k == 2]
        ok = len(ends) == 2 and len(ends) + len(inner) == len(dc) and len(es) == len(dc) - 1 and \
            all(d[p] == 2 and anodes[p]['junction'] < 0 for p in inner) and \
            all(d[p] == 1 or anodes[p]['junction'] >= 0 for p in ends)
        out[c] = (ok, ends)
    return out


def judge_improve(sec, answers):
    probs = list(sec.static)
    ai = 0
    smooth = None
    end = None
    for (text, meta), ans in zip(sec.cmds, answers):
        a = ans.split()
        k = meta['what']
        if k == 'before':
            if a[1] != '1':
                probs.append({'kind': 'before_inv', 'what': 'the hyperedge tree as built by HyperedgeImprover::execute is not a tree whose degree-1 nodes are the connector ends',
                              'connected': a[2] == '1', 'acyclic': a[3] == '1', 'edges': meta['edges'], 'stage': 'before'})
        elif k == 'op':
            if a[1] != '1':
                probs.append({'kind': 'op_undefined', 'what': 'logged operation is not applicable in the model (its structural precondition fails)', 'diverging_op': meta['record'],
                              'model_cmd': text})
            elif a[2] != '1':
                probs.append({'kind': 'op_guard', 'what': 'logged operation does not preserve the terminal leaf set: the model guard fails (a connector end is merged into a '
                                      'branching node / swallowed by a junction move)', 'diverging_op': meta['record'], 'model_cmd': text, 'guard': False,
                              'surviving_node_holds_junction': meta.get('junction')})
            if a[3] != '1':
                probs.append({'kind': 'op_not_tree', 'what': 'the graph is not a tree after the logged operation', 'diverging_op': meta['record'], 'model_cmd': text})
        elif k == 'adj':
            if a[1] != '1':
                probs.append({'kind': 'adj', 'what': 'after the logged operation the node\'s neighbours in the implementation differ from the model (an edge list was not '
                                      'spliced, or one edge too many was moved)', 'diverging_op': meta.get('after_op'), 'logged_neighbours': meta['record'],
                              'logged_as_model_ids': text, 'model_neighbours': a[3:]})
        elif k == 'end':
            end = a
            if a[1] != '1':
                probs.append({'kind': 'end_graph', 'what': 'the model\'s tree after replaying the op log differs from the logged AFTER tree (unlogged structural edit)',
                              'model_cmd': text[:400]})
            if a[2] != '1':
                probs.append({'kind': 'after_inv', 'what': 'AFTER: not a tree whose degree-1 nodes are the (renamed) terminal leaves', 'tree': a[3] == '1', 'model_leaves': a[5:],
                              'stage': 'after'})
        elif k == 'smooth':
            smooth = [int(x) for x in a[2:]]
    if len(answers) < len(sec.cmds):
        probs.append({'kind': 'answers_short', 'what': 'model driver gave fewer answers than commands'})
    info = sec.info
    if 'after' in info and smooth is not None and sec.complete:
        A = info['after']
        rid = {v: p for p, v in A['ids'].items()}
        lt = leaf_terminals(A['nodes'], A['edges'], info['conns_after'])

        def desc(i):
            p = rid.get(i)
            n = A['nodes'].get(p)
            if n is None:
                return ('?', i)
            if n['junction'] >= 0:
                return ('J', n['junction'])
            t = lt.get(p)
            if t and t[0] == 'P':
                return ('P', 0)
            return ('S', t[1]) if t and t[0] == 'S' else ('LEAF', str(t))
        sm = sorted(tuple(sorted((desc(smooth[2 * k]), desc(smooth[2 * k + 1])))) for k in range(len(smooth) // 2))
        labels = set(e[2] for e in A['edges'])
        real = []
        for cid, ends in info['conns_after'].items():
            if cid in labels:
                real.append(tuple(sorted((('P', 0) if e[0] == 'P' else (e[0], e[1])) for e in ends)))
        real.sort()
        if sm != real:
            probs.append({'kind': 'smooth_after', 'what': 'connector-level reading (smooth) of the AFTER tree differs from the connectors/junction ends the router holds after '
                                  'write-back', 'model': sm, 'router': real})
        # connectors attached to a junction of this hyperedge that the tree does not contain: cut off by the improvement
        js = set(n['junction'] for n in A['nodes'].values() if n['junction'] >= 0)
        dele = set(info['expect'].get('delc_done', []))
        lost = [cid for cid, ends in info['conns_after'].items()
                if cid not in labels and cid not in dele and any(e[0] == 'J' and e[1] in js for e in ends)]
        if lost:
            probs.append({'kind': 'cut_off', 'what': 'connector still attached to a junction of the hyperedge but no longer part of its tree (cut off by the improvement)',
                          'connectors': {str(c): info['conns_after'][c] for c in lost}, 'cut_off': True})
        cp = conn_paths(A['nodes'], A['edges'])
        badp = [c for c, (ok, ends) in cp.items() if not ok]
        if badp:
            probs.append({'kind': 'conn_path', 'what': 'AFTER: the segments labelled with one connector do not form a path between junction nodes / connector ends', 'connectors': badp})
        if info.get('terminals_before') != info.get('terminals_after'):
            probs.append({'kind': 'terminals_changed', 'what': 'the terminals at the leaves of the hyperedge tree changed during improvement', 'before': info.get('terminals_before'),
                          'after': info.get('terminals_after')})
        ex = info['expect']
        if sorted(ex['delc']) != sorted(ex.get('delc_done', [])) or sorted(ex['delj']) != sorted(ex.get('delj_done', [])):
            probs.append({'kind': 'deleted_lists', 'what': 'connectors/junctions deleted at the end of improvement differ from those of the logged coalescing steps',
                          'coalesced': [ex['delc'], ex['delj']], 'deleted': [ex.get('delc_done', []), ex.get('delj_done', [])]})
    return probs


# ------------------------------------------------------------------------------------------------ rerouting (MTST)
def plan_reroute(ws, complete, by_list):
    sec = Section('reroute', complete)
    oldc, terms = {}, {}
    i = 1
    nm = Namer()
    vert_node = {}
    sec.add('SEG 0 0', what='empty')
    nsets = int(ws[0][3])
    sec.info['nterminals'] = nsets
    commits = 0
    cur_commit = None
    trees, newc = {}, {}
    node_junc = {}
    while i < len(ws):
        w = ws[i]
        r = w[1]
        if r == 'TREE':
            tag, nodes, edges, i = read_trees(ws, i)
            trees[tag] = (nodes, edges)
            continue
        if r == 'OLDC':
            cid, ends = parse_conn(w)
            oldc[cid] = ends
        elif r == 'T':
            terms[w[2]] = (int(w[3]), int(w[4]), float(w[5]), float(w[6]))
        elif r == 'COMMIT':
            r1, r2 = w[2], w[3]
            cur_commit = rec_text(w)
            if r1 == r2:
                sec.static.append({'kind': 'self_union', 'what': 'commitToBridgingEdge unites a terminal set with itself', 'record': cur_commit})
            if r1 not in terms or r2 not in terms:
                sec.static.append({'kind': 'root_not_terminal', 'what': 'commitToBridgingEdge names a root that is not a terminal of the hyperedge', 'record': cur_commit})
            if r1 in vert_node and r2 in vert_node:
                sec.add('SAME %d %d' % (vert_node[r1], vert_node[r2]), what='same', want='0', record=cur_commit,
                        why='the two terminal sets a commit unites must not be connected by the tree built so far')
            sec.info.setdefault('roots', []).append((r1, r2))
        elif r == 'MTNODE':
            node, vert, created, j, prev = w[2], w[3], w[6] == '1', int(w[7]), w[8]
            if created:
                if nm.get(node) is not None:
                    sec.static.append({'kind': 'node_twice', 'what': 'MTST node created twice', 'record': rec_text(w)})
                nm.new(node)
                vert_node[vert] = nm.get(node)
            elif nm.get(node) is None:
                sec.static.append({'kind': 'node_unknown', 'what': 'MTST reaches an existing node the replay does not know', 'record': rec_text(w)})
                nm.new(node)
            if j >= 0:
                node_junc[node] = j
            if prev != '(nil)':
                if nm.get(prev) is None:
                    sec.static.append({'kind': 'prev_unknown', 'what': 'MTST joins to an unknown previous node', 'record': rec_text(w)})
                    continue
                sec.add('OP B %d %d' % (nm.get(prev), nm.get(node)), what='op', record=rec_text(w) + '   [in ' + str(cur_commit) + ']')
        elif r == 'COMMIT-END':
            commits += 1
            left = int(w[2])
            if left != nsets - commits:
                sec.static.append({'kind': 'set_count', 'what': 'after %d commits the MTST holds %d terminal sets, the model %d (a union was skipped or doubled)' % (commits, left, nsets - commits),
                                   'record': rec_text(w)})
            if sec.info.get('roots'):
                r1, r2 = sec.info['roots'][-1]
                if r1 in vert_node and r2 in vert_node:
                    sec.add('SAME %d %d' % (vert_node[r1], vert_node[r2]), what='same', want='1', record=cur_commit,
                            why='after a commit the two roots must be joined by the path laid')
                else:
                    sec.static.append({'kind': 'root_no_node', 'what': 'after the commit a root terminal has no tree node (the path did not reach it)', 'record': cur_commit})
            roots = w[3:]
            known = [vert_node[x] for x in roots if x in vert_node]
            for x in range(len(known)):
                for y in range(x + 1, len(known)):
                    sec.add('SAME %d %d' % (known[x], known[y]), what='same', want='0', record=rec_text(w),
                            why='the roots of the remaining terminal sets must be in different components')
        elif r == 'C':
            cid, ends = parse_conn(w)
            newc[cid] = ends
        i += 1
    sec.info.update(oldc=oldc, terms=terms, newc=newc, commits=commits)
    if 'mtst' not in trees:
        if complete:
            sec.static.append({'kind': 'no_mtst', 'what': 'no MTST tree dump in a complete rerouting section'})
        return sec
    nodes, edges = trees['mtst']
    unknown = [p for p in nodes if nm.get(p) is None]
    if unknown:
        sec.static.append({'kind': 'mtst_unknown', 'what': 'the MTST tree holds nodes no MTNODE record created (unlogged creation)', 'unknown': unknown[:6]})
        return sec
    tnodes = [vert_node[v] for v in terms if v in vert_node]
    missing = [v for v in terms if v not in vert_node]
    if missing:
        sec.static.append({'kind': 'terminal_no_node', 'what': 'terminal vertex without a node in the MTST tree', 'terminals': [terms[v] for v in missing], 'terminal_dropped': True})
    sec.add('SETT %d %s' % (len(tnodes), ' '.join(map(str, tnodes))), what='sett')
    sec.add('END %s' % edge_cmd(nm, edges), what='end')
    jn = [p for p, n in nodes.items() if n['junction'] >= 0]
    sec.add('SMOOTH %d %s' % (len(jn), ' '.join(str(nm.get(p)) for p in jn)), what='smooth')
    cn = trees.get('conns')
    sec.info['tree'] = {'ids': {p: nm.get(p) for p in nodes}, 'nodes': nodes, 'edges': edges, 'conns': cn}
    sec.info['by_list'] = by_list
    return sec


def judge_reroute(sec, answers):
    probs = list(sec.static)
    smooth = None
    for (text, meta), ans in zip(sec.cmds, answers):
        a = ans.split()
        k = meta['what']
        if k == 'op':
            if a[1] != '1':
                probs.append({'kind': 'bridge_cycle', 'what': 'MTST lays an edge between two nodes that the tree built so far already connects (cycle: a union was skipped)',
                              'diverging_op': meta['record'], 'model_cmd': text})
        elif k == 'same':
            if a[1] != meta['want']:
                probs.append({'kind': 'same', 'what': 'terminal-set bookkeeping of the MTST disagrees with the tree built so far: ' + meta['why'], 'diverging_op': meta['record'],
                              'model_cmd': text, 'model_says_same_component': a[1] == '1'})
        elif k == 'end':
            if a[1] != '1':
                probs.append({'kind': 'end_graph', 'what': 'the tree built from the logged MTST steps differs from the dumped MTST tree (unlogged edit)', 'model_cmd': text[:400]})
            if a[3] != '1':
                probs.append({'kind': 'mtst_not_tree', 'what': 'the MTST result is not a tree', 'stage': 'mtst'})
            elif a[2] != '1':
                probs.append({'kind': 'terminal_interior', 'what': 'the MTST result is a tree but its degree-1 nodes are not exactly the terminals (a terminal lies inside the tree)',
                              'terminal_nodes': a[5:], 'terminal_interior': True, 'stage': 'mtst'})
        elif k == 'smooth':
            smooth = [int(x) for x in a[2:]]
    if len(answers) < len(sec.cmds):
        probs.append({'kind': 'answers_short', 'what': 'model driver gave fewer answers than commands'})
    info = sec.info
    if smooth is not None and 'tree' in info and sec.complete:
        A = info['tree']
        rid = {v: p for p, v in A['ids'].items()}
        terms, oldc = info['terms'], info['oldc']

        def desc(i):
            n = A['nodes'].get(rid.get(i))
            if n is None:
                return ('?', i)
            if n['junction'] >= 0:
                return ('J', n['junction'])
            t = terms.get(n['final'])
            if t is None:
                return ('LEAF', 'no terminal vertex')
            if info['by_list']:
                return ('T', 0)
            ends = oldc.get(t[0])
            e = ends[0 if t[1] == 1 else 1] if ends else None
            return ('S', e[1]) if e and e[0] == 'S' else ('LEAF', str(e))
        sm = sorted(tuple(sorted((desc(smooth[2 * k]), desc(smooth[2 * k + 1])))) for k in range(len(smooth) // 2))
        real = []
        for cid, ends in info['newc'].items():
            real.append(tuple(sorted((('T', 0) if (info['by_list'] and e[0] != 'J') else (e[0], e[1])) for e in ends)))
        real.sort()
        if sm != real:
            probs.append({'kind': 'smooth_mtst', 'what': 'connector-level reading (smooth) of the MTST tree differs from the connectors addConns created', 'model': sm, 'router': real,
                          'conn_level': True})
        if A['conns']:
            cp = conn_paths(A['conns'][0], A['conns'][1])
            badp = [c for c, (ok, ends) in cp.items() if not ok]
            if badp:
                probs.append({'kind': 'conn_path', 'what': 'after addConns the segments labelled with one connector do not form a path between junction nodes / terminal ends',
                              'connectors': badp, 'conn_level': True})
    return probs


def plan_tx(h2lines, by_list=False):
    secs = []
    for kind, ws, complete in split_sections(h2lines):
        secs.append(plan_improve(ws, complete) if kind == 'improve' else plan_reroute(ws, complete, by_list))
    return secs


def judge_section(sec, answers):
    return judge_improve(sec, answers) if sec.kind == 'improve' else judge_reroute(sec, answers)
