"""C09 - libvpsc: removeoverlaps leaves no overlap and changes no size; generateX/YConstraints are acyclic and
entail non-overlap (DESIGN 5.9).
proof: Coq theorems over the hand-written scan-line / removeoverlaps models (Rect/*.v);
tie: correspondence (C) - the model's constraint lists are compared exactly with the lists the compiled
generateXConstraints / generateYConstraints emit (up to the address oracle where centres tie), the Rectangle getters
exactly, removeoverlaps with the real vpsc::Solver plugged into the model to 1e-6; plus verified checkers (V) -
entail_check (longest-path closure, proved sound) and topo_check run on every real constraint set, and the
property's declarative oracle on every real removeoverlaps output."""
import os, json
from fractions import Fraction as F
from vlib import common as C
from checks import rectlib as L

PID = 'C09'


def canon(cs):
    return sorted(cs)


def run(tier):
    res = C.Result(PID, tier, 'proof')
    info = C.prove(res, PID)
    res.assumptions = ['binary64 evaluation equals exact evaluation on the dyadic inputs of the constraint-generator correspondence (compared exactly)',
                       'the hand-written models follow rectangle.cpp statement by statement (validated on every run by the correspondence)',
                       "glibc's qsort is its merge sort (the comparator compare_events is not a consistent ordering, see Rect/ScanlineModel.v)"]
    thorough = tier == 'thorough'
    N_SMALL = 6000 if thorough else 1500
    N_BIG = 60 if thorough else 12
    N_RO = 4000 if thorough else 1200
    N_RO_BIG = 120 if thorough else 25
    N_M = 3000 if thorough else 600
    rng = C.SplitMix64(C.get_seed() ^ 0xC09)
    exe, drv = L.build('exc')
    hist = {}
    stats = {'G_instances': 0, 'G_calls': 0, 'G_exact_match_id_variant': 0, 'G_exact_match_addr_variant': 0, 'G_tie_calls': 0,
             'G_unresolved_oracle': 0, 'impl_entail_checked': 0, 'impl_topo_checked': 0, 'model_entail_checked': 0,
             'M_compared': 0, 'R_oracle_runs': 0, 'R_model_compared': 0, 'R_fixed_checked': 0, 'constraints_total': 0,
             'R_third': 0, 'R_degenerate_n012': 0, 'Q_sequences': 0, 'Q_calls': 0, 'Q_calls_n_lt_2': 0, 'Q_small_unmoved_checked': 0,
             'D_calls': 0, 'D_dup_tie_calls': 0, 'D_entail_checked': 0, 'D_topo_checked': 0, 'D_ndebug_calls': 0, 'R_model_skipped_not_generic': 0, 'R_fixed_displaced': 0, 'R_fixed_displaced_fixed_overlap': 0, 'R_fixed_displaced_cluster': 0, 'R_huge': 0, 'R_with_fixed': 0, 'R_moved_something': 0}
    corr_fail = []      # model != implementation (no property failure shown yet)
    samples = []

    # ---------------------------------------------------------------- corpus first
    insts = []
    cp = os.path.join(C.VERIF, 'corpus')
    for fn in sorted(os.listdir(cp)) if os.path.isdir(cp) else []:
        if (fn.startswith('c09_') and fn not in ('c09_fixed_displaced.json', 'c09_seq.json', 'c09_dupids.json')) or fn.startswith('c20_fd'):
            try:
                d = json.load(open(os.path.join(cp, fn)))
                insts.append(L.Inst(d['scale'], d['rects_minX_maxX_minY_maxY_over_scale'],
                                    int(d['xBorder'].split('/')[0]), int(d['yBorder'].split('/')[0]), 'corpus:' + fn))
            except Exception:
                pass
    for _ in range(N_SMALL):
        insts.append(L.gen_instance(rng))
    for _ in range(N_BIG):
        insts.append(L.gen_instance(rng, big=True))

    # ---------------------------------------------------------------- C: constraint generators
    impl_cmds, model_cmds, keys = [], [], []
    for k, inst in enumerate(insts):
        hist[inst.family] = hist.get(inst.family, 0) + 1
        for mode in (0, 1, 2):
            impl_cmds.append(L.cmd_G_impl(inst, mode))
            model_cmds.append(L.cmd_G_model(inst, mode, 1))
            keys.append((k, mode))
    rc, iout, err, dt1 = L.run_lines([exe], impl_cmds)
    if rc != 0 or len(iout) != len(impl_cmds):
        # the library crashed (segfault / abort) inside a generator call: that call is the failing input
        at = min(len(iout), len(impl_cmds) - 1)
        k, mode = keys[at]
        res.violation({'what': '%s crashed the process (signal / abort) on this rectangle set' % L.MODES[mode], 'rc': rc, 'stderr': err[-1500:],
                       'input': insts[k].to_json(), 'replay': 'echo "%s" | build/bin/c09_rect-exc-*' % impl_cmds[at]})
        return res.finish()
    rc, mout, err, dt2 = L.run_lines([drv, exe], model_cmds)
    if rc != 0 or len(mout) != len(model_cmds):
        res.violation({'what': 'model driver failed', 'rc': rc, 'stderr': err[-2000:]}, no_input=True)
        return res.finish()
    stats['G_instances'] = len(insts)
    e_cmds, e_keys = [], []
    retry = []
    for idx, (k, mode) in enumerate(keys):
        inst = insts[k]
        im = L.parse_impl_C(iout[idx])
        mo = L.parse_model_C(mout[idx])
        stats['G_calls'] += 1
        stats['constraints_total'] += len(im['cs'])
        tie = inst.has_tie(mode)
        stats['G_tie_calls'] += tie
        if im['exc'] != 0:
            res.violation({'what': '%s failed an assertion / threw' % L.MODES[mode], 'where': im['what'], 'input': inst.to_json(),
                           'replay': 'echo "%s" | build/bin/c09_rect-exc-*' % impl_cmds[idx]})
            continue
        # desiredPosition side effect
        want = inst.centres(1 if mode == 0 else 0)
        if [d * inst.scale for d in im['desired']] != want:
            corr_fail.append({'what': 'desiredPosition != centre', 'mode': mode, 'input': inst.to_json()})
        if mo is None:
            corr_fail.append({'what': 'model out of fuel', 'input': inst.to_json()})
            continue
        if mo['topo'] != '1' or (mode != 2 and mo['entail'] != '1'):
            corr_fail.append({'what': "the model's own constraint set fails the verified checker (theorem instance refuted?)",
                              'mode': mode, 'entail': mo['entail'], 'topo': mo['topo'], 'input': inst.to_json()})
        stats['model_entail_checked'] += mode != 2
        if canon(im['cs']) == canon(mo['cs']):
            stats['G_exact_match_id_variant'] += 1
        else:
            retry.append((idx, k, mode, im))
        e_cmds.append(L.cmd_E(inst, mode, im['raw']))
        e_keys.append((idx, k, mode))
        if len(samples) < 4 and len(im['cs']) >= 3 and tie:
            samples.append({'fn': L.MODES[mode], 'input': inst.to_json(), 'constraints_l_r_gap': [[a, b, float(g)] for a, b, g in im['cs']]})
    # implementation's constraint sets through the verified checkers
    rc, eout, err, dt3 = L.run_lines([drv, exe], e_cmds)
    for (idx, k, mode), line in zip(e_keys, eout):
        f = line.split()
        inst = insts[k]
        stats['impl_topo_checked'] += 1
        if f[2] != '1':
            res.violation({'what': 'constraint graph emitted by %s has a cycle (topo_check certificate fails)' % L.MODES[mode],
                           'input': inst.to_json(), 'constraints': iout[idx], 'replay': 'echo "%s" | build/bin/c09_rect-exc-*' % impl_cmds[idx]})
        if mode != 2:
            stats['impl_entail_checked'] += 1
            if f[1] != '1':
                res.violation({'what': 'constraints emitted by %s do not entail non-overlap: entail_check (proved sound: '
                                       'Rect/Entail.v entail_check_sound) is false, i.e. some pair of rectangles whose intervals in the sweep '
                                       'dimension intersect is not forced apart by the longest-path closure' % L.MODES[mode],
                               'input': inst.to_json(), 'constraints': iout[idx],
                               'replay': 'echo "%s" | build/bin/c09_rect-exc-*' % impl_cmds[idx]})
    # where the id variant does not reproduce the implementation: address-oracle variants
    for (idx, k, mode, im) in retry:
        inst = insts[k]
        if not inst.has_tie(mode):
            corr_fail.append({'what': 'constraint sets differ although no two centres are equal', 'fn': L.MODES[mode], 'input': inst.to_json(),
                              'implementation': [[a, b, float(g)] for a, b, g in canon(im['cs'])],
                              'model': mout[idx]})
            continue
        cands = L.addr_candidates(inst, mode, im['cs'])
        rc, cout, err, _ = L.run_lines([drv, exe], [L.cmd_G_model(inst, mode, 0, a) for a in cands])
        ok = False
        for line in cout:
            mo = L.parse_model_C(line)
            if mo and canon(mo['cs']) == canon(im['cs']):
                ok = True
                break
        if ok:
            stats['G_exact_match_addr_variant'] += 1
        else:
            ngroups = L.tie_groups(inst, mode)
            tot = 1
            for g in ngroups:
                for q in range(2, len(g) + 1):
                    tot *= q
            if tot > 24:
                stats['G_unresolved_oracle'] += 1      # too many orders to enumerate: only the verified checkers apply
            else:
                corr_fail.append({'what': 'no address oracle makes the model reproduce the implementation', 'fn': L.MODES[mode],
                                  'input': inst.to_json(), 'implementation': [[a, b, float(g)] for a, b, g in canon(im['cs'])]})

    # ---------------------------------------------------------------- V: public generators with Variables that SHARE an id
    # (DESIGN 9.18, seeded change C09-5).  Variable::id is documentation only, so equal ids are valid input; CmpNodePos then
    # orders tied nodes by address.  Judged only by what does not depend on which tied node comes first: no assertion /
    # crash (assert build), and the verified certificates entail_check / topo_check on the emitted set (assert build and
    # NDEBUG build: theorem C09_dup_ids_no_overlap says HEAD's set is complete for every id list and either address order).
    dcases = []
    cf = os.path.join(C.VERIF, 'corpus', 'c09_dupids.json')
    if os.path.exists(cf):
        for d in json.load(open(cf))['cases']:
            dcases.append((L.Inst(d['scale'], d['rects_minX_maxX_minY_maxY_over_scale'], 0, 0, 'corpus:c09_dupids'), d['ids'], d['modes'], (0, 0)))
    for _ in range(1500 if thorough else 350):
        inst, ids = L.gen_dupid(rng)
        dcases.append((inst, ids, (0, 1, 2), rng.choice([(0, 0), (0, 0), (inst.n(), 1), (inst.n(), 2)])))
    exe_nd = C.build_harness('c09_rect', ['libvpsc'], 'ndebug')
    dcap = {}      # at most two reports per (kind, build flavour, corpus / generated)
    for flavour, hx in (('assert build (USE_ASSERT_EXCEPTIONS)', exe), ('NDEBUG build', exe_nd)):
        d_cmds, d_keys = [], []
        for k, (inst, ids, modes, (pk, pd)) in enumerate(dcases):
            for mode in modes:
                d_cmds.append(L.cmd_G_ids(inst, mode, ids, pk, pd))
                d_keys.append((k, mode))
        dout, crashes = L.run_lines_resilient([hx], d_cmds)
        hxname = 'build/bin/c09_rect-exc-*' if hx == exe else 'build/bin/c09_rect-ndebug-*'
        for (at, rc, err) in crashes:
            k, mode = d_keys[at]
            src = dcases[k][0].family.startswith('corpus')
            if dcap.get(('crash', hx, src), 0) < 2:
                dcap[('crash', hx, src)] = dcap.get(('crash', hx, src), 0) + 1
                res.violation({'what': '%s with Variables that share an id crashed the process (signal / abort), %s' % (L.MODES[mode], flavour),
                               'rc': rc, 'stderr': err, 'input': dcases[k][0].to_json(), 'variable_ids': dcases[k][1],
                               'nodes_ordered_by_address_only': L.dup_tie(dcases[k][0], dcases[k][1], mode),
                               'replay': 'echo "%s" | %s' % (d_cmds[at], hxname)})
        de_cmds, de_keys = [], []
        for idx, ((k, mode), line) in enumerate(zip(d_keys, dout)):
            inst, ids = dcases[k][0], dcases[k][1]
            if line is None:
                continue
            src = inst.family.startswith('corpus')
            im = L.parse_impl_C(line)
            stats['D_calls'] += 1
            stats['D_ndebug_calls'] += hx == exe_nd
            stats['D_dup_tie_calls'] += L.dup_tie(inst, ids, mode)
            hist[inst.family.split('-')[0] + '-' + inst.family.split('-')[-1]] = hist.get(inst.family.split('-')[0] + '-' + inst.family.split('-')[-1], 0) + 1
            if im['exc'] != 0:
                if dcap.get(('exc', hx, src), 0) < 2:
                    dcap[('exc', hx, src)] = dcap.get(('exc', hx, src), 0) + 1
                    res.violation({'what': '%s failed an assertion / threw when called with Variables that share an id (valid input: ids are '
                                           'documentation only, variable.h:51), %s' % (L.MODES[mode], flavour),
                                   'where': im['what'], 'input': inst.to_json(), 'variable_ids': ids,
                                   'nodes_ordered_by_address_only': L.dup_tie(inst, ids, mode),
                                   'replay': 'echo "%s" | build/bin/c09_rect-exc-*' % d_cmds[idx]})
                continue
            de_cmds.append(L.cmd_E(inst, mode, im['raw']))
            de_keys.append((idx, k, mode))
        rc, deout, err, _ = L.run_lines([drv, exe], de_cmds)
        for (idx, k, mode), line in zip(de_keys, deout):
            f = line.split()
            inst, ids = dcases[k][0], dcases[k][1]
            stats['D_topo_checked'] += 1
            bad = None
            if f[2] != '1':
                bad = 'constraint graph emitted by %s has a cycle (topo_check certificate fails)' % L.MODES[mode]
            elif mode != 2:
                stats['D_entail_checked'] += 1
                if f[1] != '1':
                    bad = ('constraints emitted by %s do not entail non-overlap (entail_check, proved sound, rejects the set: some pair of '
                           'rectangles whose intervals in the sweep dimension intersect is not forced apart)' % L.MODES[mode])
            src = inst.family.startswith('corpus')
            if bad and dcap.get(('cert', hx, src), 0) < 2:
                dcap[('cert', hx, src)] = dcap.get(('cert', hx, src), 0) + 1
                res.violation({'what': bad + '; call with Variables that share an id, ' + flavour, 'input': inst.to_json(), 'variable_ids': ids,
                               'nodes_ordered_by_address_only': L.dup_tie(inst, ids, mode), 'constraints': dout[idx],
                               'replay': 'echo "%s" | %s' % (d_cmds[idx], hxname)})
        if len(deout) != len(de_cmds):
            corr_fail.append({'what': 'model driver stopped early in the duplicate-id certificate run', 'stderr': err[-800:]})

    # ---------------------------------------------------------------- C: Rectangle getters (RectBase.v), exact
    m_cmds = []
    for _ in range(N_M):
        sc = rng.choice([1, 4, 64])
        def rr():
            x, y = rng.range(-8 * sc, 8 * sc), rng.range(-8 * sc, 8 * sc)
            return (x, x + rng.range(1, 6 * sc), y, y + rng.range(1, 6 * sc))
        u, v = rr(), rr()
        if rng.chance(1, 4):
            v = (u[0] + rng.range(-1, 0) * sc, u[1] + rng.range(0, 1) * sc, u[2], u[3])
        m_cmds.append('M %d %d %d %s %s %d' % (sc, rng.below(3 * sc), rng.below(3 * sc), ' '.join(map(str, u)), ' '.join(map(str, v)),
                                              rng.range(-10 * sc, 10 * sc)))
    rc, a_out, err, _ = L.run_lines([exe], m_cmds)
    rc, b_out, err, _ = L.run_lines([drv, exe], m_cmds)
    for c, a, b in zip(m_cmds, a_out, b_out):
        va = [L.hexq(x) for x in a.split()[1:]]
        vb = [L.modq(x) for x in b.split()[1:]]
        stats['M_compared'] += 1
        if va != vb:
            corr_fail.append({'what': 'Rectangle getter/move/overlap model differs from the implementation', 'command': c,
                              'implementation': [float(x) for x in va], 'model': [float(x) for x in vb]})
            break

    # ---------------------------------------------------------------- V + C: removeoverlaps
    ro = []
    cf = os.path.join(C.VERIF, 'corpus', 'c09_fixed_displaced.json')
    if os.path.exists(cf):
        for d in json.load(open(cf))['cases']:
            ro.append((L.Inst(d['scale'], d['rects_minX_maxX_minY_maxY_over_scale'], int(d['xBorder'].split('/')[0]),
                              int(d['yBorder'].split('/')[0]), 'corpus:c09_fixed_displaced'), d['fixed'], d['thirdPass']))
    n_corpus_ro = len(ro)
    # n = 0, 1, 2 for every combination of fixed set / thirdPass / caller borders (DESIGN 9.18, seeded change C09-6)
    degen = L.degenerate_cases()
    ro += degen
    stats['R_degenerate_n012'] = len(degen)
    for t in range(N_RO + N_RO_BIG):
        big = t >= N_RO
        inst = L.gen_instance(rng, big=big)
        n = inst.n()
        fixed = []
        if rng.chance(1, 2):
            k = rng.choice([1, 1, 1, 2, 2, 3, rng.range(1, n)])
            fixed = sorted(set(rng.below(n) for _ in range(k)))
        third = rng.chance(1, 2)
        ro.append((inst, fixed, third))
    for t in range(6 if thorough else 2):
        # hundreds of rectangles: property oracle only (the model comparison and the certificate stay on the smaller sets)
        n = rng.range(150, 300)
        side = rng.choice([12, 30, 60])
        rects = []
        for _ in range(n):
            x, y, w, h = rng.below(side * 8), rng.below(side * 8), rng.range(4, 24), rng.range(4, 24)
            rects.append((x, x + w, y, y + h))
        ro.append((L.Inst(8, rects, 0, 0, 'huge'), sorted(set(rng.below(n) for _ in range(rng.below(3)))), rng.chance(1, 2)))
    rc, rout, err, dt4 = L.run_lines([exe], [L.cmd_R_impl(i, f, t) for (i, f, t) in ro])
    if rc != 0 or len(rout) != len(ro):
        bad = ro[len(rout)] if len(rout) < len(ro) else None
        res.violation({'what': 'removeoverlaps crashed the harness (abort/segfault)', 'rc': rc, 'stderr': err[-1500:],
                       'input': bad[0].to_json() if bad else None, 'fixed': bad[1] if bad else None, 'thirdPass': bad[2] if bad else None})
        return res.finish()
    model_cmds = []
    model_keys = []
    degen_reported = 0
    for t, ((inst, fixed, third), line) in enumerate(zip(ro, rout)):
        r = L.parse_impl_R(line)
        fails = L.oracle_R(inst, fixed, r, True)
        check_fixed = True
        stats['R_oracle_runs'] += 1
        stats['R_third'] += third
        stats['R_with_fixed'] += bool(fixed)
        stats['R_fixed_checked'] += bool(fixed) and check_fixed
        s = inst.scale
        if r['exc'] == 0 and any(abs(r['rects'][i][0] - F(inst.rects[i][0], s)) > F(1, 1000) or abs(r['rects'][i][2] - F(inst.rects[i][2], s)) > F(1, 1000)
                                 for i in range(inst.n())):
            stats['R_moved_something'] += 1
        hard = [f for f in fails if f.get('kind') != 'fixed_moved' or not f['classifier']['explained']]
        soft = [f for f in fails if f.get('kind') == 'fixed_moved' and f['classifier']['explained']]
        replay_cmd = 'echo "%s" | build/bin/c09_rect-exc-*' % L.cmd_R_impl(inst, fixed, third)
        if hard and inst.family.startswith('degenerate'):
            degen_reported += 1
        if hard and not (inst.family.startswith('degenerate') and degen_reported > 2):
            res.violation({'what': 'removeoverlaps output violates C09', 'failures': hard[:5], 'input': inst.to_json(), 'fixed': fixed,
                           'thirdPass': third, 'output_minX_maxX_minY_maxY': [[float(v) for v in q] for q in r['rects']],
                           'replay': replay_cmd})
            if len(res.violations) > 5:
                break
        if soft:
            stats['R_fixed_displaced'] += 1
            fam = 'fixed_overlap' if any(f['classifier']['family'] == 'fixed_overlap' for f in soft) else 'cluster'
            stats['R_fixed_displaced_' + fam] += 1
            res.violation({'what': 'removeoverlaps moved a rectangle named as fixed by 1% of the mean size or more; the displacement is exactly '
                                   'balanced by the weighted displacements of the other rectangles (fixed = weight 10000, not a pin)',
                           'failures': soft[:5], 'input': inst.to_json(), 'fixed': fixed, 'thirdPass': third,
                           'output_minX_maxX_minY_maxY': [[float(v) for v in q] for q in r['rects']], 'replay': replay_cmd},
                          fingerprint='fixed_rect_displaced:' + fam)
        if inst.family == 'huge':
            stats['R_huge'] += 1
        elif not L.generic_position(inst):
            stats['R_model_skipped_not_generic'] += 1     # exact ties: binary64 rounding of the non-dyadic 1e-3 padding decides a branch
        elif len(model_cmds) < (900 if thorough else 300) + len(degen):
            model_cmds.append(L.cmd_R_model(inst, fixed, third, 1))
            model_keys.append((t, r))
        if len(samples) < 7 and fixed and third:
            samples.append({'fn': 'removeoverlaps', 'input': inst.to_json(), 'fixed': fixed, 'thirdPass': third,
                            'output': [[float(v) for v in q] for q in r['rects']]})
    rc, mrout, err, dt5 = L.run_lines([drv, exe], model_cmds, timeout=1500)
    for (t, r), line in zip(model_keys, mrout):
        m = L.parse_model_R(line)
        inst, fixed, third = ro[t]
        stats['R_model_compared'] += 1
        if m is None or r['exc'] != 0:
            continue
        worst = max([abs(a - b) for qa, qb in zip(r['rects'], m['rects']) for a, b in zip(qa, qb)] + [F(0)])
        if worst > F(1, 10 ** 6) or m['xb'] != r['xb'] or m['yb'] != r['yb']:
            corr_fail.append({'what': 'removeoverlaps model (three passes, real vpsc::Solver plugged in) differs from the implementation',
                              'max_abs_diff': float(worst), 'input': inst.to_json(), 'fixed': fixed, 'thirdPass': third,
                              'implementation': [[float(v) for v in q] for q in r['rects']],
                              'model': [[float(v) for v in q] for q in m['rects']]})
    if len(mrout) != len(model_cmds):
        corr_fail.append({'what': 'model driver stopped early in the removeoverlaps run', 'stderr': err[-1500:]})

    # ---------------------------------------------------------------- V: sequences of calls in ONE process (DESIGN 9.18)
    # the border globals are set once; Rectangle::xBorder / yBorder, a witness rectangle and every rectangle's width()/height()
    # are read back after EACH call (theorem C09_call_sequence_borders_sizes; n < 2: C09_removeoverlaps_small)
    seqs = []
    cf = os.path.join(C.VERIF, 'corpus', 'c09_seq.json')
    if os.path.exists(cf):
        for d in json.load(open(cf))['cases']:
            seqs.append(L.Seq.from_json(d, 'corpus:c09_seq'))
    seqs += L.seq_exhaustive()
    for _ in range(600 if thorough else 150):
        seqs.append(L.gen_seq(rng))
    q_cmds = [q.cmd() for q in seqs]
    rc, qout, err, dt6 = L.run_lines([exe], q_cmds)
    if rc != 0 or len(qout) != len(seqs):
        bad = seqs[min(len(qout), len(seqs) - 1)]
        res.violation({'what': 'a sequence of removeoverlaps calls crashed the harness (abort/segfault)', 'rc': rc, 'stderr': err[-800:],
                       'input': bad.to_json(), 'replay': 'echo "%s" | build/bin/c09_rect-exc-*' % bad.cmd()})
    q_reported = {}
    for q, line in zip(seqs, qout):
        outs = L.parse_Q(line)
        stats['Q_sequences'] += 1
        stats['Q_calls'] += len(outs)
        stats['Q_calls_n_lt_2'] += sum(1 for c in q.calls if len(c['rects']) < 2)
        hist[q.family] = hist.get(q.family, 0) + 1
        k, fails = L.oracle_Q(q, outs)
        if k is not None:
            if q_reported.get(q.family, 0) < 2:
                q_reported[q.family] = q_reported.get(q.family, 0) + 1
                c = q.calls[k]
                res.violation({'what': 'removeoverlaps violates C09 in call %d of a sequence of calls in one process (borders / sizes / overlap '
                                       'read back after each call)' % (k + 1),
                               'failing_call': {'index': k, 'n_rectangles': len(c['rects']), 'fixed': c['fixed'], 'thirdPass': bool(c['third']),
                                                'overload': q.to_json()['calls'][k]['overload']},
                               'failures': fails[:4], 'input': q.to_json(k + 1),
                               'replay': 'echo "%s" | build/bin/c09_rect-exc-*   (fields per call after "|": exc where xBorder yBorder witnessW witnessH n ...)' % q.cmd(k + 1)})
            continue
        u = L.small_unmoved(q, outs)
        stats['Q_small_unmoved_checked'] += sum(1 for c in q.calls if len(c['rects']) == 1)
        if u is not None:
            corr_fail.append({'what': 'a call with fewer than two rectangles moved its rectangle (model: C09_removeoverlaps_small says unchanged)',
                              'call': u, 'input': q.to_json(u + 1)})
        if len(samples) < 9 and q.family == 'seq-random':
            samples.append({'fn': 'removeoverlaps x %d in one process' % len(q.calls), 'input': q.to_json(),
                            'borders_after_each_call': [[float(o['xb']), float(o['yb'])] for o in outs]})

    res.cov.update({'evaluations': stats['G_calls'] + stats['R_oracle_runs'] + stats['M_compared'] + stats['Q_calls'] + stats['D_calls'],
                    'distinct_nontrivial': stats['G_tie_calls'] + stats['R_moved_something'],
                    'rule': 'non-trivial = generator calls on rectangle sets with at least two equal centres in the scan dimension (the tie-break '
                            'and the event-order rules decide the output) + removeoverlaps runs that moved at least one rectangle by > 1e-3',
                    'exhaustive': False, 'samples': samples, 'input_histogram': hist, 'counts': stats,
                    'traces_validated_against_impl': stats['G_exact_match_id_variant'] + stats['G_exact_match_addr_variant'] + stats['R_model_compared'] + stats['M_compared'],
                    'implementation_follows': ('cmp_node_pos_id' if stats['G_exact_match_addr_variant'] == 0 else 'cmp_node_pos_addr'),
                    'correspondence_disagreements': corr_fail[:5],
                    'timings_s': {'impl_generators': round(dt1, 2), 'model_generators': round(dt2, 2), 'verified_checkers_on_impl': round(dt3, 2),
                                  'impl_removeoverlaps': round(dt4, 2), 'model_removeoverlaps': round(dt5, 2), 'impl_sequences': round(dt6, 2)}})
    if not res.violations and (not info['ok'] or corr_fail):
        # proof or correspondence broken; the search above (verified checkers and the property oracle on every real output,
        # corpus, tie-directed and generic generators) found no failing input
        res.violation({'what': 'proof obligation or model/implementation correspondence no longer checks; the search (entail_check and '
                               'topo_check on every emitted constraint set, the C09 oracle on every removeoverlaps output) found no input on '
                               'which the property itself fails',
                       'broken_files': info.get('broken'), 'broken_lemmas': info.get('broken_lemmas'), 'forbidden': info.get('forbidden'),
                       'correspondence': corr_fail[:5], 'coq_log_tail': info['log'][-3000:]}, no_input=True)
    return res.finish()


def replay(path):
    print(open(path).read())
    return 0


def warm():
    L.build('exc')
    C.build_harness('c09_rect', ['libvpsc'], 'ndebug')


META = {
    'property_id': PID,
    'level_claimed': {
        'category': 'proof',
        'text': 'Coq theorems over a hand-written statement-by-statement model of rectangle.cpp (scan line with firstAbove/firstBelow and neighbour '
                'lists, compare_events, CmpNodePos in both the address and the id variant, the three passes of removeoverlaps with the border '
                'arithmetic): gen_acyclic (every generated constraint goes forward in the CmpNodePos order, so the graph is a DAG; both generators, '
                'both modes, any event order, any address oracle); entail_check_sound / topo_check_sound (verified certificates: if the longest-path '
                'closure test accepts, EVERY placement satisfying the constraints has no pair overlapping with positive area); sizes_preserved; '
                'borders_restored; the chain lemma of Dwyer-Marriott-Stuckey (Rect/Chain.v: C09_genY_entails_no_overlap, C09_genX_entails_no_overlap - for every '
                'rectangle set with non-negative sizes and every CmpNodePos that is a strict order total on the nodes, any two rectangles whose open '
                'intervals in the sweep dimension intersect are joined by a chain of generated constraints, so every placement satisfying the constraints '
                'has no pair overlapping with positive area; scan-line invariant: sorted scan line, firstAbove/firstBelow = predecessor/successor, chains '
                'of links preserved by open/close); C09_pipeline_chain / C09_removeoverlaps_no_overlap (no overlap after the last pass of removeoverlaps, '
                'given only that the solver\'s answer satisfies that pass\'s acyclic constraint set - stated as an explicit premise `solver_contract`). '
                'Static-solver round: C09_removeoverlaps_no_overlap_static replaces that premise by the Coq model of the solver removeoverlaps really calls '
                '(Vpsc/StaticModel.v: vpsc::Solver with shape-exact pairing heaps, compared exactly with the compiled solver by checks/c01.py / c02.py) and carries '
                'the solver\'s tolerance through the chain lemma (C09_pipeline_x/y_chain_tolerance: constraints satisfied up to eps leave no overlap when '
                'eps * n <= 2 * EXTRA_GAP; eps = 1e-10, n <= 10^7; C09_static_solve_contract: a normal return of the model satisfies every constraint to 1e-10). '
                'PARTIAL: one premise remains - the static solver model RETURNS on the last pass (Solver::solve = satisfy; refine does not throw '
                'UnsatisfiedConstraint on that acyclic set, fuel suffices). Of it, Solver::satisfy is now PROVED to return with every constraint satisfied exactly '
                '(C01_static_no_throw_on_dag, C09_static_satisfy_returns; Vpsc/StaticDag.v), and the DFS order of Blocks::totalOrder on the generated (ranked) sets is proved to be a repetition-free topological '
                'order (Vpsc/StaticDfs.v, C09_last_pass_satisfy_returns: unconditional). So C09_removeoverlaps_no_overlap_static_refine_only_partial needs ONLY that '
                'Solver::refine returns from the state satisfy produced, in which every constraint already holds exactly (refine is modelled and compared '
                'with the compiled code, but no no-throw theorem is proved for Blocks::split as a whole). Reduced further in Vpsc/StaticRefine.v: '
                'C09_removeoverlaps_no_overlap_static_passes_partial needs only that every pass of refine\'s while loop on the trace returns with every slack >= 0 (the closing '
                'scan cannot throw from an all-satisfied state, exhausting maxtries is a normal return); of Blocks::split the mergeRight half is proved to keep every '
                'constraint satisfied given that findMinOutConstraint delivers a most violated out-constraint (C01_static_merge_right_all_sat_partial). Since then both heap-root hypotheses '
                'are discharged (C01_static_merge_right_all_sat, C01_static_split_merge_left: Vpsc/StaticOutHeap.v, StaticInHeap.v) and Block::split is characterised (halves at their '
                'optimum, forest facts, the sign lemma lm(c) < 0 => left half moves left / right half\'s optimum is to the right: C01_static_split_*); one whole Blocks::split is now proved to return all-satisfied from refine\'s invariants (C01_static_split_all_sat) and refine\'s loop never throws; what is still missing for the '
                'unconditional statement is deriving those invariants at every split (findMinLM stationarity, forest, lengths) and totality of refine_pass, so the hypothesis of the _passes_partial theorem stays visible. The entail_check certificate is still evaluated on '
                'every instance (model\'s and implementation\'s constraint sets) as validation of model and chain lemma. The model is compared exactly '
                'with the compiled generators on every run. '
                'Follow-up 9.18: C09_borders_restored_every_n (the model always returns and the border globals are the caller\'s, for EVERY rectangle list, n = 0 and 1 '
                'included; Examples borders_restored_n0 / _n1), C09_call_sequence_borders_sizes (any sequence of calls in one process with the globals threaded: '
                'borders and sizes after every call), C09_removeoverlaps_small (n <= 1: no constraint in any pass, nothing moves), C09_early_return_refuted (the '
                'early return between padding and restoration leaks EXTRA_GAP and changes the size read through the getters); C09_dup_ids_no_overlap (HEAD\'s '
                'CmpNodePos is total for EVERY id list on distinct Node objects, so the generated set is complete with duplicate Variable ids in either address '
                'order) and C09_idonly_comparator_refuted (position-then-id-only comparator: tied nodes become equivalent std::set keys, no constraint, overlap).',
        'design_ref': 'DESIGN.md 5.9, 9.18'},
    'level_note': 'Trusted: Coq kernel; the hand-written models (Rect/RectBase.v, ScanlineModel.v, RemoveOverlapsModel.v: validated by exact correspondence on '
                  'every run, not derived from the source; cpp2v cannot translate reads of the mutable statics xBorder/yBorder nor intra-class method '
                  'calls); extraction and the OCaml/C++ drivers; glibc qsort = merge sort (compare_events is not a consistent comparator). The solver is '
                  'a parameter of the model (C01/C02 own it); in the correspondence it is the real vpsc::Solver. The exact-rational model cannot follow '
                  'branches decided by binary64 rounding of the non-dyadic 1e-3 padding, so removeoverlaps is compared with the model only on '
                  'generic-position inputs (1e-6); on all inputs the property\'s own oracle checks the real output (no overlap 1e-6, sizes 1e-9, borders '
                  'restored, no exception). The clause `fixed rectangles move < 1% of the mean size` is asserted on every run for every generated fixed subset; it is FALSE for the code (fixed = weight 10000, not a pin) and reported as the known finding fixed_rect_displaced (sub-families cluster / fixed_overlap, corpus/c09_fixed_displaced.json) through a classifier evaluated on the failing case: 10000*|delta_f| <= sum of the other rectangles\' weighted displacements per axis (the weighted-mean balance of a VPSC block); an unbalanced displacement stays a VIOLATION. Exception path (F-e: catch(char*) never matches) is not reachable on DAGs and not covered. '
                  'Degenerate sizes (9.18): removeoverlaps with n = 0, 1, 2 for every combination of fixed set (also indices naming no rectangle) / thirdPass / caller borders as single calls (R) and as '
                  'sequences of calls in ONE process (harness command Q, all three overloads; borders set once, Rectangle::xBorder/yBorder, a witness rectangle outside every call and every rectangle\'s '
                  'width()/height() read back after EACH call; families seq-exhaustive, seq-order, seq-random, corpus/c09_seq.json). '
                  'Variables sharing an id (9.18): generateX/YConstraints through the public API with caller-chosen ids (G modes 20-22; families identical / concentric / column / row / tied-mix / gen x id '
                  'patterns zero / const / mod2 / half / rand2 / randn / distinct-rev, allocator primings; corpus/c09_dupids.json) on the assert build AND an NDEBUG build of libvpsc; judged only by what does '
                  'not depend on which tied node comes first: assertion / crash (a crashing command is reported and the batch restarted behind it) and the verified certificates entail_check / topo_check on '
                  'the emitted set. The address-dependent ORDER of such a set is C20\'s known finding scanline_addr_tiebreak_dup_ids, deliberately not judged here; an incomplete set, an assertion or a crash is '
                  'a VIOLATION in C09 (and a crash / assertion also in C20).',
    'technique': 'Coq proof over a hand-written model + exact correspondence + verified certificate checkers on real outputs',
}
