"""C12 - libavoid hyperedges stay spanning trees over the same terminals (DESIGN 5.12).
proof: Graph/UnionFind.v, Graph/Trees.v, Avoid/HyperTree.v (connector level: verified tree checker, contract/split/merge/
Kruskal-replace preserve "tree whose degree-1 nodes are the terminals"), Avoid/HyperSegModel.v + HyperSeg.v (segment level: the
operations libavoid performs on its HyperedgeTree - contraction of zero-length edges in all its cases, edge subdivision, merging
of common-edge neighbours, deletion of the emptied junction node, MTST bridging edges, the connector-level reading `smooth`);
tie: C through hook H2 (tools/hooks/H2.patch: guarded op log in hyperedgeimprover.cpp / hyperedgetree.cpp / hyperedge.cpp /
mtst.cpp): checks/c12lib.py replays every logged operation on the extracted model and compares (see there); V - the extracted
checker is_tree_with_leaves is run on the real connector/junction graph after every transaction (rerouting registered by
junction or by terminal list, both improvement options, further shape moves), plus route-end and new/deleted-list oracles.
Without the hook in the tree under test only the V part runs and the evidence says so.
Client API stream (scene op RMJ): JunctionRef::removeJunctionAndMergeConnectors on a junction with exactly two connectors inside a chain of
junctions (gen_chain_scene), oracle = the same tree / attachment checker with the removed junction gone (Coq: remove_junction_preserves)."""
import os, json, copy
from vlib import common as C
from checks import c12lib as L

PID = 'C12'
FP_FJ = 'terminal_on_tree_path'
FP_TLIST = 'terminal_list_unattached'
FP_DISP = 'connector_end_displaced'
FP_JIN = FP_DISP + ':junction_inside_terminal_shape'


class Scene:
    def __init__(self, sid, opt, nudge=4, family='main'):
        self.sid, self.opt, self.nudge, self.family = sid, opt, nudge, family
        self.shapes = []     # (x, y) lower corner of 30x30 terminal shapes
        self.obstacles = []  # (x0,y0,x1,y1)
        self.juncs = []      # (x,y)
        self.conns = []      # (('S',i,1) | ('J',j), ...)
        self.reroute = None  # None | ('J', j) | ('T', [shape idx...])
        self.moves = []      # list of transactions, each a list of (shape, dx, dy)
        self.twin_of = None

    def terminals(self):
        if self.reroute and self.reroute[0] == 'T':
            return sorted(self.reroute[1])
        return sorted(set(e[1] for c in self.conns for e in c if e[0] == 'S'))

    def text(self):
        out = ['SCENE %s %d %d' % (self.sid, self.opt, self.nudge)]
        for i, (x, y) in enumerate(self.shapes):
            out.append('SHAPE %d %d %d %d %d' % (i, x, y, x + 30, y + 30))
        for o in self.obstacles:
            out.append('OBSTACLE %d %d %d %d' % tuple(o))
        for i, (x, y) in enumerate(self.juncs):
            out.append('JUNCTION %d %d %d' % (i, x, y))
        for i, c in enumerate(self.conns):
            out.append('CONN %d %s %s' % (i, ' '.join(map(str, c[0])), ' '.join(map(str, c[1]))))
        if self.reroute:
            if self.reroute[0] == 'J':
                out.append('REROUTE_J %d' % self.reroute[1])
            else:
                out.append('REROUTE_T %d %s' % (len(self.reroute[1]), ' '.join('S %d 1' % s for s in self.reroute[1])))
        out.append('TX')
        for mv in self.moves:
            for (s, dx, dy) in mv:
                if s == -1:      # (-1, mode, 0): the client applies the junctions' recommended positions (mode 0 all, 1 only changed ones)
                    out.append('APPLYREC %d' % dx)
                elif s == -2:    # (-2, j, 0): late registration of the hyperedge at junction j for full rerouting
                    out.append('REROUTE_J %d' % dx)
                elif s == -3:    # (-3, j, 0): the client removes junction j (exactly two connectors) with removeJunctionAndMergeConnectors()
                    out.append('RMJ %d' % dx)
                else:
                    out.append('MOVE %d %d %d' % (s, dx, dy))
            out.append('TX')
        out.append('END')
        return '\n'.join(out) + '\n'

    def as_json(self):
        return {'sid': self.sid, 'opt': self.opt, 'nudge': self.nudge, 'family': self.family, 'shapes': self.shapes,
                'obstacles': self.obstacles, 'juncs': self.juncs, 'conns': self.conns, 'reroute': self.reroute, 'moves': self.moves,
                'scene_text': self.text()}


def scene_from_json(j):
    sc = Scene(j['sid'], j['opt'], j.get('nudge', 4), j.get('family', 'corpus'))
    sc.shapes = [tuple(s) for s in j['shapes']]
    sc.obstacles = [tuple(o) for o in j.get('obstacles', [])]
    sc.juncs = [tuple(x) for x in j['juncs']]
    sc.conns = [(tuple(c[0]), tuple(c[1])) for c in j['conns']]
    r = j.get('reroute')
    sc.reroute = None if not r else (r[0], r[1] if r[0] == 'J' else list(r[1]))
    sc.moves = [[tuple(m) for m in mv] for mv in j.get('moves', [])]
    return sc


def gen_scene(rng, sid, lattice=60, nt=None, mode=None, opt=None, generic=True):
    """3..6 terminals (30x30 shapes with a centre pin) on a lattice, one junction in free space, a star of connectors;
    registration none / by junction / by terminal list; improvement option 0/1/2; one or two later transactions moving a shape"""
    opt = rng.below(3) if opt is None else opt
    sc = Scene(sid, opt, 4)
    nt = nt or rng.range(3, 6)
    boxes = []
    for k in range(nt):
        for tries in range(200):
            if generic:
                # generic position: no two terminals share a pin x or y coordinate, nor does a pin line touch another shape
                x, y = rng.below(115) * 5, rng.below(115) * 5
                if all(abs(bx - x) > 35 and abs(by - y) > 35 for bx, by in boxes):
                    break
            else:
                x, y = rng.below(10) * lattice, rng.below(10) * lattice
                if all(abs(bx - x) >= 60 or abs(by - y) >= 60 for bx, by in boxes):
                    break
        boxes.append((x, y))
    sc.shapes = boxes
    if rng.chance(1, 4):
        for tries in range(20):
            x, y = rng.below(9) * lattice + 15, rng.below(9) * lattice + 15
            if all(abs(bx - x) >= 75 or abs(by - y) >= 75 for bx, by in boxes):
                sc.obstacles.append((x, y, x + 40, y + 25))
                break
    mode = rng.below(3) if mode is None else mode      # 0 no rerouting, 1 by junction, 2 by terminal list
    if mode == 2:
        sc.reroute = ('T', list(range(nt)))
    else:
        for tries in range(100):
            jx, jy = (rng.below(10) * lattice + 45, rng.below(10) * lattice + 45) if not generic else \
                (rng.below(119) * 5 + 2, rng.below(119) * 5 + 3)
            if all(not (bx - 5 <= jx <= bx + 35 and by - 5 <= jy <= by + 35) for bx, by in boxes) and \
               all(not (o[0] - 5 <= jx <= o[2] + 5 and o[1] - 5 <= jy <= o[3] + 5) for o in sc.obstacles):
                break
        sc.juncs.append((jx, jy))
        for k in range(nt):
            sc.conns.append((('S', k, 1), ('J', 0)) if rng.chance(1, 2) else (('J', 0), ('S', k, 1)))
        if mode == 1:
            sc.reroute = ('J', 0)
    sc.family = ('' if generic else 'lattice_') + ['improve_only', 'reroute_junction', 'reroute_terminals'][mode] + '_opt%d' % opt
    for t in range(rng.range(1, 2)):
        s = rng.below(nt)
        dx, dy = (rng.range(0, 4) - 2) * 20, (rng.range(0, 4) - 2) * 20
        nx, ny = boxes[s][0] + dx, boxes[s][1] + dy
        if generic:
            dx, dy = dx + rng.range(-1, 1) * 5, dy + rng.range(-1, 1) * 5
            nx, ny = boxes[s][0] + dx, boxes[s][1] + dy
            okm = all(k == s or (abs(bx - nx) > 35 and abs(by - ny) > 35) for k, (bx, by) in enumerate(boxes))
        else:
            okm = all(k == s or abs(bx - nx) >= 45 or abs(by - ny) >= 45 for k, (bx, by) in enumerate(boxes))
        if (dx or dy) and okm and \
                all(not (o[0] - 35 <= nx <= o[2] + 5 and o[1] - 35 <= ny <= o[3] + 5) for o in sc.obstacles):
            sc.moves.append([(s, dx, dy)])
            boxes = list(boxes)
            boxes[s] = (nx, ny)
    return sc


def gen_rec_scene(rng, sid, **kw):
    """`apply recommended positions` histories: after routing / rerouting / improvement the client calls
    Router::moveJunction(j, j->recommendedPosition()) for every live junction (no-op moves included, or only the changed ones), alone or
    together with shape moves, then processTransaction(); repeated"""
    sc = gen_scene(rng, sid, **kw)
    shape_moves = [mv for mv in sc.moves]
    extra = []
    for k in range(rng.range(1, 3)):
        rec = (-1, 0 if rng.chance(3, 4) else 1, 0)
        kind = rng.below(4)
        if kind == 0 or not shape_moves:
            extra.append([rec])
        elif kind == 1:
            extra.append([rec] + shape_moves.pop(0))
        elif kind == 2:
            extra.append(shape_moves.pop(0) + [rec])
        else:
            extra.append(shape_moves.pop(0))
            extra.append([rec])
    sc.moves = extra + shape_moves[:1]
    # (late registration - REROUTE_J in a later transaction, scene entry (-2, j, 0) - is supported by the scene language but not generated:
    #  the terminal_on_tree_path classifier reads the tree the rerouter built from transaction 0 only)
    sc.family = 'rec_' + sc.family
    return sc


def gen_chain_scene(rng, sid, kind=None, orient=None, opt=None):
    """client API JunctionRef::removeJunctionAndMergeConnectors: a chain of 2..4 junctions J0 - J1 - .. between 3..7 terminals; one junction R has
    exactly two connectors - kind 'JJ': an interior junction without terminals (both neighbours are junctions), kind 'TJ': an end junction with a
    single terminal (neighbours: a terminal and a junction).  orient: bit 0 / bit 1 = the first / second connector of R runs R -> neighbour (1)
    or neighbour -> R (0), so P->J, J->P, J->J in both directions all occur; the connectors are created in random order (the order decides which
    of the two the library deletes).  History: route; RMJ R (alone or with a shape move), transaction; then further transactions: shape moves,
    `apply recommended positions`, removal of another junction that has two connectors by then."""
    opt = rng.below(3) if opt is None else opt
    sc = Scene(sid, opt, 4)
    kind = kind or rng.choice(['JJ', 'JJ', 'TJ'])
    orient = rng.below(4) if orient is None else orient
    k = rng.range(3, 4) if kind == 'JJ' else rng.range(2, 4)
    r = rng.range(1, k - 2) if kind == 'JJ' else rng.choice([0, k - 1])
    nterm = []
    for i in range(k):
        if i == r:
            nterm.append(0 if kind == 'JJ' else 1)
        elif i in (0, k - 1):
            nterm.append(rng.range(2, 3))
        else:
            nterm.append(rng.choice([0, 1, 1, 2]))
    while sum(nterm) > 7:
        i = max(range(k), key=lambda q: nterm[q])
        nterm[i] -= 1
    boxes = []
    for t in range(sum(nterm)):
        for tries in range(400):
            x, y = rng.below(115) * 5, rng.below(115) * 5
            if all(abs(bx - x) > 35 and abs(by - y) > 35 for bx, by in boxes):
                break
        boxes.append((x, y))
    sc.shapes = boxes
    for i in range(k):
        for tries in range(200):
            jx, jy = rng.below(119) * 5 + 2, rng.below(119) * 5 + 3
            if all(not (bx - 5 <= jx <= bx + 35 and by - 5 <= jy <= by + 35) for bx, by in boxes) and \
               all(abs(jx - px) > 10 or abs(jy - py) > 10 for px, py in sc.juncs):
                break
        sc.juncs.append((jx, jy))
    conns, t = [], 0
    at_r = []
    for i in range(k):
        for _ in range(nterm[i]):
            conns.append([('S', t, 1), ('J', i), i == r])
            t += 1
        if i + 1 < k:
            conns.append([('J', i), ('J', i + 1), i == r or i + 1 == r])
    which = 0
    out = []
    for a, b, touches in conns:
        if touches:
            other, me = (a, b) if b == ('J', r) else (b, a)
            fwd = (orient >> which) & 1
            which += 1
            out.append((me, other) if fwd else (other, me))
        else:
            out.append((a, b) if rng.chance(1, 2) else (b, a))
    sc.conns = rng.shuffle(out)
    # model of the junction degrees, to pick further removable junctions
    degs = {i: nterm[i] + (1 if i > 0 else 0) + (1 if i + 1 < k else 0) for i in range(k)}
    alive = set(range(k))

    def shape_move():
        s_ = rng.below(len(boxes))
        dx, dy = (rng.range(0, 4) - 2) * 20 + rng.range(-1, 1) * 5, (rng.range(0, 4) - 2) * 20 + rng.range(-1, 1) * 5
        nx, ny = boxes[s_][0] + dx, boxes[s_][1] + dy
        if (dx or dy) and all(q == s_ or (abs(bx - nx) > 35 and abs(by - ny) > 35) for q, (bx, by) in enumerate(boxes)) and \
                all(not (nx - 5 <= jx <= nx + 35 and ny - 5 <= jy <= ny + 35) for jx, jy in sc.juncs):
            boxes[s_] = (nx, ny)
            return [(s_, dx, dy)]
        return []
    first = [(-3, r, 0)]
    if rng.chance(1, 3):
        first = (shape_move() + first) if rng.chance(1, 2) else (first + shape_move())
    if rng.chance(1, 4):
        sc.moves.append(shape_move() or [(-1, 0, 0)])           # a transaction before the removal
    sc.moves.append(first)
    alive.discard(r)
    for _ in range(rng.range(1, 3)):
        cand = [i for i in sorted(alive) if degs[i] == 2 and len(alive) >= 2]
        what = rng.below(4)
        if what == 0 and cand:
            j = rng.choice(cand)
            sc.moves.append([(-3, j, 0)])
            alive.discard(j)
        elif what == 1:
            sc.moves.append([(-1, 0 if rng.chance(3, 4) else 1, 0)])
        else:
            mv = shape_move()
            if mv:
                sc.moves.append(mv)
    sc.family = 'rmj_%s_orient%d_opt%d' % (kind, orient, opt)
    return sc


def gen_chain_reroute_scene(rng, sid, **kw):
    """full rerouting (registerHyperedgeForRerouting(JunctionRef*)) of a hyperedge that has SEVERAL junctions, one of them a pass-through
    junction with exactly two connectors (the chains of gen_chain_scene without the client-side removal): every old junction - whatever its
    degree - must be reported deleted and be gone, the new connectors / junctions must form one tree over the same terminals (seeded C12-7:
    only junctions with more than two connectors were recorded, the pass-through junction stayed behind without connectors).  The hyperedge is
    registered at a random junction of the chain (the pass-through one included); later transactions: shape moves / apply recommended."""
    sc = gen_chain_scene(rng, sid, **kw)
    moves = []
    for mv in sc.moves:
        mv = [m for m in mv if m[0] != -3]
        if mv:
            moves.append(mv)
    sc.moves = moves[:2]
    sc.reroute = ('J', rng.below(len(sc.juncs)))
    sc.family = 'chainreroute_' + sc.family[4:]
    return sc


def twin(sc):
    """same scene without improvement: its first transaction shows the tree *before* improvement (classifier input)"""
    t = copy.deepcopy(sc)
    t.sid = sc.sid + '_pre'
    t.opt = 0
    t.moves = []
    t.twin_of = sc.sid
    t.family = 'twin'
    return t


# ------------------------------------------------------------------------------------------------ running
def parse_harness(txt):
    out, cur, tx = {}, None, None
    for line in txt.split('\n'):
        w = line.split()
        if not w:
            continue
        if w[0] == 'SCENE':
            cur = {'tx': [], 'assert': None, 'h2_pending': None}
            out[w[1]] = cur
        elif w[0] == 'H2':
            # hook H2 records of the transaction being processed; they precede its TX record
            if cur is not None:
                if len(w) > 1 and w[1] == 'TXBEGIN':
                    cur['h2_pending'] = []
                elif cur['h2_pending'] is not None:
                    cur['h2_pending'].append(line)
        elif w[0] == 'TX':
            tx = {'cbefore': [], 'jbefore': [], 'boxes': {}, 'pins': {}, 'juncs': {}, 'conns': {}, 'newc': [], 'delc': [], 'newj': [],
                  'delj': [], 'complete': False, 'processed': w[2] == '1', 'h2': cur['h2_pending']}
            cur['h2_pending'] = None
            cur['tx'].append(tx)
        elif w[0] == 'ENDTX':
            tx['complete'] = True
        elif w[0] == 'CBEFORE':
            tx['cbefore'] = [int(v) for v in w[1:]]
        elif w[0] == 'JBEFORE':
            tx['jbefore'] = [int(v) for v in w[1:]]
        elif w[0] == 'SHAPEBOX':
            tx['boxes'][int(w[1])] = [float(v) for v in w[2:6]]
        elif w[0] == 'SHAPEPIN':
            tx['pins'][int(w[1])] = (float(w[3]), float(w[4]))
        elif w[0] == 'JUNC':
            tx['juncs'][int(w[1])] = {'live': w[2] == '1', 'pos': (float(w[3]), float(w[4])), 'rec': (float(w[5]), float(w[6]))}
        elif w[0] == 'CONN':
            i, ends = 2, []
            for s in range(2):
                if w[i] == 'J':
                    ends.append(('J', int(w[i + 1]))); i += 2
                elif w[i] == 'S':
                    ends.append(('S', int(w[i + 1]), int(w[i + 2]))); i += 3
                else:
                    ends.append(('P', float(w[i + 1]), float(w[i + 2]))); i += 3
            n = int(w[i + 1])
            pts = [(float(w[i + 2 + 2 * k]), float(w[i + 3 + 2 * k])) for k in range(n)]
            tx['conns'][int(w[1])] = {'ends': ends, 'route': pts}
        elif w[0] in ('NEWC', 'DELC', 'NEWJ', 'DELJ'):
            tx[w[0].lower()] = [int(v) for v in w[1:]]
        elif w[0] == 'ASSERT':
            cur['assert'] = line[7:]
        elif w[0] == 'RMJ' and cur is not None:
            # client call JunctionRef::removeJunctionAndMergeConnectors(): (junction id, merged connector | -1 = refused, deleted connector,
            # number of attached connector ends before the call, index of the transaction that follows)
            cur.setdefault('rmj', []).append((int(w[1]), int(w[2]), int(w[3]), int(w[4]) if len(w) > 4 else -1, len(cur['tx'])))
        elif w[0] == 'RECMOVE' and cur is not None:
            # client move of a junction to its recommendedPosition(), queued for the transaction that follows: (id, no-op?, from, to)
            cur.setdefault('recmoves', []).append((int(w[1]), w[2] == '1', (float(w[3]), float(w[4])), (float(w[5]), float(w[6])), len(cur['tx'])))
    return out


def inside_box(b, p):
    return b[0] <= p[0] <= b[2] and b[1] <= p[1] <= b[3]


def build_graph(sc, t):
    """graph of the live connectors: node ids (terminal shape s -> s+1, junction -> 100+k, dangling end -> 900+k);
    a dangling end whose route end lies in a terminal shape of a terminal-list registration is resolved to that terminal and
    reported separately (finding terminal_list_unattached)"""
    jmap, edges, dangling, resolved = {}, [], [], []
    nd = 0
    for cid in sorted(t['conns']):
        c = t['conns'][cid]
        e2 = []
        for s, e in enumerate(c['ends']):
            if e[0] == 'S':
                e2.append(e[1] + 1)
            elif e[0] == 'J':
                jmap.setdefault(e[1], 100 + len(jmap))
                e2.append(jmap[e[1]])
            else:
                rt = c['route']
                hit = None
                if rt:
                    q = rt[0] if s == 0 else rt[-1]        # the route end on the side of the empty ConnEnd
                    for si, b in t['boxes'].items():
                        if inside_box(b, q):
                            hit = si if hit is None else hit
                if hit is not None and sc.reroute and sc.reroute[0] == 'T' and hit in sc.reroute[1]:
                    resolved.append((cid, s, hit))
                    e2.append(hit + 1)
                else:
                    nd += 1
                    dangling.append((cid, s))
                    e2.append(900 + nd)
        edges.append((e2[0], e2[1]))
    return edges, jmap, dangling, resolved


def tree_cmd(edges, T):
    return 'TREE %d %s %d %s' % (len(edges), ' '.join('%d %d' % e for e in edges), len(T), ' '.join(str(x + 1) for x in T))


def on_segment(a, b, p):
    cr = (b[0] - a[0]) * (p[1] - a[1]) - (p[0] - a[0]) * (b[1] - a[1])
    return cr == 0 and min(a[0], b[0]) <= p[0] <= max(a[0], b[0]) and min(a[1], b[1]) <= p[1] <= max(a[1], b[1])


def terminal_on_tree_path(sc, pre):
    """classifier (F-j): in the tree before improvement (junction position() of the scene's own output / twin scene without
    improvement, first transaction) a junction was created at a terminal's pin or inside/on the terminal's shape, or a terminal's pin is an
    interior point of a connector route"""
    if not pre or not pre['tx'] or not pre['tx'][0]['complete']:
        return None
    t = pre['tx'][0]
    for s in sc.terminals():
        p = t['pins'].get(s)
        b = t['boxes'].get(s)
        for jid, j in t['juncs'].items():
            if p is not None and j['pos'] == p:
                return {'terminal': s, 'pin': p, 'junction_created_at_pin': jid}
            if b is not None and inside_box(b, j['pos']):
                # routes to a centre pin stop at the shape border: a junction in or on the terminal's shape is the same situation
                return {'terminal': s, 'shape': b, 'junction_created_in_or_on_terminal_shape': jid, 'junction_position': j['pos']}
    for s in sc.terminals():
        p = t['pins'].get(s)
        if p is None:
            continue
        for jid, j in t['juncs'].items():
            if j['live'] and (j['pos'] == p or j['rec'] == p):
                return {'terminal': s, 'pin': p, 'junction_at_pin': jid}
        for cid, c in t['conns'].items():
            rt = c['route']
            own = any(e[0] == 'S' and e[1] == s for e in c['ends'])
            if len(rt) >= 2 and p in (rt[0], rt[-1]):
                continue        # the connector simply ends at this terminal
            for k in range(len(rt) - 1):
                if on_segment(rt[k], rt[k + 1], p):
                    return {'terminal': s, 'pin': p, 'interior_of_route': cid, 'own_connector': own}
    return None


def junction_in_terminal_shape(sc, t):
    """classifier junction_inside_terminal_shape, evaluated on the transaction's own output: the position() of a live junction
    lies inside or on the box of a terminal shape (a later transaction moved the shape over the junction, or the junction was
    placed there): the junction is no longer in free space"""
    if not t:
        return None
    for jid, j in sorted(t['juncs'].items()):
        if not j['live']:
            continue
        for s in sc.terminals():
            b = t['boxes'].get(s)
            if b is not None and inside_box(b, j['pos']):
                return {'junction': jid, 'position': j['pos'], 'terminal': s, 'shape': b}
    return None


def recommended_onto_terminal(sc, o, k):
    """classifier terminal_on_tree_path:improver_put_junction_on_terminal_shape, evaluated on transaction k's own output: a live junction's
    position() lies inside or on the box of a terminal shape AND the client put it there by moveJunction(j, j->recommendedPosition()) in this
    or an earlier transaction (the improver itself recommended a place on the terminal's border)"""
    if k >= len(o['tx']):
        return None
    # the junction may since have been replaced (improvement deletes / adds junctions): the finding is the state the recommendation
    # produced, so every transaction from the one that placed a junction on a terminal's shape onwards is covered
    for jid, same, p, rp, txi in o.get('recmoves', []):
        if txi > k or txi >= len(o['tx']):
            continue
        t = o['tx'][txi]
        for s_ in sc.terminals():
            b = t['boxes'].get(s_)
            if b is not None and inside_box(b, rp) and not same:
                return {'junction': jid, 'recommended_position': rp, 'terminal': s_, 'shape': b, 'moved_there_by_recommendation_in_tx': txi}
    # ... or the improver created a new junction there (reported in its new-junction list; position() read from that transaction's output)
    for txi in range(0, k + 1):
        t = o['tx'][txi]
        if not t['complete'] or (txi == 0 and sc.reroute):
            continue        # (junctions created by the REROUTER at a terminal are the finding terminal_on_tree_path proper)
        for jid in t['newj']:
            j = t['juncs'].get(jid)
            if j is None:
                continue
            for s_ in sc.terminals():
                b = t['boxes'].get(s_)
                if b is not None and inside_box(b, j['pos']):
                    return {'junction': jid, 'position': j['pos'], 'terminal': s_, 'shape': b, 'created_there_by_improvement_in_tx': txi}
    return None


def shape_moved_over_junction(sc, o):
    """first transaction in which a client MOVE put a terminal shape over a junction that was in free space before: the shape's box differs
    from the previous transaction's, it contains (inside or on) the position() a live junction has in BOTH transactions, and the previous box
    did not.  From there on the scene is outside the property's domain (junction placements in free space)."""
    for k in range(1, len(o['tx'])):
        t0, t1 = o['tx'][k - 1], o['tx'][k]
        if not (t0['complete'] and t1['complete']):
            continue
        for s_ in sc.terminals():
            b0, b1 = t0['boxes'].get(s_), t1['boxes'].get(s_)
            if b0 is None or b1 is None or b0 == b1:
                continue
            for jid, j in t1['juncs'].items():
                j0 = t0['juncs'].get(jid)
                if j0 is not None and j0['live'] and j0['pos'] == j['pos'] and inside_box(b1, j['pos']) and not inside_box(b0, j['pos']):
                    return k
    return None


def harness_exe(flavor='exc'):
    return C.build_harness('c12_hyper', ['libavoid'], flavor, extra_flags=(('-DHAVE_H2',) if L.hook_present() else ()))


def run_scenes(scenes, flavor='exc'):
    exe = harness_exe(flavor)
    drv = C.ocaml_build('c12', 'C12.v', 'c12_driver.ml', 'c12_model.ml')
    d = os.path.join(C.BUILD, 'tmp')
    os.makedirs(d, exist_ok=True)
    tag = '%d' % os.getpid()
    sf = os.path.join(d, 'c12_scenes_%s.txt' % tag)
    # run; when the harness dies (signal / sanitizer abort) the scene it was in is the failing input: record it and go on
    # with the scenes after it
    obs, crashed, todo = {}, None, list(scenes)
    while todo:
        open(sf, 'w').write(''.join(s.text() for s in todo))
        rc, out, err, dt = C.sh([exe, sf], timeout=1800)
        part = parse_harness(out)
        done = set(l.split()[1] for l in out.split('\n') if l.startswith('ENDSCENE'))
        obs.update({k: v for k, v in part.items() if k in done})
        if rc == 0:
            break
        idx = next((i for i, s in enumerate(todo) if s.sid not in done), None)
        if idx is None:
            break
        culprit = todo[idx]
        o = part.get(culprit.sid, {'tx': [], 'assert': None})
        o['crash'] = {'rc': rc, 'stderr': err[-1200:]}
        obs[culprit.sid] = o
        crashed = (crashed or []) + [culprit.sid]
        todo = todo[idx + 1:]
        if len(crashed) > 20:
            break
    cmds, plan, h2cmds = [], [], []
    for sc in scenes:
        o = obs.get(sc.sid)
        if o is None:
            plan.append((sc, None, []))
            continue
        graphs = []
        by_list = bool(sc.reroute and sc.reroute[0] == 'T')
        o['h2_sections'] = []          # (transaction index, c12lib.Section)
        for k, t in enumerate(o['tx']):
            if t.get('h2') is not None:
                for sec in L.plan_tx(t['h2'], by_list):
                    o['h2_sections'].append((k, sec))
            if not t['complete']:
                continue
            edges, jmap, dangling, resolved = build_graph(sc, t)
            graphs.append((edges, jmap, dangling, resolved))
            cmds.append(tree_cmd(edges, sc.terminals()))
        if o.get('h2_pending'):
            # the transaction died (assertion / crash) after these records were written
            for sec in L.plan_tx(o['h2_pending'], by_list):
                sec.complete = False
                o['h2_sections'].append((len(o['tx']), sec))
        for k, sec in o['h2_sections']:
            h2cmds += [c for c, m in sec.cmds]
        plan.append((sc, o, graphs))
    mf = os.path.join(d, 'c12_model_%s.txt' % tag)
    open(mf, 'w').write('\n'.join(cmds + h2cmds) + '\n')
    rc2, mout, merr, dt2 = C.sh([drv, mf], timeout=1200)
    if rc2 != 0:
        raise RuntimeError('c12 driver failed: ' + merr[-2000:])
    answers = [l.split() for l in mout.split('\n') if l.startswith('TREE')]
    h2answers = [l for l in mout.split('\n') if l and not l.startswith('TREE')]
    res, ai, hi = [], 0, 0
    for sc, o, graphs in plan:
        res.append((sc, o, graphs, answers[ai:ai + len(graphs)]))
        ai += len(graphs)
        if o is not None:
            o['h2_problems'] = []
            for k, sec in o['h2_sections']:
                a = h2answers[hi:hi + len(sec.cmds)]
                hi += len(sec.cmds)
                o['h2_problems'].append((k, sec, L.judge_section(sec, a)))
    for f in (sf, mf):
        try:
            os.remove(f)
        except OSError:
            pass
    return res, crashed


def judge(sc, o, graphs, answers, pre, stats):
    bad = []
    base = {'scene': sc.as_json(), 'replay': './check C12 --replay <this file>  (or: write scene_text to a file and run build/bin/c12_hyper-exc-* <file>)'}
    if o is None:
        return [(dict(base, what='harness produced no output for the scene'), None)]
    # the junctions' position() still is where the rerouter put them (improvement only sets recommendedPosition()), so the scene's
    # own output shows the pre-improvement junction places; the twin run adds the pre-improvement routes (it may differ from the
    # scene's own intermediate tree: mtst.cpp orders tree roots by pointer value)
    onpath = terminal_on_tree_path(sc, o) or (terminal_on_tree_path(sc, pre) if sc.opt >= 1 else None)
    tl = bool(sc.reroute and sc.reroute[0] == 'T')
    tail = [l for l in (o.get('h2_pending') or []) if l.split()[1] not in ('N', 'E', 'C')][-8:]
    if o.get('crash'):
        bad.append((dict(base, what='the harness process died inside libavoid while running this scene (signal / abort)', detail=o['crash'],
                         transactions_completed=len([t for t in o['tx'] if t['complete']]), last_op_log_records_before_the_crash=tail), None))
    if o['assert']:
        fpa = None
        if tl and 'conn->m_dst_connend' in o['assert'] and 'hyperedgetree.cpp' in o['assert']:
            fpa = FP_TLIST + ':assert'      # the improver meets a connector of the terminal-list rerouting whose end was never set
        bad.append((dict(base, what='COLA_ASSERT failed inside libavoid during a hyperedge scene', assertion=o['assert'],
                         last_op_log_records_before_the_assertion=tail), fpa))
    for rm in o.get('recmoves', []):
        stats['recommended_moves_noop' if rm[1] else 'recommended_moves_changed'] += 1
    for rj in o.get('rmj', []):
        # (the library refuses - returns nullptr - unless the junction has exactly two connectors; -2: improvement had already deleted it)
        stats['junction_removals_performed' if rj[1] >= 0 else 'junction_removals_refused'] += 1
    T = sc.terminals()
    gi = 0
    tlist_reported = False
    ood = shape_moved_over_junction(sc, o) if sc.family.startswith(('rec_', 'rmj_')) else None     # (earlier families keep their full judgement)
    o['out_of_domain_from'] = ood
    if ood is not None:
        stats['scenes_left_domain_shape_moved_over_junction'] = stats.get('scenes_left_domain_shape_moved_over_junction', 0) + 1
    for k, t in enumerate(o['tx']):
        if not t['complete']:
            continue
        edges, jmap, dangling, resolved = graphs[gi]
        ans = answers[gi]
        gi += 1
        if ood is not None and k >= ood:
            continue        # the client moved a terminal shape over a junction: junctions are no longer in free space (outside the property's domain)
        stats['transactions'] += 1
        stats['connectors'] += len(t['conns'])
        fp = FP_FJ if onpath else None
        if fp is None and tl and (dangling or resolved):
            fp = FP_TLIST + ':moved'        # an unattached end does not follow its shape: it dangles after the shape moved
        jin = junction_in_terminal_shape(sc, t)
        rec_on = recommended_onto_terminal(sc, o, k)
        if fp is None and rec_on:
            fp = FP_FJ + ':improver_put_junction_on_terminal_shape'
        if fp is None and jin:
            fp = FP_JIN
        extra = {'terminal_on_tree_path': onpath} if onpath else {'improver_put_junction_on_terminal_shape': rec_on} if rec_on else \
            {'junction_inside_terminal_shape': jin} if jin else {}
        # ---- tree with the same terminals (verified checker)
        if ans[1] != '1':
            stats['tree_bad'] += 1
            bad.append((dict(base, what='the connectors and junctions of the hyperedge do not form one tree whose degree-1 nodes are exactly the terminals',
                             tx=k, connected=ans[2] == '1', acyclic=ans[3] == '1', leaves_equal_terminals=ans[4] == '1',
                             leaves=[int(x) for x in ans[6:]], terminals=[x + 1 for x in T], edges=edges,
                             node_ids={'terminal shape s': 's+1', 'junctions': {str(a): b for a, b in jmap.items()}, 'dangling ends': '>= 900'},
                             connectors={str(c): v for c, v in t['conns'].items()}, dangling_ends=dangling, **extra), fp))
        if dangling and ans[1] == '1':
            bad.append((dict(base, what='connector with an unattached end', tx=k, dangling_ends=dangling), fp))
        if resolved and not tlist_reported:
            tlist_reported = True
            stats['tlist_unattached'] += 1
            bad.append((dict(base, what='hyperedge registered by terminal list: the new connectors\' terminal ends are not attached (endpointConnEnds() gives '
                                        'an empty ConnEnd); resolved geometrically for the tree check', tx=k, ends=resolved), FP_TLIST))
        # ---- no orphan junction
        for jid, j in t['juncs'].items():
            if j['live'] and jid not in jmap and t['conns']:
                bad.append((dict(base, what='live junction that no connector is attached to', tx=k, junction=jid, **extra), fp))
        # ---- route ends at the attached objects
        for cid, c in t['conns'].items():
            rt = c['route']
            stats['route_ends'] += 2
            if not rt:
                bad.append((dict(base, what='connector of the hyperedge has an empty route', tx=k, conn=cid, ends=c['ends'], **extra), fp))
                continue

            def ok_at(e, q):
                if e[0] == 'J':
                    j = t['juncs'].get(e[1])
                    return j is not None and (q == j['pos'] or q == j['rec'])
                if e[0] == 'S':
                    return inside_box(t['boxes'][e[1]], q)
                return True
            a, b = c['ends']
            if not ((ok_at(a, rt[0]) and ok_at(b, rt[-1])) or (ok_at(a, rt[-1]) and ok_at(b, rt[0]))):
                bad.append((dict(base, what='connector route does not run between the positions of the two objects it is attached to '
                                            '(junction: position() or recommendedPosition(); shape: inside or on the shape)',
                                 tx=k, conn=cid, ends=c['ends'], route=rt,
                                 junctions={str(e[1]): t['juncs'].get(e[1]) for e in c['ends'] if e[0] == 'J'}, **extra), fp))
        # ---- reported new / deleted lists = set difference of live objects
        if t['processed']:
            stats['list_checks'] += 1
            cb, ca = set(t['cbefore']), set(t['conns'].keys())
            jb, ja = set(t['jbefore']), set(j for j, v in t['juncs'].items() if v['live'])
            nc, dc, nj, dj = set(t['newc']), set(t['delc']), set(t['newj']), set(t['delj'])
            if (nc - dc) != (ca - cb) or (dc - nc) != (cb - ca) or (nj - dj) != (ja - jb) or (dj - nj) != (jb - ja) or \
                    any(x == -1 for x in t['delc']):
                bad.append((dict(base, what='reported new/deleted object lists differ from the set difference of live objects before/after the transaction',
                                 tx=k, connectors_before=sorted(cb), connectors_after=sorted(ca), junctions_before=sorted(jb),
                                 junctions_after=sorted(ja), new_connectors=t['newc'], deleted_connectors=t['delc'],
                                 new_junctions=t['newj'], deleted_junctions=t['delj'], **extra), fp))
    bad += judge_h2(sc, o, onpath, tl, base, stats)
    return bad


# kinds of op-log findings that are consequences of a terminal lying on the tree the rerouter built (finding F-j): the leaf-preservation
# guard of a contraction fails, the leaf set / terminals change, a connector is cut off, the hyperedge falls apart into two trees.
# Every other kind (operation undefined in the model, neighbours differ after an operation, final trees differ, unknown nodes, junction
# bookkeeping, geometric preconditions, terminal-set bookkeeping of the MTST) is never classified.
H2_FJ_KINDS = ('op_guard', 'after_inv', 'cut_off', 'terminals_changed', 'before_inv', 'before_terminals', 'multi_tree', 'terminal_interior',
               'smooth_mtst', 'terminal_no_node')


def judge_h2(sc, o, onpath, tl, base, stats):
    """op-log correspondence (hook H2): problems of every replayed section, first problem of a section in full, the rest as a summary"""
    bad = []
    secs = o.get('h2_problems') or []
    # classifier predicates evaluated on the logged trees themselves
    interior = any(p.get('kind') == 'terminal_interior' for k, sec, pr in secs for p in pr)
    for k, sec, pr in secs:
        if o.get('out_of_domain_from') is not None and k >= o['out_of_domain_from']:
            continue
        stats['h2_sections'] += 1
        stats['h2_' + sec.kind] += 1
        stats['h2_commands'] += len(sec.cmds)
        stats['h2_ops'] += len([1 for c, m in sec.cmds if m.get('what') == 'op'])
        for c, m in sec.cmds:
            if m.get('what') == 'op':
                key = 'h2_op_' + c.split()[1]
                stats[key] = stats.get(key, 0) + 1
        if sec.info.get('skipped'):
            stats['h2_skipped'] += 1
        if sec.kind == 'improve' and not tl and 'terminals_before' in sec.info:
            # (iii) the leaves of the tree as built carry exactly the terminals the scene recorded
            want = sorted(str(('S', 1000 + i, 1)) for i in sc.terminals())
            if sec.info['terminals_before'] != want:
                pr = pr + [{'kind': 'before_terminals', 'what': 'the leaves of the hyperedge tree as built do not carry exactly the recorded terminals',
                            'leaves': sec.info['terminals_before'], 'recorded': want}]
        if not pr:
            stats['h2_sections_agree'] += 1
            continue
        on_end = sec.info.get('junction_on_connector_end') or []
        # a displaced connector end (kind leaf_displaced) is judged on its own (below); next to other findings of the section it is
        # an accompanying symptom and only tolerated when its own classifier (junction inside a terminal's shape) holds
        displaced = [p for p in pr if p.get('kind') == 'leaf_displaced']
        jin = junction_in_terminal_shape(sc, o['tx'][k]) if k < len(o['tx']) else None
        pr = [p for p in pr if p.get('kind') != 'leaf_displaced'] + displaced
        first = pr[0]
        fp = None
        if first.get('kind') in H2_FJ_KINDS and all(p.get('kind') in H2_FJ_KINDS + ('smooth_after', 'conn_path') for p in pr if p not in displaced) \
                and (not displaced or jin or recommended_onto_terminal(sc, o, k)):
            if onpath or interior:
                fp = FP_FJ      # the recorded classifier of the finding (geometry of the tree before improvement / MTST through a terminal)
            elif recommended_onto_terminal(sc, o, k):
                # the same situation (junction in / on a terminal's shape in the tree before this improvement), reached by the client
                # following the improver's own recommendedPosition()
                fp = FP_FJ + ':improver_put_junction_on_terminal_shape'
            elif on_end and (first.get('kind') != 'op_guard' or first.get('diverging_op', '').startswith('CONTRACT')):
                fp = FP_FJ      # the same situation read off the logged tree: a junction sits on a connector end and is contracted with it
            elif first.get('kind') == 'op_guard' and first.get('diverging_op', '').startswith('CONTRACT') and \
                    first.get('surviving_node_holds_junction') is not None:
                # the mechanism itself (Coq: contract_terminal_into_junction_refuted): removeZeroLengthEdges contracts a zero-length edge
                # between a junction and a connector end; here the junction reached the connector end only during the nudging of the
                # improvement (no terminal on the rerouter's tree)
                fp = FP_FJ + ':junction_lands_on_connector_end'
        if fp is None and tl and all(p.get('kind') in ('smooth_after', 'smooth_mtst', 'conn_path') for p in pr):
            fp = FP_TLIST
        if fp is None and all(p.get('kind') == 'leaf_displaced' for p in pr):
            # the segment shifting moved a connector end along with a collapsed segment
            if jin:
                fp = FP_JIN                         # junction inside the terminal's shape: the shape no longer limits the shift
            elif tl and all((p.get('leaf_terminal') or ('?',))[0] == 'P' for p in pr):
                fp = FP_DISP + ':unattached_end'    # the end is a free point (terminal-list registration): nothing limits the shift
        stats['h2_problem_sections'] += 1
        obj = dict(base, what='op-log correspondence (hook H2): ' + first['what'], tx=k, section=sec.kind, section_complete=sec.complete,
                   diverging_op=first.get('diverging_op') or first.get('record'),
                   first_problem=first, further_problems=[{'kind': p.get('kind'), 'what': p['what'][:160], 'op': p.get('diverging_op')} for p in pr[1:6]],
                   problems_in_section=len(pr), junction_on_connector_end=on_end,
                   model_commands=[c for c, m in sec.cmds][:40], terminal_on_tree_path=onpath or None)
        bad.append((obj, fp))
    return bad


def load_corpus():
    out = []
    d = os.path.join(C.VERIF, 'corpus')
    for f in sorted(os.listdir(d)):
        if f.startswith('c12_') and f.endswith('.json'):
            j = json.load(open(os.path.join(d, f)))
            for s in j.get('scenes', [j]):
                sc = scene_from_json(s)
                sc.sid = 'corpus_' + f[:-5] + '_' + str(len(out))
                out.append(sc)
    return out


def evaluate(scenes, res=None):
    """run scenes (+ their no-improvement twins), judge; returns (all_bad, stats, fam, samples, crashed)"""
    allsc = []
    for sc in scenes:
        allsc.append(sc)
        if sc.opt >= 1:
            allsc.append(twin(sc))
    results, crashed = run_scenes(allsc)
    byid = {sc.sid: (sc, o, g, a) for sc, o, g, a in results}
    stats = {k: 0 for k in ('transactions', 'connectors', 'route_ends', 'list_checks', 'tree_bad', 'tlist_unattached', 'h2_sections', 'h2_improve',
                            'h2_reroute', 'h2_commands', 'h2_ops', 'h2_skipped', 'h2_sections_agree', 'h2_problem_sections',
                            'recommended_moves_noop', 'recommended_moves_changed', 'junction_removals_performed', 'junction_removals_refused')}
    fam, all_bad, samples = {}, [], []
    stats['tree_bad_by_family'] = {}
    for sc, o, g, a in results:
        if sc.twin_of:
            continue
        fam[sc.family] = fam.get(sc.family, 0) + 1
        pre = byid.get(sc.sid + '_pre', (None, None))[1]
        tb = stats['tree_bad']
        bad = judge(sc, o, g, a, pre, stats)
        if stats['tree_bad'] > tb:
            stats['tree_bad_by_family'][sc.family] = stats['tree_bad_by_family'].get(sc.family, 0) + 1
        all_bad += bad
        if len(samples) < 3 and o and o['tx'] and o['tx'][0]['complete']:
            smp = {'scene': sc.sid, 'family': sc.family, 'edges_after_tx0': g[0][0] if g else None, 'terminals': [x + 1 for x in sc.terminals()]}
            for k, sec, pr in (o.get('h2_problems') or []):
                if sec.kind == 'improve' and sec.info.get('ops'):
                    smp['op_log_replay'] = {'tx': k, 'section': sec.kind, 'model_commands': [c for c, m in sec.cmds][:12],
                                            'logged_ops': [m['record'] for c, m in sec.cmds if m.get('what') == 'op'][:6], 'findings': len(pr)}
                    break
            samples.append(smp)
    return all_bad, stats, fam, samples, crashed


def report(res, bad_list, limit=3):
    n = 0
    for obj, fp in bad_list:
        if n >= limit and not (fp and res.known_fingerprint(fp)):
            continue
        if res.violation(obj, fingerprint=fp):
            n += 1


def run(tier):
    res = C.Result(PID, tier, 'proof')
    info = C.prove(res, PID)
    res.assumptions = [
        'the junction/terminal multigraph read from Router::connRefs / ConnRef::endpointConnEnds() is the hyperedge (one hyperedge per scene)',
        'live objects = present in the router and not queued for removal (DESIGN 5.12 calibration i); junction ends are compared with position() or '
        'recommendedPosition() (ii); shape ends may stop anywhere inside or on the attached shape (iii)',
    ]
    h2 = L.hook_present()
    if h2:
        res.assumptions.append('hook H2 records every structural edit of the HyperedgeTree (completeness of the log is itself checked: the model\'s tree '
                               'after replaying the log must equal the dumped AFTER tree, and the touched node is compared after every operation); '
                               'connector labels of tree edges are compared on the dumped trees only (paths per connector), not carried through the model')
    else:
        res.assumptions.append('hook H2 missing: op-log correspondence skipped - the segment-level theorems of Avoid/HyperSeg.v are about the model only in this run '
                               '(apply tools/hooks/H2.patch to the tree under test)')
    rng = C.SplitMix64(res.seed)
    n = 140 if tier == 'quick' else 1200
    scenes = load_corpus()
    ncorpus = len(scenes)
    for i in range(n):
        scenes.append(gen_scene(rng.fork(), 's%d' % i, mode=rng.below(2)))
    # classified stream: registration by terminal list (the new connectors have unattached ends; a terminal at a junction is dropped)
    for i in range(n // 6):
        scenes.append(gen_scene(rng.fork(), 'tl%d' % i, mode=2))
    # classified stream: terminals on a 60-unit lattice (pins collinear, terminals lying on tree paths); includes the F-j family
    # of the design round (rerouting by junction + major improvement, 5-6 terminals)
    for i in range(n // 4):
        scenes.append(gen_scene(rng.fork(), 'lat%d' % i, generic=False))
    for i in range(n // 4):
        scenes.append(gen_scene(rng.fork(), 'fj%d' % i, nt=rng.range(5, 6), mode=1, opt=2, generic=False))
    # `apply recommended positions` stream: moveJunction(j, recommendedPosition()) for every junction, with / without shape moves
    for i in range(n // 3):
        r = rng.fork()
        scenes.append(gen_rec_scene(r, 'rec%d' % i, mode=r.below(2), generic=True))
    # client API stream: JunctionRef::removeJunctionAndMergeConnectors on a junction with two connectors (chains of 2..4 junctions), every
    # orientation of its two connectors x both neighbour kinds x every improvement option first, then random ones
    i = 0
    for kind in ('JJ', 'TJ'):
        for orient in range(4):
            for opt in range(3):
                scenes.append(gen_chain_scene(rng.fork(), 'rmjd%d' % i, kind=kind, orient=orient, opt=opt))
                i += 1
    for i in range(n // 3):
        scenes.append(gen_chain_scene(rng.fork(), 'rmj%d' % i))
    # full rerouting of multi-junction hyperedges with a pass-through junction (registration at any junction of the chain)
    for i in range(n // 4):
        scenes.append(gen_chain_reroute_scene(rng.fork(), 'crr%d' % i))
    all_bad, stats, fam, samples, crashed = evaluate(scenes)
    report(res, all_bad)
    unknown = [b for b in all_bad if b[1] is None or not res.known_fingerprint(b[1])]
    # model self-test through the extracted ops (evidence sample; the theorems are the proof)
    res.cov.update({
        'evaluations': stats['transactions'] + stats['route_ends'] + stats['list_checks'],
        'distinct_nontrivial': stats['transactions'],
        'rule': 'evaluations = transactions whose connector graph went through the extracted is_tree_with_leaves + route ends compared + '
                'new/deleted list comparisons; non-trivial = transactions with a routed hyperedge (>= 3 terminals)',
        'exhaustive': False, 'scenes': len(scenes), 'corpus_scenes': ncorpus, 'families': fam, 'counts': stats, 'samples': samples,
        'traces_validated_against_impl': stats['transactions'],
        'known_classified': {fp: len([b for b in all_bad if b[1] == fp]) for fp in (FP_FJ, FP_TLIST, FP_JIN, FP_DISP + ':unattached_end')},
        'hook_H2': 'present' if h2 else 'hook H2 missing: op-log correspondence skipped',
        'op_log_correspondence': ({
            'sections_replayed': stats['h2_sections'], 'improvement_sections': stats['h2_improve'], 'rerouting_sections': stats['h2_reroute'],
            'model_commands': stats['h2_commands'], 'operations_replayed': stats['h2_ops'],
            'operations_by_kind': {'CONTRACT': stats.get('h2_op_C', 0), 'SUBDIVIDE': stats.get('h2_op_S', 0), 'FOLD': stats.get('h2_op_F', 0),
                                   'FOLD+DROPLEAF': stats.get('h2_op_FD', 0), 'MTST bridge edge': stats.get('h2_op_B', 0)},
            'sections_in_full_agreement': stats['h2_sections_agree'], 'sections_with_a_finding': stats['h2_problem_sections'],
            'sections_not_replayed': stats['h2_skipped'],
        } if h2 else 'hook H2 missing: op-log correspondence skipped'),
    })
    if h2:
        res.cov['traces_validated_against_impl'] = stats['transactions'] + stats['h2_sections']
        res.cov['evaluations'] += stats['h2_commands']
    if not unknown and not info['ok']:
        res.violation({'what': 'a proof obligation of C12 no longer checks; the verified-checker search over %d scenes found no failing input' % len(scenes),
                       'broken_files': info.get('broken'), 'broken_lemmas': info.get('broken_lemmas'),
                       'forbidden': info.get('forbidden'), 'coq_log_tail': info['log'][-3000:]}, no_input=True)
    return res.finish()


def replay(path):
    j = json.load(open(path))
    sc = scene_from_json(j['scene'])
    all_bad, stats, fam, samples, crashed = evaluate([sc])
    for obj, fp in all_bad:
        print(json.dumps({k: v for k, v in obj.items() if k not in ('scene',)}, default=str)[:1500], 'fingerprint=%s' % fp)
    print('scene %s: %d finding(s)' % (sc.sid, len(all_bad)))
    return 1 if all_bad else 0


def warm():
    harness_exe('exc')
    C.ocaml_build('c12', 'C12.v', 'c12_driver.ml', 'c12_model.ml')


META = {
    'property_id': PID,
    'level_claimed': {
        'category': 'proof',
        'text': 'Coq theorems at two levels. Connector level (Graph/UnionFind.v, Graph/Trees.v, Avoid/HyperTree.v): tree_checker_sound_complete '
                '(is_tree_with_leaves g T = true iff g connected, acyclic (every edge a bridge) and its degree-1 nodes are exactly T), '
                'contract/merge/split_preserves, kruskal_spanning, C12_ops, kruskal_leaves_refuted. Segment level (Avoid/HyperSegModel.v, HyperSeg.v): '
                'the operations libavoid performs on its HyperedgeTree - contract_any (removeZeroLengthEdges in all its cases: bend-bend, junction-bend, '
                'junction-junction, connector end with the bend next to it), subdivide (splitFromNodeAtPoint), fold / fold_drop '
                '(moveJunctionAlongCommonEdge: merging of common-edge neighbours, deletion of the emptied junction node), bridge (MTST '
                'commitToBridgingEdge), smooth (the connector-level reading used by addConns / updateConnEnds / writeEdgesToConns): each keeps "tree '
                'whose degree-1 nodes are the terminal leaves" under an explicit degree guard (C12_seg_*_preserves, C12_seg_ops for any sequence, '
                'C12_smooth_preserves, C12_mtst_ops_forest), keeps a tree even without the guard (C12_seg_op_tree), and without the guard loses a '
                'leaf (C12_contract_leaf_into_branch_drops, C12_fold_leaf_drops, C12_contract_terminal_into_junction_refuted with a witness from a real '
                'op log: the mechanism of finding F-j). Tie C (hook H2, add-only guarded op log): every run replays every logged operation of every '
                'improvement and rerouting section on the extracted model and requires (i) the operation is defined and its guard holds, (ii) the '
                'touched node has the logged neighbours after every operation and the model\'s final tree equals the dumped AFTER tree, (iii) the '
                'verified checker accepts the BEFORE and AFTER trees with the (renamed) terminal leaves, the terminals at the leaves are unchanged, '
                'and smooth(AFTER) is the connector/junction graph the router holds after write-back; MTST: every laid edge joins two components, '
                'the terminal-set count and roots agree with the tree built so far. Tie V: the extracted checker on the real connector/junction graph '
                'after every transaction, route-end and new/deleted-list oracles. Client API (JunctionRef::removeJunctionAndMergeConnectors): '
                'remove_junction (the two connectors of a degree-2 junction become one connector between its neighbours) keeps the invariant and '
                'every other degree (C12_remove_junction_preserves), also inside arbitrary histories of abstract operations (C12_client_ops); leaving '
                'the surviving connector on the deleted junction splits the hyperedge (C12_remove_junction_wrong_end_refuted).',
        'design_ref': 'DESIGN.md 5.12'},
    'level_note': 'proof of the operation set the code performs, tied by an op-log correspondence (hook H2, tools/hooks/H2.patch; when the tree under test '
                  'lacks the hook the run degrades to the V part and the evidence says "hook H2 missing: op-log correspondence skipped"). Not carried '
                  'through the model: connector labels of tree edges (checked on the dumped trees: the edges of one connector form a path between '
                  'junction nodes / connector ends) and geometry (zero-length / common-edge preconditions are compared on the logged points); the '
                  'segment shifting between structural edits moves points only and is not modelled. The client API JunctionRef::removeJunctionAndMergeConnectors '
                  '(scene op RMJ: chains of 2-4 junctions, a junction with exactly two connectors is taken out - both neighbours junctions, or a terminal and a '
                  'junction; all four orientations of its two connectors, connectors created in random order; alone or with a shape move, followed by further '
                  'moves / recommended positions / removal of another junction) is modelled by remove_junction (C12_remove_junction_preserves, C12_client_ops for '
                  'histories mixing it with the abstract improver / rerouter operations, C12_remove_junction_wrong_end_refuted = the defect of leaving the '
                  'surviving connector on the deleted junction) and tied by the V part only (it is not logged by hook H2: the oracle is the verified tree / '
                  'attachment checker over the unchanged terminal set with the removed junction gone, plus the list oracle with the client\'s own deletions '
                  'taken out of the known sets). Trusted: Coq kernel, extraction, OCaml/C++ drivers, the hook\'s print '
                  'statements, checks/c12lib.py (log parsing, node naming). Oracle calibration of the V part: live = not queued for removal; junction '
                  'ends at position() or recommendedPosition(); shape ends inside or on the shape; route orientation not required. Classified streams '
                  '(known findings re-found every run; since round 3 also `apply recommended positions` histories: moveJunction(j, recommendedPosition()) for every '
                  'live junction, no-op moves included, alone or with shape moves): terminal_on_tree_path (F-j; with the hook the log shows its two mechanisms - removeZeroLengthEdges '
                  'contracts a junction with a connector end, and with registration by terminal list the MTST passes through a terminal vertex whose '
                  'node addConns then attaches as a terminal, not as a junction), terminal_list_unattached.',
    'technique': 'Coq proof over an abstract graph model of the real operation set + hook-based op-log correspondence (replay on the extracted model) + '
                 'verified tree checker extracted and run on the real hyperedge graph',
}
