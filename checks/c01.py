"""C01 - VPSC: every constraint is satisfied on return or is reported unsatisfiable (DESIGN 5.1).
proof: Coq theorems about the verified oracles (sat_or_flagged, Bellman-Ford positive-cycle detector with both
directions) and about the executable IncSolver model (Vpsc/VpscInv.v);
tie: C (the hand-written model, extracted, is run against the compiled libvpsc AND the libavoid copy on the same op
histories: flags and block partition exactly, positions to 1e-9*scale) + V (the verified oracles decide every real
output: unflagged => holds within 1e-6; inequality-only: flagged <=> verified positive cycle).
Static Solver: all multigraphs (DAGs, cycles of total gap -1/0/+1, random digraphs, the exhaustive 2- and 3-variable
families); its report is the UnsatisfiedConstraint thrown by the closing scan: a normal return must satisfy every
constraint (sat_or_flagged with no flags), a throw is legitimate iff the verified detector finds a positive cycle; a throw
on a feasible cyclic system is the known finding static_solver_throws_on_feasible_cycle (classifier in vlib/c01lib.py).
Histories may also change Variable::weight between solves (op W; model: Vpsc/VpscModelW.v, proofs: Vpsc/VpscWeight.v)
and re-use Variable / Constraint OBJECTS across successive IncSolvers (ops R, P: destroy the solver, build a new one on
a subset of the constraint objects, addConstraint the remaining objects; the model has no object identity and starts
a fresh state - every segment is a history from `init`, which the theorems cover).
Sets mp-resolve-*: mean-preserving re-solves (mostly satisfy() passes; vlib/c01lib.gen_mp_histories, DESIGN 9.19)."""
import os, json
from fractions import Fraction as Fr
from vlib import common as C
from vlib import c01lib as L

PID = 'C01'


def run(tier):
    res = C.Result(PID, tier, 'proof')
    info = C.prove(res, PID)
    res.assumptions = [
        'exact-rational model of binary64 (inputs are small dyadics; ties that exact and binary64 arithmetic may break differently are detected by the model and compared on positions / oracle only)',
        'termination of the split/merge loops is not proved: statements are "on return"; the model uses fuel and an OutOfFuel result, which would show up as a correspondence difference']
    L.tools()
    rng = C.SplitMix64(res.seed ^ 0xC01)
    quick = tier == 'quick'
    sets = []   # (label, impl, instances, enum)
    import copy
    for cname in ('c01_regressions.txt', 'c01_final_scan_rounding.txt', 'c01_static_cycle.txt', 'c01_weight_histories.txt', 'c01_object_reuse.txt'):
        corpus = L.load_corpus(cname)
        if corpus:
            sets.append(('corpus:' + cname, 'vpsc', corpus, False))
            if any(i['kind'] == 'I' for i in corpus):
                sets.append(('corpus-avoid:' + cname, 'avoid', [i for i in copy.deepcopy(corpus) if i['kind'] == 'I'], False))
    nid = [0]

    def gen(n, nmax, kind='I', hist=True, weights=False):
        out = []
        for _ in range(n):
            nid[0] += 1
            out.append(L.gen_instance(rng, nid[0], nmax, kind, hist, weights))
        return out
    sets.append(('inc-vpsc', 'vpsc', gen(1500 if quick else 8000, 12), False))
    sets.append(('inc-avoid', 'avoid', gen(700 if quick else 4000, 12), False))
    sets.append(('static-vpsc', 'vpsc', gen(300 if quick else 1500, 12, 'S'), False))
    # the static Solver on arbitrary multigraphs: cycles of total gap -1/0/+1 (infeasible ones must be REPORTED: the
    # closing scan throws UnsatisfiedConstraint), random digraphs
    sets.append(('static-cyclic', 'vpsc', gen(400 if quick else 3000, 8, 'SC'), False))
    # histories that also change Variable::weight between solves (pin / unpin idiom)
    sets.append(('inc-vpsc-weights', 'vpsc', gen(250 if quick else 2500, 10, 'I', True, True), False))
    sets.append(('inc-avoid-weights', 'avoid', gen(120 if quick else 1200, 10, 'I', True, True), False))
    # Variable / Constraint OBJECTS re-used across successive IncSolvers (destroy, rebuild on a subset, addConstraint the
    # remaining - possibly previously active - objects); the model starts a fresh state at each rebuild
    def gen_reuse(n, nmax):
        out = []
        for _ in range(n):
            nid[0] += 1
            out.append(L.gen_reuse_instance(rng, nid[0], nmax))
        return out
    sets.append(('reuse-vpsc', 'vpsc', gen_reuse(300 if quick else 3000, 8), False))
    sets.append(('reuse-avoid', 'avoid', gen_reuse(150 if quick else 1500, 8), False))
    # directed family `mean-preserving re-solve` (DESIGN 9.19; mostly satisfy() passes here, C02 runs it with solve()): after a pass the desired
    # positions of blocks of the RETURNED partition move by weighted-zero-sum dyadic perturbations (Block::posn keeps its value bit for bit)
    rng_mp = C.SplitMix64(res.seed ^ 0xC01919)       # its own stream: the other sets see the instances they saw before
    for lab, impl_, cnt in (('mp-resolve-vpsc', 'vpsc', 200 if quick else 2000), ('mp-resolve-avoid', 'avoid', 100 if quick else 1000)):
        mpi, _ = L.gen_mp_histories(rng_mp, cnt, 7, impl_, nid[0] + 1, solve_num=1)
        nid[0] += cnt
        sets.append((lab, impl_, mpi, False))
    sets.append(('inc-vpsc-large', 'vpsc', gen(40 if quick else 600, 40), False))

    def gen_gp(n, nmax):
        out = []
        for _ in range(n):
            nid[0] += 1
            out.append(L.gen_gp_instance(rng, nid[0], nmax, rng.choice([1, 1000, 1000000, 1000000])))
        return out
    sets.append(('gp-histories', 'vpsc', gen_gp(250 if quick else 2500, 12), False))
    sets.append(('gp-histories-avoid', 'avoid', gen_gp(100 if quick else 1000, 12), False))
    if not quick:
        sets.append(('inc-avoid-large', 'avoid', gen(300, 40), False))
        sets.append(('inc-vpsc-vrun', 'vpsc', gen(12, 300, 'I', False), False))
    exh = L.gen_exhaustive(tier)
    if quick:
        # every 7th member of the n=2 family, rotating with the seed; the whole family in the thorough tier
        off = res.seed % 7
        exh = [e for i, e in enumerate(exh) if e['tag'] == 'exh2' and i % 7 == off]
    sets.append(('exhaustive-small', 'vpsc', exh, False))
    exs = L.gen_exhaustive_static(tier)
    if quick:
        off = res.seed % 5
        exs = [e for i, e in enumerate(exs) if i % 5 == off]
    sets.append(('static-exhaustive-small', 'vpsc', exs, False))

    evals = 0
    nontrivial = set()
    corr = {'ok': 0, 'tie': 0, 'diff': 0}
    corr_static = {'ok': 0, 'ok_with_tie_flag': 0, 'tie': 0, 'diff': 0, 'both_report_same_constraint': 0}
    oracle_viol = []
    diffs = []
    hist = {}
    samples = []
    det_stats = {'P': 0, 'C': 0, 'U': 0}
    flagged_runs = 0
    errors = []
    times = {}
    static_out = {'returned_all_satisfied': 0, 'reported_infeasible_system': 0, 'reported_feasible_system(known finding)': 0, 'other': 0}
    inv_states = [0, 0]   # model states on which the proved invariants were evaluated, ops with a failing state
    sinv = {'dag_instances': 0, 'dag_states': 0, 'dag_failing': 0, 'dag_all_slack_nonneg_after_merge_pass': 0,
            'cyclic_instances': 0, 'cyclic_states': 0, 'cyclic_heap_or_act_inv_failing': 0}
    for label, impl, insts, enum in sets:
        real, drv, errs, dts = L.run_batch(insts, impl, tag='c01' + label, enum=enum)
        byid0 = {i['id']: i for i in insts}
        for e in errs:
            if e['kind'] == 'harness' and e.get('last_instance') in byid0:
                bad = byid0[e['last_instance']]
                oracle_viol.append({'impl': impl, 'set': label, 'instance': L.ins_json(bad), 'op_index': None, 'replay_input': L.replay_text(bad),
                                    'what': 'the solver crashed or did not return within the time limit on this instance (harness exit %s)' % e['rc'],
                                    'stderr_tail': e['stderr'][-600:]})
            else:
                errors.append(str(e))
        times[label] = [round(x, 2) for x in dts]
        for t, c in L.histogram(insts).items():
            hist[label + ':' + t] = c
        for ins in insts:
            rs = real.get(ins['id'], [])
            d = drv.get(ins['id'])
            evals += len(rs)
            sf = [k for k, o in enumerate(ins['ops']) if o[0] in 'SF']
            if ins['kind'] == 'S':
                sf = sf[:1]
            if len(rs) < len(sf) and not any(r['status'] != 'ok' for r in rs):
                errors.append('%s instance %d: harness produced %d of %d results' % (label, ins['id'], len(rs), len(sf)))
            for r in rs:
                if '1' in r['A'] or '1' in r['U']:
                    nontrivial.add((label, ins['id']))
                if '1' in r['U']:
                    flagged_runs += 1
                if d and r['op'] in d['d']:
                    det_stats[d['d'][r['op']]] = det_stats.get(d['d'][r['op']], 0) + 1
            for iv in ((d or {}).get('i') or {}).values():
                inv_states[0] += iv['states']
                inv_states[1] += 0 if iv['ok'] else 1
            v = L.eval_c01(ins, rs, d, impl)
            known_here = False
            if ins['kind'] == 'S' and rs:
                if not v:
                    static_out['returned_all_satisfied' if rs[0]['status'] == 'ok' else 'reported_infeasible_system'] += 1
                elif v[0].get('fingerprint') == 'static_solver_throws_on_feasible_cycle':
                    static_out['reported_feasible_system(known finding)'] += 1
                else:
                    static_out['other'] += 1
            for x in v:
                x['set'] = label
                if x.get('status') == 'throw_char' and d:
                    r = [r for r in rs if r['op'] == x['op_index']][0]
                    mstat = (d['m'].get(r['op']) or {}).get('status')
                    if L.classify_final_scan_rounding(ins, r, mstat):
                        x['fingerprint'] = 'final_scan_rounding'
                        x['positions_at_throw'] = r['xf']
                        x['active_flags'] = r['A']
                        known_here = True
            oracle_viol += v
            if ins['kind'] == 'I' and not known_here:
                s, det = L.eval_corr(ins, rs, d, impl)
                corr[s] += 1
                if s == 'diff':
                    diffs.append({'set': label, 'impl': impl, 'instance': L.ins_json(ins), 'replay_input': L.replay_text(ins), 'detail': det})
            for jv in ((d or {}).get('j') or {}).values():
                if jv['dag']:
                    sinv['dag_instances'] += 1
                    sinv['dag_states'] += jv['states']
                    sinv['dag_failing'] += 1 if (jv['mask'] or not jv['allsat'] or not jv['same']) else 0
                    sinv['dag_all_slack_nonneg_after_merge_pass'] += 1 if jv['allsat'] else 0
                else:
                    sinv['cyclic_instances'] += 1
                    sinv['cyclic_states'] += jv['states']
                    sinv['cyclic_heap_or_act_inv_failing'] += 1 if ((jv['mask'] & 3) or not jv['same']) else 0
            if ins['kind'] == 'S' and impl == 'vpsc' and rs:
                # the static Solver against the extracted Vpsc/StaticModel.v (exact pairing heaps, time stamps, total order)
                s, det = L.eval_corr_static(ins, rs, d)
                mt = ((d or {}).get('t') or {}).get(rs[0]['op']) or {}
                if s == 'ok' and mt.get('tie'):
                    corr_static['ok_with_tie_flag'] += 1
                else:
                    corr_static[s] += 1
                if s == 'ok' and mt.get('status') == 'throw_unsat':
                    corr_static['both_report_same_constraint'] += 1
                if s == 'diff':
                    diffs.append({'set': label, 'impl': impl, 'instance': L.ins_json(ins), 'replay_input': L.replay_text(ins), 'detail': det,
                                  'model': 'Vpsc/StaticModel.v'})
            if len(samples) < 4 and rs and len(ins['vs']) <= 5 and ('1' in rs[-1]['U'] or len(ins['ops']) > 2):
                samples.append({'instance': L.ins_json(ins), 'impl': impl,
                                'results': [{'op': r['op'], 'status': r['status'], 'x': r['xf'], 'active': r['A'], 'unsat': r['U']} for r in rs]})
    # ---- decide
    reported = 0
    known_hits = 0
    for v in oracle_viol:
        fp = v.get('fingerprint')
        if fp and res.known_fingerprint(fp):
            known_hits += 1
            res.violation(v, fingerprint=fp)
            continue
        if reported >= 3:
            continue
        # minimise before reporting
        try:
            ins0 = L.parse_cpp_instances(v['replay_input'])[0]
            small = L.shrink(ins0, L.c01_fails(v['impl']), budget=150)
            v['minimised_replay_input'] = L.replay_text(small)
        except Exception as e:     # shrinking is best effort
            v['minimise_error'] = str(e)
        res.violation(v, fingerprint=fp)
        reported += 1
    if det_stats.get('U', 0):
        errors.append('detect returned Unknown %d times' % det_stats['U'])
    if reported == 0 and (not info['ok'] or diffs or errors):
        res.violation({'what': 'proof obligation or model/implementation correspondence no longer checks; the verified oracles found no '
                               'failing input on %d real results (random + exhaustive-small + corpus)' % evals,
                       'broken_files': info.get('broken'), 'broken_lemmas': info.get('broken_lemmas'), 'forbidden': info.get('forbidden'),
                       'correspondence_differences': diffs[:3], 'machinery_errors': errors[:5],
                       'coq_log_tail': info['log'][-2500:] if not info['ok'] else ''}, no_input=True)
    res.cov.update({'evaluations': evals, 'distinct_nontrivial': len(nontrivial),
                    'rule': 'one evaluation = one solve()/satisfy() return of the real solver checked by the verified oracles and (IncSolver) compared with '
                            'the extracted model; instances from SplitMix64(seed): DAGs, chains needing splits, cycles of total gap -1/0/+1, duplicates, '
                            '25% equalities, scaled variables, negative/zero gaps, op histories (addConstraint / desired position / Variable::weight / re-solve) up to 8 ops; '
                            'mean-preserving re-solves (sets mp-resolve-*: desired positions of a block of the returned partition moved with its weighted mean exactly preserved); constraint objects re-used across '
                            'successive solvers (sets reuse-*); '
                            'static Solver on DAGs and on cyclic multigraphs (a throw of UnsatisfiedConstraint = reported; legitimate iff verified positive cycle); '
                            'non-trivial = distinct instances in which some constraint ended active or flagged unsatisfiable',
                    'exhaustive': False,
                    'exhaustive_note': 'set exhaustive-small: ' + ('1/7 of the n=2 family (rotating with the seed)' if quick else
                                       'all n=2 instances with desired in {-1,0,1,2}^2 and every constraint sequence of length<=3 over 2 ordered pairs x 4 gaps; '
                                       'n=3: 4 desired patterns x every sequence of length<=3 over 6 ordered pairs x 4 gaps'),
                    'samples': samples, 'traces_validated_against_impl': sum(corr.values()) + sum(corr_static[k] for k in ('ok', 'ok_with_tie_flag', 'tie', 'diff')),
                    'correspondence': corr,
                    'correspondence_static_solver': dict(corr_static, what='extracted Vpsc/StaticModel.v (shape-exact pairing heaps ordered by CompareConstraints, block / '
                                                        'constraint time stamps, DFS total order, mergeLeft / mergeRight / split / refine with maxtries) vs vpsc::Solver on every '
                                                        'static instance: normal return vs thrown UnsatisfiedConstraint incl. the index of the reported constraint, block partition and '
                                                        'active flags exactly, positions to 1e-9*scale; ok_with_tie_flag = agreed although the model compared keys closer than 1e-7; '
                                                        'tie = differed under that flag (not a difference)'),
                    'input_histogram': hist,
                    'known_finding_hits': known_hits,
                    'model_invariants': {'states_evaluated': inv_states[0], 'ops_with_a_failing_state': inv_states[1],
                                         'what': 'VpscInvB.all_invb (book, act_inv, forest, trichotomy, block statistics A2>0 / sums; the statements proved in '
                                                 'VpscForest.v, VpscTrichotomy.v, VpscStats.v) evaluated by the extracted model on every state it visits: after '
                                                 'moveBlocks, after each block of splitBlocks, after each iteration of the satisfy loop, after each op; a failure is '
                                                 'reported as a correspondence difference'},
                    'model_invariants_static_solver': dict(sinv, what='Vpsc/StaticInvB.v evaluated by the extracted static model on every state of the merge pass of '
                                                           'Solver::satisfy (after every iteration of mergeLeft and after every variable of the total order): heap_ok and act_inv '
                                                           '(proved, all multigraphs); on DAGs also the content of static_no_throw_on_dag (now PROVED for the model, Vpsc/StaticDag.v; still evaluated): every constraint between processed '
                                                           'variables has slack >= 0 EXACTLY, processed variables never move right, the heap root is a most violated in-constraint, every '
                                                           'violated in-constraint is in the heap, and every slack >= 0 after the pass; a failure is reported as a correspondence difference'),
                    'oracle': {'violations': len(oracle_viol) - known_hits, 'runs_with_flagged_constraints': flagged_runs, 'detector_answers': det_stats},
                    'static_solver_outcomes': static_out,
                    'set_times_s(harness,driver)': times, 'machinery_errors': errors[:5]})
    return res.finish()


def replay(path):
    j = json.load(open(path))
    print(json.dumps({k: v for k, v in j.items() if k != 'replay_input'}, indent=1)[:4000])
    if 'replay_input' in j:
        L.tools()
        ins = L.parse_cpp_instances(j['replay_input'])
        impl = j.get('impl', 'vpsc')
        real, drv, errs, _ = L.run_batch(ins, impl, tag='replay', enum=True)
        for i in ins:
            print('real:', [(r['op'], r['status'], r['xf'], r['A'], r['U']) for r in real.get(i['id'], [])])
            print('oracle verdicts:', {k: v for k, v in (drv.get(i['id']) or {}).items() if k in 'sdkg'})
            v = L.eval_c01(i, real.get(i['id'], []), drv.get(i['id']), impl)
            print('C01 oracle:', 'VIOLATED: ' + v[0]['what'] if v else 'holds')
            if v:
                return 1
    return 0


def warm():
    L.tools()


META = {
    'property_id': PID,
    'level_claimed': {
        'category': 'proof',
        'text': 'Coq theorems, all unbounded in n and m: (1) the checker sat_or_flagged is sound (accepted => every constraint not flagged holds '
                'within the tolerance, equalities tight); (2) the Bellman-Ford style detector decides feasibility with a proof in both directions '
                '(PosCycle => no placement satisfies the constraints; Potentials => the returned potentials, divided by the scales, satisfy all of them); '
                '(3) the executable IncSolver model (Properties/C01.v): the invariant inv = book + act_inv (active => same block, tight) + forest (the active '
                'constraints of a block form a spanning tree of it) + trichotomy (every constraint exactly one of active / flagged / in the work-list) holds '
                'for a fresh solver and is preserved by every op of every history (merge, Block::split incl. populateSplitBlock from both ends, findMinLMBetween '
                'returns a separating constraint, splitBlocks, satisfy, solve, addConstraint, desired-position changes); consequences proved for all histories: '
                'C01_sat_on_return_history (every returned state: unflagged constraints >= -1e-10, active constraints and unflagged equalities exactly 0), '
                'the same for histories that also change Variable::weight between solves (C01_set_weight_preserves, C01_weight_history_inv, '
                'C01_no_final_throw_weight_history, C01_sat_on_return_weight_history; op SetWeight is a wrapper step_w around step, Vpsc/VpscModelW.v), '
                'C01_no_final_throw / C01_step_never_throws (satisfy/solve never return the final-scan throw; OutOfFuel excluded), C01_no_division_by_zero '
                '(A2 > 0 and A2 = sum over the block in every reachable state); the boolean versions of these invariants are evaluated by the extracted model on '
                'every state it visits on every run (evidence key model_invariants). (5) C01_flag_sound (Vpsc/VpscFlag.v): in every state of every '
                'inequality-only history a flagged constraint implies infeasibility - Block::isActiveDirectedPathBetween is sound and complete for directed paths of '
                'active constraints, the violated constraint closes a walk of positive total gap accepted by the verified closed_walk_ok, and the other flagging '
                'site (no split constraint / UnsatisfiableException) is unreachable without equalities; C01_flagged_iff_infeasible_on_return. '
                'The tie to /repo is the extracted model run against libvpsc and the libavoid copy on every run, plus the verified oracles deciding '
                'every real solve()/satisfy() return (unflagged => satisfied to 1e-6, finite, inequality-only: flagged <=> positive cycle).',
        'design_ref': 'DESIGN.md 5.1, Appendix A'},
    'level_note': 'Trusted: Coq kernel; extraction (ExtrOcamlBasic) + OCaml driver; C++ harness; exact-rational model of binary64 (ties detected and '
                  'counted). Not proved: termination of satisfy()/solve(); that the real code refines the model (checked by correspondence on every run, '
                  'not proved). C01_flag_sound (flagged => infeasible, inequality-only systems, every history) is proved for the model in Vpsc/VpscFlag.v: the '
                  'directed-path site closes an explicit positive closed walk, the no-split-constraint site is unreachable without equalities '
                  '(C01_flag_sound, C01_flagged_iff_infeasible_on_return); the verified positive-cycle detector still decides every real run. '
                  'Static Solver: verified oracles (domain = all multigraphs, report = thrown UnsatisfiedConstraint, legitimate iff the verified '
                  'detector finds a positive cycle; a throw on a feasible cyclic system is the known finding static_solver_throws_on_feasible_cycle) AND the '
                  'executable model Vpsc/StaticModel.v (shape-exact pairing heaps under CompareConstraints, block / constraint time stamps, DFS total order, '
                  'mergeLeft / mergeRight / split / refine) compared exactly with vpsc::Solver on every static instance (evidence correspondence_static_solver); '
                  'proved for it: C01_static_satisfy_sat (return => book, act_inv, slack >= -1e-10, active constraints exactly tight; all multigraphs), '
                  'C01_static_solve_sat_declarative; C01_static_no_throw_on_dag (Vpsc/StaticGeom.v, StaticHeapOrd.v, StaticDag.v): if the DFS order of '
                  'Blocks::totalOrder lists every variable once and every constraint goes forward in it (boolean dag_orderb = StaticInvB.is_dag + no repetition, '
                  'decided from total_order alone) then Solver::satisfy RETURNS - no UnsatisfiedConstraint, the fuel and the null-heap cases it stands for '
                  'suffice - and every constraint has slack >= 0 exactly (heap order under lazily stale keys, leftward monotonicity, most-violated-first '
                  'invariant; the boolean forms are still evaluated on every visited state of every DAG instance, evidence model_invariants_static_solver). '
                  'The DFS hypothesis is discharged for ranked graphs (Vpsc/StaticDfs.v, C01_static_total_order_topo / C01_static_no_throw_on_ranked_dag: every '
                  'constraint goes from a lower to a higher rank, ranks <= number of variables - which every finite DAG admits and removeoverlaps\' sets come with). '
                  'Solver::refine (Vpsc/StaticRefine.v, still PARTIAL): proved - the closing scan cannot throw from an all-satisfied state and exhausting maxtries is a normal '
                  'return, so solve() on a DAG returns with every slack >= 0 exactly GIVEN that every refine pass on the trace does (C01_static_solve_no_throw_on_dag_partial, '
                  'hypothesis passes_ok); the geometry of mergeRight (invariant I2: in-constraints hold and slack(in)+slack(out) >= 0 for every pair; kept by a merge across a most '
                  'violated out-constraint, C01_static_merge_right_step_geometry) and mergeRight as a whole GIVEN that findMinOutConstraint delivers a most violated '
                  'out-constraint (C01_static_merge_right_all_sat_partial, hypothesis mr_roots_ok) - that hypothesis is now DISCHARGED (Vpsc/StaticOutHeap.v: every element of the '
                  'out-heaps mergeRight works with is stamped with the current counter, its key is -DBL_MAX exactly when it is internal, the other keys of one heap shift '
                  'uniformly in a merge): C01_static_merge_right_all_sat has only the loop invariant I2 and time-stamp / vector-length well-formedness as premises. '
                  'The mergeLeft half of Blocks::split (Vpsc/StaticGeom2.v, StaticSplitML.v): Block::merge for a block whose statistics are valid but whose posn is not the '
                  'optimum (C01_static_merge_nonoptimal_shift), and a two-mode loop invariant (mode A while r is not part of the current block: every variable of the block is left '
                  'of its position at split entry by at least the violation of every in-constraint - every constraint holds at exit; mode B after r was merged: pair invariant J - '
                  'I2 at exit) kept by every iteration (C01_static_split_merge_left_step/_entry/_exit_*), mergeLeft as a whole GIVEN most violated roots '
                  '(C01_static_split_merge_left_partial, hypothesis ml_roots_ok) - that hypothesis is now DISCHARGED (Vpsc/StaticInHeap.v: after refine\'s first loop every '
                  'constraint stamp equals the counter and only the current block is stamped later, so a key is stale by time stamp only if its left end is in the current block '
                  '(invariant HW, bit 65536 of StaticRefB); the order "among CURRENT keys, heap-ordered" (Rcur) is compatible with CompareConstraints, only weakens when a key goes '
                  'stale and survives the uniform shift of one Block::merge): C01_static_split_merge_left has the two-mode invariant and the heap / time-stamp well-formedness HW '
                  'as premises; HW is established by refine\'s first loop (C01_static_refine_setup_heaps) and survives Block::split (C01_static_split_entry_heap_invariant, '
                  'relation between the two states stated abstractly). Block::split: both halves come out at their weighted optimum with correct statistics '
                  '(C01_static_split_halves_at_optimum), the forest facts in consumable form (C01_static_split_block_facts), and the SIGN lemma (C01_static_split_sign: the side of '
                  'left(c) / right(c) has its optimum at -/+ lm(c)/(2U) from the old position, by summing the stationarity residuals over the side; corollaries '
                  'C01_static_split_left_half_moves_left = the premise dl >= 0 of _merge_left_entry, C01_static_split_right_half_optimum_right = rho >= 0 of the mergeRight entry). '
                  'The FIRST HALF of Blocks::split is assembled from these (C01_static_split_first_half, Vpsc/StaticSplitFirst.v: Block::split on a forest state whose block is '
                  'stationary with lm(c) <= 0, r put back, mergeLeft(l): the two-mode invariant holds at exit and the in-constraints of the final block are satisfied, premises = '
                  'the invariants of refine\'s second loop only). The SECOND HALF and one WHOLE Blocks::split are proved too (Vpsc/StaticSplitSecond.v: mergeLeft leaves every block outside '
                  'its final block untouched (C01_static_merge_left_frame), updateWeightedPosition + mergeRight in both modes (C01_static_split_second_half), and '
                  'C01_static_split_all_sat: Blocks::split from refine\'s invariants returns with every slack >= 0 and book / act_inv / all blocks at their optimum). Solver::refine\'s loop '
                  'never throws (C01_static_refine_loop_cannot_throw: a throw of refine is a throw of its closing scan), and one pass returns all-satisfied GIVEN that Blocks::split is called '
                  'in a state with those invariants (C01_static_refine_pass_all_sat_partial, hypothesis scan_ready visible). Not proved: deriving scan_ready from the loop invariant (stationarity '
                  'from findMinLM on a blk_ok instead of VpscStationary.fresh block, forest through mergeLeft / mergeRight, T2 and the vector lengths from one pass to the next) and totality - '
                  'so passes_ok stays a visible hypothesis. The candidate invariants are evaluated '
                  'as booleans on every split of every DAG solve() instance (Vpsc/StaticRefB.v, driver line r, checked in vlib/c01lib.eval_corr_static): I2 / J / root-min (both heaps) / mode A / '
                  'all-sat-after-split hold on every visited state; the naive ones (mergeLeft(l) leaves everything satisfied, nothing moves right in mergeLeft / left in '
                  'mergeRight) are false on reachable states and are only recorded. '
                  'Weight histories: the block-statistics invariant (all_ok) is not proved for them (stale sums in deleted blocks); its weight-independent part '
                  '(A2 > 0, posn = (AD-AB)/A2) is evaluated on every visited model state (all_invb_w).',
    'technique': 'Coq proof of verified oracles and model invariants + extracted-model correspondence against libvpsc and libavoid/vpsc.cpp',
}
