"""C16 - libavoid geometry predicates agree with exact arithmetic (DESIGN 5.16).
proof: theorems about Gen/Geometry.v (regenerated from geometry.{h,cpp} by cpp2v on every run) and Gen/LineSeg.v
(regenerated from libvpsc/linesegment.h: LineSegment::Intersect, used by vpsc::Rectangle::lineIntersections);
tie: translator (T) + translator validation: compiled C++ vs extracted Gen vs extracted spec deciders on
exhaustive integer grids."""
import os, json, math
from fractions import Fraction
from vlib import common as C

PID = 'C16'
SPEC_SECTIONS = ['vecDir', 'pointOnLine', 'segmentIntersect', 'inPoly3', 'inPoly4',
                 'segmentIntersectPoint_code', 'rayIntersectPoint_code', 'colinear', 'inBetween', 'inValidRegion', 'cornerSide', 'segmentShapeIntersect', 'inPolyGen3', 'inPolyGen4',
                 'LineSegment_Intersect', 'lineIntersections']
LS_NAMES = ['PARALLEL', 'COINCIDENT', 'NOT_INTERSECTING', 'INTERSECTING']


def ls_name(ch):
    """result char of the LineSegment_Intersect sections -> readable"""
    v = ord(ch) - 48
    return (LS_NAMES[v & 3] + (' (out-parameter written)' if v & 4 else '')) if 0 <= v < 8 else ch


def ri_flags(ch):
    v = ord(ch) - 65
    return {'intersects': v & 1, 'top': (v >> 1) & 1, 'bottom': (v >> 2) & 1, 'left': (v >> 3) & 1, 'right': (v >> 4) & 1}


def rect_grid(G):
    return 4 if G <= 4 else 5
# spec sections that are defined only on part of the grid ('?' elsewhere) -> the C++ section they are compared with
SPEC_MASKED_SECTIONS = {'inPolyGen3_region': 'inPolyGen3', 'inPolyGen4_region': 'inPolyGen4'}


def parse_sections(txt):
    secs, cur, name = {}, None, None
    for line in txt.split('\n'):
        if line.startswith('## '):
            name = line.split()[1]
            cur = []
            secs[name] = cur
        elif cur is not None and line:
            cur.append(line)
    out = {}
    for k, v in secs.items():
        if k.endswith('_xy') or k == 'manhattanDist':
            out[k] = v
        else:
            out[k] = ''.join(v)
    return out


def decode(section, idx, G, GP):
    """index in a section -> the concrete argument tuple"""
    n, m = G * G, GP * GP
    P = lambda i, g: [i // g, i % g]
    if section in ('vecDir', 'pointOnLine', 'colinear', 'inBetween'):
        i, j, k = idx // (n * n), (idx // n) % n, idx % n
        return {'fn': section, 'a': P(i, G), 'b': P(j, G), 'c': P(k, G)}
    if section in ('segmentIntersect', 'cornerSide', 'segmentIntersectPoint_code', 'rayIntersectPoint_code',
                   'segmentShapeIntersect', 'inValidRegion'):
        flag = idx // (n ** 4)
        r = idx % (n ** 4)
        i, j, k, l = r // n ** 3, (r // n ** 2) % n, (r // n) % n, r % n
        return {'fn': section, 'flag': flag, 'a': P(i, G), 'b': P(j, G), 'c': P(k, G), 'd': P(l, G)}
    if section == 'LineSegment_Intersect':
        i, j, k, l = idx // n ** 3, (idx // n ** 2) % n, (idx // n) % n, idx % n
        return {'fn': 'linesegment::LineSegment::Intersect', 'this_segment': [P(i, G), P(j, G)],
                'other_line': [P(k, G), P(l, G)],
                'call': 'LineSegment(Vector(%d,%d),Vector(%d,%d)).Intersect(LineSegment(Vector(%d,%d),Vector(%d,%d)), iv)'
                        % tuple(P(i, G) + P(j, G) + P(k, G) + P(l, G))}
    if section == 'lineIntersections':
        GR = rect_grid(G)
        nl = (GR + 2) ** 2
        rects = [(x0, x1, y0, y1) for x0 in range(GR) for x1 in range(x0, GR) for y0 in range(GR) for y1 in range(y0, GR)]
        ridx, r = idx // (nl * nl), idx % (nl * nl)
        i, j = r // nl, r % nl
        LPt = lambda t: [t // (GR + 2) - 1, t % (GR + 2) - 1]
        x0, x1, y0, y1 = rects[ridx]
        return {'fn': 'vpsc::Rectangle::lineIntersections', 'rectangle': {'minX': x0, 'maxX': x1, 'minY': y0, 'maxY': y1},
                'line': [LPt(i), LPt(j)],
                'call': 'Rectangle r(%d,%d,%d,%d); r.set_width(%d); r.set_height(%d); r.lineIntersections(%d,%d,%d,%d, ri)'
                        % (x0, x0 + 1, y0, y0 + 1, x1 - x0, y1 - y0, LPt(i)[0], LPt(i)[1], LPt(j)[0], LPt(j)[1])}
    if section in ('inPoly3', 'inPolyGen3'):
        cb = idx // (m ** 4)
        r = idx % (m ** 4)
        a, b, c, q = r // m ** 3, (r // m ** 2) % m, (r // m) % m, r % m
        return {'fn': section, 'countBorder': cb, 'poly': [P(a, GP), P(b, GP), P(c, GP)], 'q': P(q, GP)}
    if section in ('inPoly4', 'inPolyGen4'):
        a, b, c, d, q = idx // m ** 4, (idx // m ** 3) % m, (idx // m ** 2) % m, (idx // m) % m, idx % m
        return {'fn': section, 'countBorder': 1, 'poly': [P(a, GP), P(b, GP), P(c, GP), P(d, GP)], 'q': P(q, GP)}
    return {'fn': section, 'index': idx}


SPEC_NUMERIC_SECTIONS = ['segmentIntersectPoint_xy', 'manhattanDist', 'projection_xy', 'LineSegment_Intersect_xy',
                         'lineIntersections_xy']


def numeric_diff(s, a, b):
    """compare two numeric sections (lists of lines); returns None or a dict describing the first disagreement"""
    if len(a) != len(b):
        return {'fn': s, 'what': 'different number of results', 'cpp': len(a), 'other': len(b)}
    for la, lb in zip(a, b):
        fa, fb = la.split(), lb.split()
        if s.endswith('_xy') and fa[:-2] != fb[:-2]:
            return {'fn': s, 'cpp': la, 'other': lb}
        va = [float(x) for x in fa[-2:]] if s.endswith('_xy') else [float(fa[0])]
        vb = [float(x) for x in fb[-2:]] if s.endswith('_xy') else [float(fb[0])]
        if any(abs(x - y) > 1e-9 * max(1, abs(x)) for x, y in zip(va, vb)):
            return {'fn': s, 'cpp': la, 'other': lb}
    return None


def first_diff(a, b):
    if len(a) != len(b):
        return min(len(a), len(b))
    for i in range(len(a)):
        if a[i] != b[i]:
            return i
    return None


# ------------------------------------------------------------------ random stream (larger integer coordinates)
LIM = 1 << 20
RAND_POS = ['vecDir', 'pointOnLine', 'colinear', 'inBetween', 'segmentIntersect', 'segmentShapeIntersect(seen=0)',
            'segmentShapeIntersect(seen=1)', 'inValidRegion(ignore=0)', 'inValidRegion(ignore=1)', 'cornerSide',
            'segmentIntersectPoint code', 'rayIntersectPoint code',
            'inPoly(q=a,border=0)', 'inPoly(q=q,border=0)', 'inPoly(q=d,border=0)',
            'inPoly(q=a,border=1)', 'inPoly(q=q,border=1)', 'inPoly(q=d,border=1)',
            'inPolyGen(q=a)', 'inPolyGen(q=q)', 'inPolyGen(q=d)',
            'LineSegment(a,b).Intersect(LineSegment(c,d))', 'LineSegment(c,d).Intersect(LineSegment(a,b))']
RAND_NUM = ['segmentIntersectPoint x', 'segmentIntersectPoint y', 'rayIntersectPoint x', 'rayIntersectPoint y',
            'manhattanDist(a,b)', 'LineSegment(a,b).Intersect(LineSegment(c,d)) intersection.x_',
            'LineSegment(a,b).Intersect(LineSegment(c,d)) intersection.y_']


def _embed(rng, pts):
    """scale + translate a small configuration so that degeneracies are kept but magnitudes reach 2^20"""
    m = max(1, max(abs(v) for p in pts for v in p))
    kmax = max(1, (LIM // 2) // m)
    k = 1 if rng.chance(1, 4) else 1 + rng.below(kmax)
    room = LIM - k * m
    tx, ty = rng.range(-room, room), rng.range(-room, room)
    return [(k * x + tx, k * y + ty) for (x, y) in pts]


def gen_tuple(rng):
    """one structured tuple: (kind, a, b, c, d, q)"""
    R = lambda n: rng.range(-n, n)
    kind = rng.choice(['generic', 'small', 'collinear3', 'collinear4', 'shared_endpoint', 'touch_T', 'zero_length',
                       'axis_parallel', 'proper_cross', 'rect_query', 'convex_quad_query', 'near_miss',
                       'lattice_meet', 'dyadic_meet'])
    q = None
    if kind == 'generic':
        a, b, c, d = [(R(LIM), R(LIM)) for _ in range(4)]
    elif kind == 'small':
        a, b, c, d = [(R(2), R(2)) for _ in range(4)]
        if rng.chance(1, 2):
            a, b, c, d = _embed(rng, [a, b, c, d])
    elif kind in ('collinear3', 'collinear4'):
        dx, dy = rng.choice([(R(40), R(40)), (0, R(40)), (R(40), 0), (1, 1), (1, -1)])
        if dx == 0 and dy == 0:
            dx = 1
        ms = [R(12) for _ in range(4)]
        pts = [(m * dx, m * dy) for m in ms]
        if kind == 'collinear3':
            pts[3] = (R(500), R(500))
        a, b, c, d = _embed(rng, pts)
    elif kind == 'shared_endpoint':
        a, b, c, d = [(R(LIM), R(LIM)) for _ in range(4)]
        w = rng.below(5)
        if w == 0: c = a
        elif w == 1: c = b
        elif w == 2: d = a
        elif w == 3: d = b
        else: c, d = a, b
    elif kind == 'touch_T':
        dx, dy = rng.choice([(R(30), R(30)), (0, 1 + rng.below(30)), (1 + rng.below(30), 0)])
        if dx == 0 and dy == 0:
            dy = 1
        m1, m2 = -(1 + rng.below(9)), 1 + rng.below(9)
        seg = [(m1 * dx, m1 * dy), (m2 * dx, m2 * dy)]
        tip, other = (0, 0), (R(300), R(300))
        w = rng.below(4)
        pts = [seg[0], seg[1], tip, other] if w == 0 else [seg[0], seg[1], other, tip] if w == 1 else \
              [tip, other, seg[0], seg[1]] if w == 2 else [other, tip, seg[0], seg[1]]
        a, b, c, d = _embed(rng, pts)
    elif kind == 'zero_length':
        a, b, c, d = [(R(6), R(6)) for _ in range(4)]
        w = rng.below(4)
        if w == 0: b = a
        elif w == 1: d = c
        elif w == 2: b = a; d = c
        else: b = a; c = (a[0] - R(3), a[1]); d = (a[0] + R(3), a[1])
        a, b, c, d = _embed(rng, [a, b, c, d])
    elif kind == 'axis_parallel':
        x0, x1, y0, y1 = R(5), R(5), R(5), R(5)
        xs, ys0, ys1 = R(5), R(5), R(5)
        if rng.chance(1, 2):
            pts = [(x0, y0), (x1, y0), (xs, ys0), (xs, ys1)]      # horizontal vs vertical
        else:
            pts = [(x0, y0), (x1, y0), (xs, y0 if rng.chance(1, 2) else ys0), (R(5), y0 if rng.chance(1, 2) else ys0)]
        if rng.chance(1, 2):
            pts = [(y, x) for (x, y) in pts]
        a, b, c, d = _embed(rng, pts)
    elif kind == 'proper_cross':
        ux, uy, vx, vy = R(30), R(30), R(30), R(30)
        m = [1 + rng.below(8) for _ in range(4)]
        pts = [(-m[0] * ux, -m[0] * uy), (m[1] * ux, m[1] * uy), (-m[2] * vx, -m[2] * vy), (m[3] * vx, m[3] * vy)]
        a, b, c, d = _embed(rng, pts)
    elif kind == 'lattice_meet':
        # two segments through a common lattice point p, with odd (often prime) numbers of lattice steps:
        # the exact intersection point is an integer point, so the returned x, y must be exact
        P_ODD = [3, 5, 7, 11, 13, 17, 19, 23, 29, 31, 37, 41, 43, 47, 49, 53, 59, 61, 97, 101, 127, 211, 251, 509, 1021]
        def prim():
            while True:
                ux, uy = R(8), R(8)
                if (ux, uy) != (0, 0) and math.gcd(abs(ux), abs(uy)) == 1:
                    return ux, uy
        (ux, uy), (vx, vy) = prim(), prim()
        m = rng.choice(P_ODD); n = rng.choice(P_ODD)
        while m * max(abs(ux), abs(uy)) > 1024: m = rng.choice(P_ODD[:12])
        while n * max(abs(vx), abs(vy)) > 1024: n = rng.choice(P_ODD[:12])
        i, j = rng.range(0, m), rng.range(0, n)
        pts = [(-i * ux, -i * uy), ((m - i) * ux, (m - i) * uy), (-j * vx, -j * vy), ((n - j) * vx, (n - j) * vy)]
        room = LIM - 1100
        tx, ty = rng.range(-room, room), rng.range(-room, room)
        a, b, c, d = [(x + tx, y + ty) for (x, y) in pts]
    elif kind == 'dyadic_meet':
        # segment a of m steps of u = (1, uy) (m odd) and segment b with B = b1 - b2 such that uy*Bx - By = +-2^k:
        # the segments meet at b1 - (j / 2^k) B, a dyadic non-lattice point -> exactly representable in binary64
        uy = R(3); k = rng.range(1, 6); sg = rng.choice([1, -1])
        Bx = R(200); By = uy * Bx - sg * (1 << k)
        b1 = (R(50), R(50)); b2 = (b1[0] - Bx, b1[1] - By)
        j = rng.range(0, 1 << k)
        px_ = Fraction(b1[0]) - Fraction(j, 1 << k) * Bx
        py_ = Fraction(b1[1]) - Fraction(j, 1 << k) * By
        m = rng.choice([3, 5, 7, 9, 11, 13, 49, 97, 101, 255, 511, 1021])
        i = rng.range(0, m - 1)
        a1x = math.floor(px_) - i
        lam = px_ - a1x
        a1y = py_ - lam * uy
        assert a1y.denominator == 1
        pts = [(a1x, int(a1y)), (a1x + m, int(a1y) + m * uy), b1, b2]
        if rng.chance(1, 2):
            pts = [(y, x) for (x, y) in pts]
        if rng.chance(1, 2):
            pts = [pts[2], pts[3], pts[0], pts[1]]
        room = LIM - 2400
        tx, ty = rng.range(-room, room), rng.range(-room, room)
        a, b, c, d = [(x + tx, y + ty) for (x, y) in pts]
    elif kind == 'near_miss':
        # c is one unit off the segment ab / off its end
        dx, dy = R(30), R(30)
        m2 = 1 + rng.below(9)
        t = rng.range(-1, m2 + 1)
        off = rng.choice([(0, 1), (1, 0), (0, -1), (-1, 0), (0, 0)])
        pts = [(0, 0), (m2 * dx, m2 * dy), (t * dx + off[0], t * dy + off[1]), (R(300), R(300))]
        a, b, c, d = _embed(rng, pts)
    else:
        if kind == 'rect_query':
            x0 = R(6); x1 = x0 + 1 + rng.below(6); y0 = R(6); y1 = y0 + 1 + rng.below(6)
            poly = [(x1, y0), (x1, y1), (x0, y1), (x0, y0)]
        else:
            # convex counter-clockwise quadrilateral around the origin (one vertex per quadrant side)
            poly = [(1 + rng.below(6), -rng.below(6)), (rng.below(6), 1 + rng.below(6)),
                    (-1 - rng.below(6), rng.below(6)), (-rng.below(6), -1 - rng.below(6))]
        rot = rng.below(4)
        poly = poly[rot:] + poly[:rot]
        if rng.chance(1, 3):
            poly = poly[::-1]
        w = rng.below(4)
        if w == 0:
            qq = (R(8), R(8))
        elif w == 1:   # on an edge (or its extension)
            i = rng.below(4); p0, p1 = poly[i], poly[(i + 1) % 4]
            t = rng.range(-1, 2)
            qq = (p0[0] + t * (p1[0] - p0[0]), p0[1] + t * (p1[1] - p0[1]))
            if t == 2: qq = ((p0[0] + p1[0]) // 2, (p0[1] + p1[1]) // 2)
        elif w == 2:
            qq = poly[rng.below(4)]
        else:
            qq = ((poly[0][0] + poly[2][0]) // 2, (poly[0][1] + poly[2][1]) // 2)
        a, b, c, d, q = _embed(rng, poly + [qq])
    if q is None:
        q = ((a[0] + c[0]) // 2, (a[1] + c[1]) // 2)
    return kind, [a, b, c, d, q]


def random_stream(res, tier, cpp_exe, spec_exe, gen_exe):
    """C++ vs spec deciders vs generated code on a seeded structured stream of integer tuples up to 2^20"""
    count = 20000 if tier == 'quick' else 300000
    rng = C.SplitMix64(C.get_seed()).fork()
    kinds, rows = [], []
    for _ in range(count):
        k, pts = gen_tuple(rng)
        kinds.append(k)
        rows.append(pts)
    assert all(abs(v) <= LIM for pts in rows for p in pts for v in p)
    inp = ''.join(' '.join('%d %d' % p for p in pts) + '\n' for pts in rows)
    rc, cpp_out, err, dt_cpp = C.sh([cpp_exe, 'rand'], timeout=900, input=inp)
    if rc != 0:
        res.violation({'what': 'harness c16_geom rand failed', 'rc': rc, 'stderr': err[-2000:]}, no_input=True)
        return None, []
    cpp = cpp_out.split('\n')[:count]
    rc, spec_out, err, dt_spec = C.sh([spec_exe, 'rand'], timeout=1800, input=inp)
    spec = spec_out.split('\n')[:count]
    gen = None
    if gen_exe is not None:
        rc, gen_out, err, dt_gen = C.sh([gen_exe, 'rand'], timeout=1800, input=inp)
        gen = gen_out.split('\n')[:count]

    def case(i, what, field, impl, other, other_name):
        a, b, c, d, q = rows[i]
        return {'what': what, 'fn': field, 'kind': kinds[i], 'a': list(a), 'b': list(b), 'c': list(c), 'd': list(d),
                'q': list(q), 'implementation': impl, other_name: other,
                'replay': "echo '%s' | %s rand   (harness/c16_geom.cpp rand mode, output position/field '%s'; "
                          "line format: ax ay bx by cx cy dx dy qx qy)"
                          % (' '.join('%d %d' % p for p in rows[i]), cpp_exe, field)}

    def num_differs(x, y):
        if x == '-' or y == '-':
            return x != y
        fx, fy = float(x), float(y)
        return abs(fx - fy) > 1e-6 + 1e-9 * abs(fx)

    def parse_q(sq):
        nu, de = sq.split('/')
        return Fraction(int(nu, 2), int(de, 2))

    def exact_differs(i, j, x, y):
        """x: the double printed by the C++ (%.17g round-trips), y: the exact rational from the spec.
        The returned value must EQUAL the exact one whenever that is exactly representable and the algorithm's
        intermediate products are exact (|d*A| < 2^53); otherwise it must be within the rounding of the three operations
        (product, quotient, sum): 2^-51 * (|a1| + |exact|)."""
        if x == '-' or y == '-':
            return x != y
        fx, ex = Fraction(float(x)), parse_q(y)
        if j == 5:                               # manhattanDist of integer points: exact
            return fx != ex
        a, b, c, d, q = rows[i]
        if j in (6, 7):
            # LineSegment::Intersect: a1 + (nume_a / denom) * d1 - numerators and denominator are exact integers
            # (< 2^44), then one rounded quotient, product and sum: |impl - exact| <= 2^-51 (|a1| + |exact|)
            exact_stats['ulp_bound'] += 1
            return abs(fx - ex) > Fraction(abs(a[j - 6]) + abs(ex), 1 << 51)
        Ax, Ay = b[0] - a[0], b[1] - a[1]
        Bx, By = c[0] - d[0], c[1] - d[1]
        Cx, Cy = a[0] - c[0], a[1] - c[1]
        dd = By * Cx - Bx * Cy
        N = dd * (Ax if j in (1, 3) else Ay)
        a1 = a[0] if j in (1, 3) else a[1]
        den = ex.denominator
        if abs(N) < (1 << 53) and den & (den - 1) == 0 and den <= (1 << 30):
            exact_stats['exact_required'] += 1
            return fx != ex
        exact_stats['ulp_bound'] += 1
        return abs(fx - ex) > Fraction(abs(a1) + abs(ex), 1 << 51)

    def compare(other, other_name, what, limit):
        out = []
        if len(other) < count or len(cpp) < count:
            out.append({'what': what + ': different number of result lines', 'cpp': len(cpp), other_name: len(other)})
            return out
        head = other[0].split()
        pos = [k for k, ch in enumerate(head[0]) if ch != '?']
        nums = [j for j in range(1, len(RAND_NUM) + 1) if head[j] != '?']
        exact = other_name == 'exact_spec'
        for i in range(count):
            lc, lo = cpp[i], other[i]
            if lc == lo:
                continue
            fc, fo = lc.split(), lo.split()
            dc, do = fc[0], fo[0]
            bad = [k for k in pos if dc[k] != do[k]]
            if bad:
                k0 = bad[0]
                nm = ls_name if RAND_POS[k0].startswith('LineSegment') else (lambda x: x)
                out.append(case(i, what, RAND_POS[k0], nm(dc[k0]), nm(do[k0]), other_name))
            else:
                badn = [j for j in nums if (exact_differs(i, j, fc[j], fo[j]) if exact else num_differs(fc[j], fo[j]))]
                if badn:
                    ov = fo[badn[0]]
                    if exact and ov not in ('-', '?'):
                        fr = parse_q(ov)
                        ov = '%d/%d (= %.17g%s)' % (fr.numerator, fr.denominator, float(fr),
                                                    ', exactly representable' if Fraction(float(fr)) == fr else '')
                    out.append(case(i, what, RAND_NUM[badn[0] - 1], fc[badn[0]], ov, other_name))
            if len(out) >= limit:
                break
        return out

    exact_stats = {'exact_required': 0, 'ulp_bound': 0}
    spec_bad = compare(spec, 'exact_spec', 'compiled libavoid predicate disagrees with the exact-arithmetic spec decider '
                                           '(random stream)', 3)
    for v in spec_bad:
        res.violation(v)
    gen_bad = compare(gen, 'gen', 'compiled C++ vs extracted generated code (random stream)', 5) if gen is not None else []
    hist = {'collinear_abc': 0, 'crossing': 0, 'touching': 0, 'collinear_overlap': 0, 'disjoint': 0, 'zero_length': 0,
            'lineseg_PARALLEL': 0, 'lineseg_COINCIDENT': 0, 'lineseg_NOT_INTERSECTING': 0, 'lineseg_INTERSECTING': 0,
            'lineseg_zero_length_argument_off_line': 0,
            'c_strictly_on_ab': 0, 'q_inside_convex': 0, 'q_on_border': 0, 'max_abs_coordinate': 0}
    for i in range(min(count, len(cpp))):
        f = cpp[i].split()
        if not f:
            continue
        dc = f[0]
        a, b, c, d, q = rows[i]
        hist['collinear_abc'] += dc[0] == '0'
        hist['crossing'] += dc[4] == '1'
        hist['touching'] += dc[10] == '1' and dc[4] == '0'
        hist['collinear_overlap'] += dc[10] == '3'
        hist['disjoint'] += dc[10] == '0'
        hist['zero_length'] += (a == b) or (c == d)
        hist['c_strictly_on_ab'] += dc[1] == '1'
        hist['q_inside_convex'] += dc[13] == '1'
        hist['q_on_border'] += dc[16] == '1' and dc[13] == '0'
        if len(dc) > 21 and dc[21] in '0123':
            hist['lineseg_' + LS_NAMES[int(dc[21])]] += 1
            hist['lineseg_zero_length_argument_off_line'] += (c == d and a != b and dc[21] == '0')
    hist['max_abs_coordinate'] = max(abs(v) for pts in rows for p in pts for v in p)
    kh = {}
    for k in kinds:
        kh[k] = kh.get(k, 0) + 1
    info = {'tuples': count, 'seed': C.get_seed(), 'coordinate_bound': LIM, 'generator_kinds': kh, 'histogram': hist,
            'fields_compared_with_spec': [RAND_POS[k] for k, ch in enumerate(spec[0].split()[0]) if ch != '?']
                                         + [RAND_NUM[j - 1] for j in range(1, len(RAND_NUM) + 1) if spec[0].split()[j] != '?'] if spec and spec[0] else [],
            'spec_violations': len(spec_bad), 'gen_disagreements': gen_bad[:5],
            'numeric_comparison': {'rule': 'returned x, y (and manhattanDist) compared with the exact rational of the spec: equality '
                                           'required when the exact value is dyadic (denominator <= 2^30) and |d*A| < 2^53, else '
                                           '|impl - exact| <= 2^-51 (|a1| + |exact|)', **exact_stats},
            'seconds': {'cpp': round(dt_cpp, 2), 'spec': round(dt_spec, 2)},
            'samples': [{'kind': kinds[i], 'tuple': [list(p) for p in rows[i]], 'cpp': cpp[i]} for i in (0, count // 2, count - 1)]}
    return info, gen_bad


def run(tier):
    res = C.Result(PID, tier, 'proof')
    G, GP = (4, 3) if tier == 'quick' else (6, 4)
    info = C.prove(res, PID, gen_modules=['Geometry', 'LineSeg'])
    res.assumptions = ['binary64 evaluation of the predicates equals exact evaluation on the integer grids used (checked by the C++ vs extracted comparison)',
                       'cpp2v translates the fragment faithfully (validated on the same grids, every run)']
    # implementation side
    exe = C.build_harness('c16_geom', ['libavoid', 'libvpsc'], 'plain')
    rc, cpp_out, err, dt = C.sh([exe, str(G), str(GP)], timeout=900)
    if rc != 0:
        res.violation({'what': 'harness c16_geom failed', 'rc': rc, 'stderr': err[-2000:]}, no_input=True)
        return res.finish()
    cpp = parse_sections(cpp_out)
    # spec side (independent of Gen)
    spec_exe = C.ocaml_build('c16spec', 'C16spec.v', 'c16_spec_driver.ml', 'c16_spec.ml')
    rc, spec_out, err, dt = C.sh([spec_exe, str(G), str(GP)], timeout=900)
    spec = parse_sections(spec_out)
    evals = 0
    samples = []
    spec_viol = 0
    for s in SPEC_SECTIONS:
        evals += len(cpp[s])
        d = first_diff(cpp[s], spec[s])
        if d is not None:
            case = decode(s, d, G, GP)
            ic, sc_ = cpp[s][d:d + 1], spec[s][d:d + 1]
            if s == 'LineSegment_Intersect':
                ic, sc_ = ls_name(ic) if ic else ic, ls_name(sc_) if sc_ else sc_
            elif s == 'lineIntersections':
                ic, sc_ = ri_flags(ic) if ic else ic, ri_flags(sc_) if sc_ else sc_
            case.update({'implementation': ic, 'exact_spec': sc_,
                         'what': 'compiled %s disagrees with the exact-arithmetic spec decider' % s,
                         'replay': 'harness/c16_geom.cpp %d %d, section %s, index %d' % (G, GP, s, d)})
            res.violation(case)
            spec_viol += 1
    masked_cov = {}
    for s, cs in SPEC_MASKED_SECTIONS.items():
        a, b = cpp[cs], spec.get(s, '')
        defined = sum(1 for ch in b if ch != '?')
        masked_cov[s] = {'defined': defined, 'of': len(a)}
        evals += defined
        d = 0 if len(a) != len(b) else next((i for i in range(len(a)) if b[i] != '?' and a[i] != b[i]), None)
        if d is not None:
            case = decode(cs, d, G, GP)
            case.update({'implementation': a[d:d + 1], 'exact_spec': b[d:d + 1],
                         'what': 'compiled %s disagrees with the closed-region spec (%s)' % (cs, s),
                         'replay': 'harness/c16_geom.cpp %d %d, section %s, index %d' % (G, GP, cs, d)})
            res.violation(case)
            spec_viol += 1
    for s in SPEC_NUMERIC_SECTIONS:
        evals += len(cpp[s])
        nd = numeric_diff(s, cpp[s], spec.get(s, []))
        if nd is not None:
            cols = ('rectangle index, line end point indices i j (see section lineIntersections), side T/B/L/R; then the stored x y'
                    if s == 'lineIntersections_xy' else
                    'point indices i j k l on the %dx%d grid, index = x*G+y; then x y' % (G, G))
            nd.update({'what': 'compiled %s disagrees with the exact-arithmetic spec (columns: %s)' % (s, cols),
                       'replay': 'harness/c16_geom.cpp %d %d, section %s' % (G, GP, s)})
            res.violation(nd)
            spec_viol += 1
    # generated-code side (translator validation)
    gen_ok = True
    gen_diffs = []
    gen_exe = None
    try:
        gen_exe = C.ocaml_build('c16gen', 'C16gen.v', 'c16_gen_driver.ml', 'c16_gen.ml')
        rc, gen_out, err, dt = C.sh([gen_exe, str(G), str(GP)], timeout=900)
        gen = parse_sections(gen_out)
        for s in cpp:
            if s.endswith('_xy') or s == 'manhattanDist':
                a, b = cpp[s], gen.get(s, [])
                evals += len(a)
                if len(a) != len(b):
                    gen_diffs.append({'fn': s, 'what': 'different number of results', 'cpp': len(a), 'gen': len(b)})
                    continue
                for la, lb in zip(a, b):
                    fa, fb = la.split(), lb.split()
                    if fa[:-2] != fb[:-2] and s.endswith('_xy'):
                        gen_diffs.append({'fn': s, 'cpp': la, 'gen': lb}); break
                    va = [float(x) for x in fa[-2:]] if s.endswith('_xy') else [float(fa[0])]
                    vb = [float(x) for x in fb[-2:]] if s.endswith('_xy') else [float(fb[0])]
                    if any(abs(x - y) > 1e-9 * max(1, abs(x)) for x, y in zip(va, vb)):
                        gen_diffs.append({'fn': s, 'cpp': la, 'gen': lb}); break
            else:
                evals += len(cpp[s])
                d = first_diff(cpp[s], gen.get(s, ''))
                if d is not None:
                    case = decode(s, d, G, GP)
                    case.update({'cpp': cpp[s][d:d + 1], 'gen': gen.get(s, '')[d:d + 1]})
                    gen_diffs.append(case)
    except RuntimeError as e:
        gen_ok = False
        gen_diffs.append({'what': 'generated code does not build', 'error': str(e)[-1500:]})
    # random stream with larger integer coordinates (|v| <= 2^20): C++ vs spec (violations) and C++ vs gen
    rinfo, rgen_bad = random_stream(res, tier, exe, spec_exe, gen_exe if gen_ok else None)
    if rinfo is not None:
        evals += rinfo['tuples'] * (len(rinfo['fields_compared_with_spec']) + (len(RAND_POS) + len(RAND_NUM) if gen_ok else 0))
        spec_viol += rinfo['spec_violations']
        gen_diffs.extend(rgen_bad)
        res.cov['random_stream'] = rinfo
    for s in ('vecDir', 'segmentIntersect', 'inPoly3', 'LineSegment_Intersect', 'lineIntersections'):
        for idx in (7, len(cpp[s]) // 2 + 3):
            c = decode(s, idx, G, GP)
            c['result'] = cpp[s][idx]
            samples.append(c)
    nontriv = sum(1 for s in cpp if not (s.endswith('_xy') or s == 'manhattanDist') for ch in set(cpp[s])) \
        + sum(cpp[s].count('1') for s in ('segmentIntersect', 'pointOnLine')) \
        + sum(1 for ch in cpp['LineSegment_Intersect'] if ch in '13') + sum(1 for ch in cpp['lineIntersections'] if ch != 'A')
    res.cov.update({'evaluations': evals, 'distinct_nontrivial': nontriv,
                    'rule': 'exhaustive: all point tuples on the %dx%d integer grid for 3-/4-point predicates, all (possibly degenerate) '
                            'triangles and quadrilaterals on the %dx%d grid with every query point; non-trivial = tuples on which '
                            'segmentIntersect / pointOnLine answer true, segment pairs classed COINCIDENT / INTERSECTING by '
                            'LineSegment::Intersect, (rectangle, line) pairs with at least one flag set by Rectangle::lineIntersections '
                            '(all %d rectangles incl. zero-width/height with corners on the %dx%d grid x all lines between points of '
                            '[-1,%d]^2), plus the number of distinct outcomes per predicate'
                            % (G, G, GP, GP, (rect_grid(G) * (rect_grid(G) + 1) // 2) ** 2, rect_grid(G), rect_grid(G), rect_grid(G)),
                    'exhaustive': True, 'samples': samples,
                    'traces_validated_against_impl': evals,
                    'translator_validation': {'sections': sorted(cpp.keys()), 'disagreements': gen_diffs[:5]},
                    'spec_comparison': {'sections': SPEC_SECTIONS + SPEC_NUMERIC_SECTIONS + sorted(SPEC_MASKED_SECTIONS), 'masked': masked_cov, 'violations': spec_viol}})
    if spec_viol == 0 and (not info['ok'] or gen_diffs):
        # proof or correspondence broken, search (spec vs implementation on the grid) found nothing
        res.violation({'what': 'proof obligation or translator correspondence no longer checks; exhaustive grid search '
                               'of the implementation against the exact spec found no failing input',
                       'broken_files': info.get('broken'), 'broken_lemmas': info.get('broken_lemmas'),
                       'unsupported': info.get('unsupported'), 'forbidden': info.get('forbidden'),
                       'correspondence_disagreements': gen_diffs[:5], 'coq_log_tail': info['log'][-3000:]},
                      no_input=True)
    return res.finish()


def replay(path):
    print(open(path).read())
    return 0


def warm():
    C.build_harness('c16_geom', ['libavoid', 'libvpsc'], 'plain')
    C.ocaml_build('c16spec', 'C16spec.v', 'c16_spec_driver.ml', 'c16_spec.ml')
    C.ocaml_build('c16gen', 'C16gen.v', 'c16_gen_driver.ml', 'c16_gen.ml')


META = {
    'property_id': PID,
    'level_claimed': {
        'category': 'proof',
        'text': 'Theorems in Coq over the Gallina definitions that tools/cpp2v.py regenerates from libavoid geometry.h/geometry.cpp and libvpsc linesegment.h on every run, '
                'all for every rational input: vecDir = sign of the cross product; segmentIntersect <-> the open segments properly cross; '
                'pointOnLine <-> strictly between; colinear <-> cross = 0; inBetween <-> strictly between (collinear inputs, a.x = b.x or '
                '|a.x-b.x| > epsilon; the epsilon gap is exhibited by inBetween_eps_refuted); cornerSide / inValidRegion = the case tables '
                'on the signs of the cross products (convex corner: valid <-> not strictly inside the cone); segmentShapeIntersect flag '
                'semantics and the closed form of its fold over a shape (blocked <-> some edge properly crossed or two edges touched); '
                'segmentIntersectPoint: DO_INTERSECT <-> f <> 0 and the closed segments share a point, which is the returned (x,y), '
                'PARALLEL <-> f = 0 and they share a point (including zero-length segments), out-parameters otherwise untouched; '
                'rayIntersectPoint; inPoly <-> all edge cross products non-negative (positive without border); inPolyGen = the '
                'division-free crossing-parity rule for every polygon, = closed-region membership for every non-degenerate triangle '
                'and every axis-parallel rectangle in any vertex order, true at every vertex; manhattanDist, projection; the swap / '
                'reversal / translation symmetries and the eight symmetries of the square with the orientation sign tracked. '
                'libvpsc linesegment::LineSegment::Intersect (regenerated from linesegment.h into Gen/LineSeg.v): INTERSECTING <-> '
                'directions not parallel and the closed segments share a point (ua, ub in [0,1]), the out-parameter then being that unique '
                'point; NOT_INTERSECTING <-> not parallel and no common point; COINCIDENT <-> parallel directions and all four end points '
                'on one line (a zero-length segment: iff the point is on the other segment\'s line - even when it lies on the segment '
                'the answer is COINCIDENT, never INTERSECTING; two points: always COINCIDENT); PARALLEL otherwise; out-parameter untouched '
                'unless INTERSECTING; classification (and point) invariant under swapping the two segments and reversing either. '
                'vpsc::Rectangle::lineIntersections: hand-written composition model (checkIntersection over top, bottom, left, right with '
                'the early return on COINCIDENT) proved to set a side flag iff that side is INTERSECTING unless some side is COINCIDENT '
                '(then nothing is reported); tied by exhaustive correspondence on grid rectangles incl. zero width/height. The tie is the '
                'translator plus, on every run, an exhaustive three-way comparison (compiled C++ / extracted generated code / extracted '
                'spec deciders) on integer grids and on a seeded structured random stream of integer tuples up to 2^20.',
        'design_ref': 'DESIGN.md 5.16'},
    'level_note': 'Trusted: Coq kernel; cpp2v.py + clang JSON AST; exact-rational model of binary64 (exact on the integer inputs the '
                  'property names: all products below 2^53; quotients compared within 1e-9; checked by the grid and random-stream '
                  'comparison); extraction (ExtrOcamlBasic) and the OCaml/C++ drivers. Stated but not proved: inPolyGen for general simple '
                  'polygons (inPolyGen_general_partial, needs a Jordan-curve argument). Not modelled: angle, rotationalAngle, euclideanDist. '
                  'Rectangle::lineIntersections / checkIntersection (rectangle.cpp: switch, object construction) are not translated by '
                  'cpp2v: the model lineIntersections_model is hand-written (Geom/LineSegSpec.v) and tied by exhaustive correspondence only.',
    'technique': 'Coq proof over cpp2v-regenerated Gallina + exhaustive grid and random-stream correspondence',
}
