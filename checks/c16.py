"""C16 - libavoid geometry predicates agree with exact arithmetic (DESIGN 5.16).
proof: theorems about Gen/Geometry.v (regenerated from geometry.{h,cpp} by cpp2v on every run);
tie: translator (T) + translator validation: compiled C++ vs extracted Gen vs extracted spec deciders on
exhaustive integer grids."""
import os, json
from vlib import common as C

PID = 'C16'
SPEC_SECTIONS = ['vecDir', 'pointOnLine', 'segmentIntersect', 'inPoly3', 'inPoly4']


def parse_sections(txt):
    secs, cur, name = {}, None, None
    for line in txt.split('\n'):
        if line.startswith('## '):
            name = line.split()[1]
            cur = []
            secs[name] = cur
        elif cur is not None and line:
            cur.append(line)
    out = {}
    for k, v in secs.items():
        if k.endswith('_xy') or k == 'manhattanDist':
            out[k] = v
        else:
            out[k] = ''.join(v)
    return out


def decode(section, idx, G, GP):
    """index in a section -> the concrete argument tuple"""
    n, m = G * G, GP * GP
    P = lambda i, g: [i // g, i % g]
    if section in ('vecDir', 'pointOnLine', 'colinear', 'inBetween'):
        i, j, k = idx // (n * n), (idx // n) % n, idx % n
        return {'fn': section, 'a': P(i, G), 'b': P(j, G), 'c': P(k, G)}
    if section in ('segmentIntersect', 'cornerSide', 'segmentIntersectPoint_code', 'rayIntersectPoint_code',
                   'segmentShapeIntersect', 'inValidRegion'):
        flag = idx // (n ** 4)
        r = idx % (n ** 4)
        i, j, k, l = r // n ** 3, (r // n ** 2) % n, (r // n) % n, r % n
        return {'fn': section, 'flag': flag, 'a': P(i, G), 'b': P(j, G), 'c': P(k, G), 'd': P(l, G)}
    if section in ('inPoly3', 'inPolyGen3'):
        cb = idx // (m ** 4)
        r = idx % (m ** 4)
        a, b, c, q = r // m ** 3, (r // m ** 2) % m, (r // m) % m, r % m
        return {'fn': section, 'countBorder': cb, 'poly': [P(a, GP), P(b, GP), P(c, GP)], 'q': P(q, GP)}
    if section in ('inPoly4', 'inPolyGen4'):
        a, b, c, d, q = idx // m ** 4, (idx // m ** 3) % m, (idx // m ** 2) % m, (idx // m) % m, idx % m
        return {'fn': section, 'countBorder': 1, 'poly': [P(a, GP), P(b, GP), P(c, GP), P(d, GP)], 'q': P(q, GP)}
    return {'fn': section, 'index': idx}


def first_diff(a, b):
    if len(a) != len(b):
        return min(len(a), len(b))
    for i in range(len(a)):
        if a[i] != b[i]:
            return i
    return None


def run(tier):
    res = C.Result(PID, tier, 'proof')
    G, GP = (4, 3) if tier == 'quick' else (6, 4)
    info = C.prove(res, PID, gen_modules=['Geometry'])
    res.assumptions = ['binary64 evaluation of the predicates equals exact evaluation on the integer grids used (checked by the C++ vs extracted comparison)',
                       'cpp2v translates the fragment faithfully (validated on the same grids, every run)']
    # implementation side
    exe = C.build_harness('c16_geom', ['libavoid'], 'plain')
    rc, cpp_out, err, dt = C.sh([exe, str(G), str(GP)], timeout=900)
    if rc != 0:
        res.violation({'what': 'harness c16_geom failed', 'rc': rc, 'stderr': err[-2000:]}, no_input=True)
        return res.finish()
    cpp = parse_sections(cpp_out)
    # spec side (independent of Gen)
    spec_exe = C.ocaml_build('c16spec', 'C16spec.v', 'c16_spec_driver.ml', 'c16_spec.ml')
    rc, spec_out, err, dt = C.sh([spec_exe, str(G), str(GP)], timeout=900)
    spec = parse_sections(spec_out)
    evals = 0
    samples = []
    spec_viol = 0
    for s in SPEC_SECTIONS:
        evals += len(cpp[s])
        d = first_diff(cpp[s], spec[s])
        if d is not None:
            case = decode(s, d, G, GP)
            case.update({'implementation': cpp[s][d:d + 1], 'exact_spec': spec[s][d:d + 1],
                         'what': 'compiled %s disagrees with the exact-arithmetic spec decider' % s,
                         'replay': 'harness/c16_geom.cpp %d %d, section %s, index %d' % (G, GP, s, d)})
            res.violation(case)
            spec_viol += 1
    # generated-code side (translator validation)
    gen_ok = True
    gen_diffs = []
    try:
        gen_exe = C.ocaml_build('c16gen', 'C16gen.v', 'c16_gen_driver.ml', 'c16_gen.ml')
        rc, gen_out, err, dt = C.sh([gen_exe, str(G), str(GP)], timeout=900)
        gen = parse_sections(gen_out)
        for s in cpp:
            if s.endswith('_xy') or s == 'manhattanDist':
                a, b = cpp[s], gen.get(s, [])
                evals += len(a)
                if len(a) != len(b):
                    gen_diffs.append({'fn': s, 'what': 'different number of results', 'cpp': len(a), 'gen': len(b)})
                    continue
                for la, lb in zip(a, b):
                    fa, fb = la.split(), lb.split()
                    if fa[:-2] != fb[:-2] and s.endswith('_xy'):
                        gen_diffs.append({'fn': s, 'cpp': la, 'gen': lb}); break
                    va = [float(x) for x in fa[-2:]] if s.endswith('_xy') else [float(fa[0])]
                    vb = [float(x) for x in fb[-2:]] if s.endswith('_xy') else [float(fb[0])]
                    if any(abs(x - y) > 1e-9 * max(1, abs(x)) for x, y in zip(va, vb)):
                        gen_diffs.append({'fn': s, 'cpp': la, 'gen': lb}); break
            else:
                evals += len(cpp[s])
                d = first_diff(cpp[s], gen.get(s, ''))
                if d is not None:
                    case = decode(s, d, G, GP)
                    case.update({'cpp': cpp[s][d:d + 1], 'gen': gen.get(s, '')[d:d + 1]})
                    gen_diffs.append(case)
    except RuntimeError as e:
        gen_ok = False
        gen_diffs.append({'what': 'generated code does not build', 'error': str(e)[-1500:]})
    for s in ('vecDir', 'segmentIntersect', 'inPoly3'):
        for idx in (7, len(cpp[s]) // 2 + 3):
            c = decode(s, idx, G, GP)
            c['result'] = cpp[s][idx]
            samples.append(c)
    nontriv = sum(1 for s in cpp if not (s.endswith('_xy') or s == 'manhattanDist') for ch in set(cpp[s])) \
        + sum(cpp[s].count('1') for s in ('segmentIntersect', 'pointOnLine'))
    res.cov.update({'evaluations': evals, 'distinct_nontrivial': nontriv,
                    'rule': 'exhaustive: all point tuples on the %dx%d integer grid for 3-/4-point predicates, all (possibly degenerate) '
                            'triangles and quadrilaterals on the %dx%d grid with every query point; non-trivial = tuples on which '
                            'segmentIntersect / pointOnLine answer true, plus the number of distinct outcomes per predicate' % (G, G, GP, GP),
                    'exhaustive': True, 'samples': samples,
                    'traces_validated_against_impl': evals,
                    'translator_validation': {'sections': sorted(cpp.keys()), 'disagreements': gen_diffs[:5]},
                    'spec_comparison': {'sections': SPEC_SECTIONS, 'violations': spec_viol}})
    if spec_viol == 0 and (not info['ok'] or gen_diffs):
        # proof or correspondence broken, search (spec vs implementation on the grid) found nothing
        res.violation({'what': 'proof obligation or translator correspondence no longer checks; exhaustive grid search '
                               'of the implementation against the exact spec found no failing input',
                       'broken_files': info.get('broken'), 'broken_lemmas': info.get('broken_lemmas'),
                       'unsupported': info.get('unsupported'), 'forbidden': info.get('forbidden'),
                       'correspondence_disagreements': gen_diffs[:5], 'coq_log_tail': info['log'][-3000:]},
                      no_input=True)
    return res.finish()


def replay(path):
    print(open(path).read())
    return 0


def warm():
    C.build_harness('c16_geom', ['libavoid'], 'plain')
    C.ocaml_build('c16spec', 'C16spec.v', 'c16_spec_driver.ml', 'c16_spec.ml')
    C.ocaml_build('c16gen', 'C16gen.v', 'c16_gen_driver.ml', 'c16_gen.ml')


META = {
    'property_id': PID,
    'level_claimed': {
        'category': 'proof',
        'text': 'Theorems in Coq over the Gallina definitions that tools/cpp2v.py regenerates from geometry.h/geometry.cpp on every run: '
                'vecDir = sign of the cross product, segmentIntersect <-> the open segments properly cross (existential over rational '
                'parameters), pointOnLine <-> strictly between, inPoly <-> all edge cross products non-negative (positive without border), '
                'with the swap/reversal symmetries; all for every rational input. The tie is the translator plus, on every run, an '
                'exhaustive three-way comparison (compiled C++ / extracted generated code / extracted spec deciders) on integer grids.',
        'design_ref': 'DESIGN.md 5.16'},
    'level_note': 'Trusted: Coq kernel; cpp2v.py + clang JSON AST; exact-rational model of binary64 (exact on the small-integer inputs the '
                  'property names; checked by the grid comparison); extraction (ExtrOcamlBasic) and the OCaml/C++ drivers. Modelled not verified: '
                  'inPolyGen, segmentIntersectPoint, inValidRegion, cornerSide are translated and compared on grids but have no spec theorem yet.',
    'technique': 'Coq proof over cpp2v-regenerated Gallina + exhaustive grid correspondence',
}
