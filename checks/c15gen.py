"""Generator of legal libavoid lifecycle histories for C15 (and reused by the protocol-model correspondence).
A history is a list of op lines understood by harness/c15_life.cpp and extract/c15_driver.ml."""
from vlib.common import SplitMix64


def cp_points(rng, k):
    """k checkpoint positions: mostly on the lanes x,y = 45 mod 50 that no unmoved generated shape covers, sometimes anywhere"""
    pts = []
    for _ in range(k):
        if rng.chance(3, 4):
            pts.append((45 + 50 * rng.below(8), 45 + 50 * rng.below(8)))
        else:
            pts.append((rng.range(0, 400), rng.range(0, 400)))
    return pts


def k_op(conn, pts):
    return 'K %d %d' % (conn, len(pts)) + ''.join(' %d %d' % p for p in pts)


def gen_cp_history(rng):
    """directed at ConnRef::setRoutingCheckpoints: set, (reroute), replace with fewer / more / none, (reroute), then delete
    the connector and/or the router; transactions on or off, orthogonal or polyline, with a second connector sharing the scene"""
    orth = rng.below(2)
    trans = 1 if rng.chance(2, 3) else 0
    ops = ['R %d %d' % (orth, trans), 'S 1 0 100 30 30 2', 'S 2 300 100 30 30 1', 'S 3 150 %d 40 50 1' % rng.choice([80, 90, 100])]
    if rng.chance(1, 2):
        ops.append('T')
    ends = [('S 1 1', 'S 2 1'), ('S 1 2', 'P 380 %d' % rng.range(20, 300)), ('P 5 %d' % rng.range(20, 300), 'P 390 %d' % rng.range(20, 300)),
            ('S 1 1', 'P 200 350')]
    a, b = rng.choice(ends)
    ops.append('C 10 %s %s' % (a, b))
    conns = [10]
    if rng.chance(1, 2):
        ops.append('C 11 S 2 1 P %d %d' % (rng.range(0, 400), rng.range(200, 400)))
        conns.append(11)
    if rng.chance(2, 3):
        ops.append('T')

    def kick(c):
        k = rng.below(5)
        if k == 0:
            ops.append('M 3 %d %d' % (rng.range(-20, 20), rng.range(-20, 20)))
        elif k == 1:
            ops.append('I %d' % c)
        elif k == 2:
            ops.append('E %d 1 P %d %d' % (c, rng.range(300, 400), rng.range(0, 400)))
        elif k == 3:
            ops.append('I %d' % c)
            ops.append('M 1 %d %d' % (rng.range(-5, 5), rng.range(-5, 5)))
        if rng.chance(3, 4):
            ops.append('T')

    counts = {c: 0 for c in conns}
    for rnd in range(rng.range(2, 4)):
        c = rng.choice(conns)
        if rnd == 0:
            k = rng.range(1, 3)
        else:
            k = rng.choice([0, max(0, counts[c] - 1), counts[c], counts[c] + 1, counts[c] + 2])
        ops.append(k_op(c, cp_points(rng, k)))
        counts[c] = k
        if rng.chance(4, 5):
            kick(c)
    e = rng.below(5)
    if e == 0:
        ops.append('X 10')
    elif e == 1:
        ops += ['X 10', 'T']
    elif e == 2:
        ops += ['D 3', 'T']
    elif e == 3:
        ops += [k_op(10, []), 'X 10']
    ops.append('Q')
    return ops


OFFS = [0, 0.25, 0.5, 0.75, 1]        # ATTACH_POS_TOP / LEFT = 0, ATTACH_POS_CENTRE = 0.5, ATTACH_POS_BOTTOM / RIGHT = 1
DIRS = [0, 1, 2, 4, 8, 12, 15]        # ConnDirNone, Up, Down, Left, Right, Left|Right, All


def fmt(v):
    return ('%g' % v)


def pin_line(key, excl):
    cls, dirs, xo, yo, inside = key
    return '%d %s %s %d %d %s' % (cls, fmt(xo), fmt(yo), dirs, excl, fmt(inside))


def pin_args(rng, junction):
    """arguments of an N op and the key the owner's pin set orders by (class, directions, x, y, inside offset)"""
    if junction:
        key = (rng.choice([7, 8]), rng.choice(DIRS[1:]), 0, 0, 0)
    else:
        key = (rng.choice([7, 7, 8]), rng.choice(DIRS), rng.choice(OFFS), rng.choice(OFFS), rng.choice([0, 0, 3]))
    return pin_line(key, rng.below(2)), key


def same_shape_explicit(a, b):
    """both ends on one shape and at least one of them through an explicit (N-made, class >= 7) pin class: the two ends may resolve to
    one pin, i.e. a connector from a point to itself (outside the domain, like a connector from a junction to itself)"""
    a, b = a.split(), b.split()
    return a[0] == 'S' and b[0] == 'S' and a[1] == b[1] and (int(a[2]) >= 7 or int(b[2]) >= 7)


def gen_pin_history(rng):
    """directed at connection pins as first-class objects: several pins of one class on one shape that share the x offset, the y
    offset or the whole position (differing only in direction flags / inside offset), junction pins, connectors attached to the
    class; then delete second-then-first / first-then-second / the pin in use / the owning shape, with and without transactions and
    reroutes in between, re-creation of a deleted pin, and delete router with or without a final transaction"""
    orth = rng.below(2)
    trans = 1 if rng.chance(2, 3) else 0
    ops = ['R %d %d' % (orth, trans), 'S 1 %d %d %d %d %d' % (150 + 50 * rng.below(2), 100 + 50 * rng.below(2), 40 + 20 * rng.below(3), 40 + 20 * rng.below(3), 1 + rng.below(2)),
           'S 2 %d %d 30 30 1' % (rng.choice([0, 350]), rng.choice([0, 300]))]
    junc = rng.chance(1, 3)
    if junc:
        ops.append('J 5 %d %d' % (rng.choice([60, 330]), rng.choice([200, 40])))
    if rng.chance(1, 2):
        ops.append('T')
    cls = 7
    i0 = rng.below(5)
    a, b = OFFS[i0], OFFS[(i0 + 1 + rng.below(4)) % 5]
    c = rng.choice(OFFS)
    d = rng.choice(DIRS)
    ins = rng.choice([0, 0, 3])
    fam = rng.below(6)
    if fam == 0:      # same class, same x, different y (two ports on one side)
        keys = [(cls, d, c, a, ins), (cls, d, c, b, ins)]
    elif fam == 1:    # same y, different x
        keys = [(cls, d, a, c, ins), (cls, d, b, c, ins)]
    elif fam == 2:    # identical position, different direction flags
        d2 = rng.choice([x for x in DIRS if x != d])
        keys = [(cls, d, c, a, ins), (cls, d2, c, a, ins)]
    elif fam == 3:    # identical position and directions, different inside offset / class
        keys = [(cls, d, c, a, 0), (cls, d, c, a, 3)] if rng.chance(1, 2) else [(cls, d, c, a, ins), (cls + 1, d, c, a, ins)]
    elif fam == 4:    # a column and a row sharing a corner
        keys = [(cls, d, 0, 0, ins), (cls, d, 0, 1, ins), (cls, d, 1, 0, ins)]
    else:             # random distinct pins
        keys = []
        while len(keys) < rng.range(2, 4):
            k = pin_args(rng, False)[1]
            k = (cls,) + k[1:] if rng.chance(2, 3) else k
            if k not in keys:
                keys.append(k)
    if rng.chance(1, 2):
        keys.reverse()
    pid = 200
    live = []                # (handle, owner, key)
    for k in keys:
        pid += 1
        ops.append('N 1 %d %s' % (pid, pin_line(k, rng.below(2))))
        live.append((pid, 1, k))
    if junc and rng.chance(2, 3):
        for k in ([(7, 4, 0, 0, 0), (7, 8, 0, 0, 0)] if rng.chance(1, 2) else [(7, 1, 0, 0, 0), (8, 1, 0, 0, 0)]):
            pid += 1
            ops.append('N 5 %d %s' % (pid, pin_line(k, rng.below(2))))
            live.append((pid, 5, k))
    if rng.chance(1, 3):
        ops.append('T')
    kcls = keys[0][0]
    far = ['P %d %d' % (rng.range(0, 400), rng.range(0, 400)), 'S 2 1'] + (['J 5'] if junc else [])
    ops.append('C 10 S 1 %d %s' % (kcls, rng.choice(far)))
    conns = [10]
    if rng.chance(1, 2):
        ops.append('C 11 %s S 1 %d' % (rng.choice(far[:2]), kcls))
        conns.append(11)
    if junc and any(o == 5 for _, o, _ in live) and rng.chance(1, 2):
        ops.append('C 12 J 5 P %d %d' % (rng.range(0, 400), rng.range(0, 400)))
        conns.append(12)
    if rng.chance(3, 4):
        ops.append('T')
    shape_gone = False
    for _ in range(rng.range(2, 5)):
        k = rng.below(9)
        mine = [x for x in live if not (shape_gone and x[1] == 1)]
        if k <= 2 and mine:                              # delete a pin: last created / first created / any
            x = mine[-1] if k == 0 else (mine[0] if k == 1 else rng.choice(mine))
            live.remove(x)
            ops.append('XN %d' % x[0])
        elif k == 3 and not shape_gone:
            ops.append('M 1 %d %d' % (rng.range(-20, 20), rng.range(-20, 20)))
        elif k == 4 and not shape_gone and (not trans or 'T' in ops):     # (no add + delete of one object in one transaction)
            ops.append('D 1')
            shape_gone = True
            live = [x for x in live if x[1] != 1]
        elif k == 5 and not shape_gone:                  # re-create a pin (the key of a deleted one, or a new one)
            key = rng.choice(keys)
            if all(not (x[1] == 1 and x[2] == key) for x in live):
                pid += 1
                ops.append('N 1 %d %s' % (pid, pin_line(key, rng.below(2))))
                live.append((pid, 1, key))
        elif k == 6 and conns:
            ops.append('I %d' % rng.choice(conns))
        elif k == 7 and conns and not shape_gone:
            c0 = rng.choice([c for c in conns if c in (10, 11)] or [10])
            if c0 in conns:                              # re-point the end that is on shape 1 already (never both ends on one shape)
                ops.append('E %d %d S 1 %d' % (c0, 0 if c0 == 10 else 1, kcls))
        elif k == 8 and conns:
            c0 = rng.choice(conns)
            conns.remove(c0)
            ops.append('X %d' % c0)
        if rng.chance(2, 3):
            ops.append('T')
    if rng.chance(1, 2):
        ops.append('T')
    ops.append('Q')
    return ops


def gen_history(rng, max_steps=30, family='generic'):
    orth = rng.below(2)
    trans = 1 if rng.chance(3, 4) else 0
    ops = ['R %d %d' % (orth, trans)]
    shapes, juncs, conns = [], [], []
    pins = {}              # explicit pin handle -> (owner, key); key = what the pin set's order compares
    pinkeys = {}           # owner -> set of keys in use (incl. the pins the harness creates with S / J)
    classes = {}           # shape -> explicit pin classes currently present
    npin = [200]
    fresh = set()          # shapes added since the last processTransaction (must not be deleted before it)
    cends = {}             # connector -> its two ends as last set
    nid = [1]

    def newid():
        nid[0] += 1
        return nid[0]

    def end():
        k = rng.below(10)
        if shapes and k < 5:
            s = rng.choice(shapes)
            if classes.get(s[0]) and rng.chance(1, 2):
                return 'S %d %d' % (s[0], rng.choice(sorted(classes[s[0]])))
            return 'S %d %d' % (s[0], 2 if (s[1] >= 2 and rng.chance(1, 2)) else 1)
        if juncs and k < 7:
            return 'J %d' % rng.choice(juncs)
        return 'P %d %d' % (rng.range(0, 400), rng.range(0, 400))

    steps = rng.range(5, max_steps)
    for _ in range(steps):
        op = rng.below(16)
        if op == 0 or len(shapes) < 2:
            i = newid()
            np = 1 + rng.below(2)
            ops.append('S %d %d %d %d %d %d' % (i, rng.below(8) * 50, rng.below(8) * 50, 20 + rng.below(3) * 10, 20 + rng.below(3) * 10, np))
            shapes.append((i, np))
            pinkeys[i] = set([(1, 0, 0.5, 0.5, 0)] + ([(2, 8, 1, 0.5, 3)] if np >= 2 else []))
            if trans:
                fresh.add(i)
        elif op in (13, 14):
            owners = [s[0] for s in shapes] + juncs
            o = rng.choice(owners)
            line, key = pin_args(rng, o in juncs)
            if key not in pinkeys.setdefault(o, set()):
                npin[0] += 1
                pinkeys[o].add(key)
                pins[npin[0]] = (o, key)
                if o not in juncs:
                    classes.setdefault(o, set()).add(key[0])
                ops.append('N %d %d %s' % (o, npin[0], line))
        elif op == 15 and pins:
            pid = rng.choice(sorted(pins))
            o, key = pins.pop(pid)
            pinkeys[o].discard(key)
            ops.append('XN %d' % pid)
        elif op in (1, 2):
            i = newid()
            a, b = end(), end()
            if (a == b and a[0] == 'J') or same_shape_explicit(a, b):
                b = 'P %d %d' % (rng.range(0, 400), rng.range(0, 400))   # no connector from a junction to itself / from a shape's port class to the same shape
            ops.append('C %d %s %s' % (i, a, b))
            conns.append(i)
            cends[i] = [a, b]
        elif op == 3 and shapes:
            s = rng.choice(shapes)
            ops.append('M %d %d %d' % (s[0], rng.range(-30, 30), rng.range(-30, 30)))
        elif op == 4 and shapes:
            cand = [s for s in shapes if s[0] not in fresh]
            if cand:
                s = rng.choice(cand)
                ops.append('D %d' % s[0])
                shapes.remove(s)
                for pid in [q for q in pins if pins[q][0] == s[0]]:
                    del pins[pid]                  # ~Obstacle frees them: the client gives its handles up
        elif op == 5 and conns:
            c = rng.choice(conns)
            ops.append('X %d' % c)
            conns.remove(c)
        elif op == 6 and conns:
            c, w, e = rng.choice(conns), rng.below(2), end()
            if (e[0] == 'J' and cends[c][1 - w] == e) or same_shape_explicit(e, cends[c][1 - w]):
                e = 'P %d %d' % (rng.range(0, 400), rng.range(0, 400))   # no connector from a junction to itself (also not via setEndpoint)
            cends[c][w] = e
            ops.append('E %d %d %s' % (c, w, e))
        elif op in (7, 8):
            ops.append('T')
            fresh.clear()
        elif op == 9:
            i = newid()
            ops.append('J %d %d %d' % (i, rng.range(0, 400) + 15, rng.range(0, 400) + 15))
            juncs.append(i)
            pinkeys[i] = set([(2147483646, 15, 0, 0, 0)])
            if trans:
                fresh.add(i)
        elif op == 10 and family != 'nojdel':
            cand = [j for j in juncs if j not in fresh]
            if cand:
                j = rng.choice(cand)
                ops.append('DJ %d' % j)
                juncs.remove(j)
                for pid in [q for q in pins if pins[q][0] == j]:
                    del pins[pid]
        elif op == 11 and conns:
            ops.append(k_op(rng.choice(conns), cp_points(rng, rng.below(4))))
        elif op == 12 and conns:
            ops.append('I %d' % rng.choice(conns))
    if rng.chance(1, 2):
        ops.append('T')
    ops.append('Q')
    return ops
